"""Reference tables written from the GFA1/GFA2 specifications and from the
property statements in /verif/properties.jsonl -- independently of the analysed
code.  The rules compare tables *extracted from the tree* with these.
"""

# --------------------------------------------------------------------------
# C11: interval kinds, alignment types, filing of edges on segment ends

SUBSTRING_TYPES = ["pfx", "sfx", "whole", "internal"]
ORIENTS = ["+", "-"]


def ref_substring_type(beg, end):
    """beg, end: (value, is_last).  Returns the kind of the interval, 'error'
    where the coordinates are illegal, or None where the specification does
    not determine the kind (zero-length segment)."""
    (b, bl), (e, el) = beg, end
    if b > e:
        return "error"
    if (bl and b == 0) or (el and e == 0):
        return None             # empty segment: first == last, ambiguous
    if bl and not el:
        return "error"          # '$' on begin but end (>= begin) without '$'
    if b == 0:
        return "whole" if el else "pfx"
    if el:
        return "sfx"            # includes the empty suffix  L$..L$
    return "internal"


def ref_alignment_type(st1, st2, o1, o2):
    """'C' containment, 'L' dovetail, 'I' internal (GFA2 spec, E lines)."""
    if st1 == "whole" or st2 == "whole":
        return "C"
    if o1 == o2:
        if (st1, st2) in (("pfx", "sfx"), ("sfx", "pfx")):
            return "L"
        return "I"
    if (st1, st2) in (("pfx", "pfx"), ("sfx", "sfx")):
        return "L"
    return "I"


def ref_refkey_gfa2(snum, st1, st2, o1, o2):
    """Collection of the segment on side `snum` under which an E line is filed."""
    t = ref_alignment_type(st1, st2, o1, o2)
    own = st1 if snum == 1 else st2
    other = st2 if snum == 1 else st1
    if t == "I":
        return "internals"
    if t == "L":
        # forward coordinates: a prefix lies on the left end, a suffix on the
        # right end of the segment, whatever the orientation
        return "dovetails_L" if own == "pfx" else "dovetails_R"
    # containment: the side whose whole sequence is aligned is the contained
    # segment; it files the edge under 'edges_to_containers'
    if own == "whole" and other != "whole":
        return "edges_to_containers"
    if other == "whole" and own != "whole":
        return "edges_to_contained"
    # both whole: the specification is silent; gfapy documents sid1 = container
    return None


def ref_link_end(role, orient):
    """GFA1 L line: end of the from/to segment involved in the overlap."""
    if role == "from":
        return "R" if orient == "+" else "L"
    return "L" if orient == "+" else "R"


def ref_refkey_gfa1(record_type, role, orient):
    if record_type == "L":
        return "dovetails_" + ref_link_end(role, orient)
    # C line: from = container, to = contained
    return "edges_to_contained" if role == "from" else "edges_to_containers"


def ref_gap_key(snum, o1, o2):
    """G line: sid1 end is R for '+', L for '-'; sid2 end is L for '+', R for '-'."""
    if snum == 1:
        return "gaps_R" if o1 == "+" else "gaps_L"
    return "gaps_L" if o2 == "+" else "gaps_R"


INVERT = {"+": "-", "-": "+", "L": "R", "R": "L"}


def ref_segment_role(first_beg, last_end, orient):
    """Role of one side of an E line when read as a GFA1 line."""
    if first_beg and last_end:
        return "contained"
    if first_beg:
        return "pfx" if orient == "+" else "sfx"
    if last_end:
        return "sfx" if orient == "+" else "pfx"
    return "other"


def ref_is_sid1_from(role1, role2):
    """True: sid1 is the GFA1 'from'; False: sid2; None: undefined (error)."""
    if role2 == "contained":
        return True
    if role1 == "contained":
        return False
    if role1 == "sfx" and role2 == "pfx":
        return True
    if role2 == "sfx" and role1 == "pfx":
        return False
    return None


# derived queries of a segment: which collections they must read
SEGMENT_QUERY_READS = {
    "dovetails": {"dovetails_L", "dovetails_R"},
    "gaps": {"gaps_L", "gaps_R"},
    "containments": {"edges_to_contained", "edges_to_containers"},
    "neighbours_L": {"dovetails_L"},
    "neighbours_R": {"dovetails_R"},
    "containers": {"edges_to_containers"},
    "contained": {"edges_to_contained"},
}

# --------------------------------------------------------------------------
# C12: CIGAR complement

CIGAR_CODES_CLAIM = ["M", "I", "D", "P", "=", "X", "H"]   # S, N outside claim
CIGAR_COMPLEMENT = {"M": "M", "I": "D", "D": "I", "P": "P", "=": "=",
                    "X": "X", "H": "H", "S": "D", "N": "I"}
CIGAR_REFERENCE_CODES = {"M", "=", "X", "D", "N"}
CIGAR_QUERY_CODES = {"M", "=", "X", "I", "S"}

# --------------------------------------------------------------------------
# C13: record type x version

GFA1_ONLY = ["L", "C", "P"]
GFA2_ONLY = ["E", "G", "F", "O", "U"]
GENERIC = ["H", "#"]
BOTH_DIFFERENT = ["S"]

# --------------------------------------------------------------------------
# C05: removal cascade (property statement + doc/tutorial/references.rst)

DEPENDENT_LINES = {
    ("S", "gfa1"): {"dovetails_L", "dovetails_R", "edges_to_contained",
                    "edges_to_containers", "paths"},
    ("S", "gfa2"): {"dovetails_L", "dovetails_R", "gaps_L", "gaps_R",
                    "edges_to_contained", "edges_to_containers", "fragments",
                    "internals", "paths", "sets"},
    ("L", None): {"paths"},
    ("C", None): set(),
    ("E", None): {"paths", "sets"},
    ("O", None): {"paths", "sets"},
    ("U", None): {"sets"},
    ("\n", None): {"sets", "paths"},
    ("G", None): set(),
    ("F", None): set(),
    ("P", None): set(),
    ("H", None): set(),
    ("#", None): set(),
}
