"""Reference tables written from the GFA1/GFA2 specifications and from the
property statements in /verif/properties.jsonl -- independently of the analysed
code.  The rules compare tables *extracted from the tree* with these.
"""

# --------------------------------------------------------------------------
# C11: interval kinds, alignment types, filing of edges on segment ends

SUBSTRING_TYPES = ["pfx", "sfx", "whole", "internal"]
ORIENTS = ["+", "-"]


def ref_substring_type(beg, end):
    """beg, end: (value, is_last).  Returns the kind of the interval, 'error'
    where the coordinates are illegal, or None where the specification does
    not determine the kind (zero-length segment)."""
    (b, bl), (e, el) = beg, end
    if b > e:
        return "error"
    if (bl and b == 0) or (el and e == 0):
        return None             # empty segment: first == last, ambiguous
    if bl and not el:
        return "error"          # '$' on begin but end (>= begin) without '$'
    if b == 0:
        return "whole" if el else "pfx"
    if el:
        return "sfx"            # includes the empty suffix  L$..L$
    return "internal"


def ref_alignment_type(st1, st2, o1, o2):
    """'C' containment, 'L' dovetail, 'I' internal (GFA2 spec, E lines)."""
    if st1 == "whole" or st2 == "whole":
        return "C"
    if o1 == o2:
        if (st1, st2) in (("pfx", "sfx"), ("sfx", "pfx")):
            return "L"
        return "I"
    if (st1, st2) in (("pfx", "pfx"), ("sfx", "sfx")):
        return "L"
    return "I"


def ref_refkey_gfa2(snum, st1, st2, o1, o2):
    """Collection of the segment on side `snum` under which an E line is filed."""
    t = ref_alignment_type(st1, st2, o1, o2)
    own = st1 if snum == 1 else st2
    other = st2 if snum == 1 else st1
    if t == "I":
        return "internals"
    if t == "L":
        # forward coordinates: a prefix lies on the left end, a suffix on the
        # right end of the segment, whatever the orientation
        return "dovetails_L" if own == "pfx" else "dovetails_R"
    # containment: the side whose whole sequence is aligned is the contained
    # segment; it files the edge under 'edges_to_containers'
    if own == "whole" and other != "whole":
        return "edges_to_containers"
    if other == "whole" and own != "whole":
        return "edges_to_contained"
    # both whole: the specification is silent; gfapy documents sid1 = container
    return None


def ref_link_end(role, orient):
    """GFA1 L line: end of the from/to segment involved in the overlap."""
    if role == "from":
        return "R" if orient == "+" else "L"
    return "L" if orient == "+" else "R"


def ref_refkey_gfa1(record_type, role, orient):
    if record_type == "L":
        return "dovetails_" + ref_link_end(role, orient)
    # C line: from = container, to = contained
    return "edges_to_contained" if role == "from" else "edges_to_containers"


def ref_gap_key(snum, o1, o2):
    """G line: sid1 end is R for '+', L for '-'; sid2 end is L for '+', R for '-'."""
    if snum == 1:
        return "gaps_R" if o1 == "+" else "gaps_L"
    return "gaps_L" if o2 == "+" else "gaps_R"


INVERT = {"+": "-", "-": "+", "L": "R", "R": "L"}


def ref_segment_role(first_beg, last_end, orient):
    """Role of one side of an E line when read as a GFA1 line."""
    if first_beg and last_end:
        return "contained"
    if first_beg:
        return "pfx" if orient == "+" else "sfx"
    if last_end:
        return "sfx" if orient == "+" else "pfx"
    return "other"


def ref_is_sid1_from(role1, role2):
    """True: sid1 is the GFA1 'from'; False: sid2; None: undefined (error)."""
    if role2 == "contained":
        return True
    if role1 == "contained":
        return False
    if role1 == "sfx" and role2 == "pfx":
        return True
    if role2 == "sfx" and role1 == "pfx":
        return False
    return None


# derived queries of a segment: which collections they must read
SEGMENT_QUERY_READS = {
    "dovetails": {"dovetails_L", "dovetails_R"},
    "gaps": {"gaps_L", "gaps_R"},
    "containments": {"edges_to_contained", "edges_to_containers"},
    "neighbours_L": {"dovetails_L"},
    "neighbours_R": {"dovetails_R"},
    "containers": {"edges_to_containers"},
    "contained": {"edges_to_contained"},
}

# --------------------------------------------------------------------------
# C12: CIGAR complement

CIGAR_CODES_CLAIM = ["M", "I", "D", "P", "=", "X", "H"]   # S, N outside claim
CIGAR_COMPLEMENT = {"M": "M", "I": "D", "D": "I", "P": "P", "=": "=",
                    "X": "X", "H": "H", "S": "D", "N": "I"}
CIGAR_REFERENCE_CODES = {"M", "=", "X", "D", "N"}
CIGAR_QUERY_CODES = {"M", "=", "X", "I", "S"}

# --------------------------------------------------------------------------
# C13: record type x version

GFA1_ONLY = ["L", "C", "P"]
GFA2_ONLY = ["E", "G", "F", "O", "U"]
GENERIC = ["H", "#"]
BOTH_DIFFERENT = ["S"]

# --------------------------------------------------------------------------
# C05: removal cascade (property statement + doc/tutorial/references.rst)

DEPENDENT_LINES = {
    ("S", "gfa1"): {"dovetails_L", "dovetails_R", "edges_to_contained",
                    "edges_to_containers", "paths"},
    ("S", "gfa2"): {"dovetails_L", "dovetails_R", "gaps_L", "gaps_R",
                    "edges_to_contained", "edges_to_containers", "fragments",
                    "internals", "paths", "sets"},
    ("L", None): {"paths"},
    ("C", None): set(),
    ("E", None): {"paths", "sets"},
    ("O", None): {"paths", "sets"},
    ("U", None): {"sets"},
    ("\n", None): {"sets", "paths"},
    ("G", None): set(),
    ("F", None): set(),
    ("P", None): set(),
    ("H", None): set(),
    ("#", None): set(),
}

# --------------------------------------------------------------------------
# C10: the read-only surface (owner -> method/property names), enumerated from
# the categories of the property statement: string conversion, field and tag
# reads, validation, cloning, comparison and diff, alignment complement and
# length queries, link complement/equivalence/compatibility tests,
# neighbourhood and topology queries, path and set resolution, searches, and
# the datatype codecs they use.  Version conversion (to_gfa1/to_gfa2*), which
# documents that it assigns a missing ID, is outside the list.
READ_ONLY = {
    "alignment.cigar.CIGAR.Operation": "__eq__ __len__ __repr__ __str__ validate",
    "alignment.cigar.CIGAR": "__repr__ __str__ complement length_on_query length_on_reference validate",
    "alignment.placeholder.AlignmentPlaceholder": "__repr__ complement",
    "alignment.trace.Trace": "__repr__ __str__ complement validate",
    "byte_array.ByteArray": "__str__ validate",
    "field_array.FieldArray": "__eq__ __getattr__ __iter__ __repr__ __str__ datatype validate",
    "gfa.Gfa": "__str__ dialect to_file validate version vlevel",
    "graph_operations.linear_paths.LinearPaths": "linear_path linear_paths",
    "graph_operations.topology.Topology": "connected_components is_cut_link is_cut_segment n_containments n_dead_ends n_dovetails n_internals segment_connected_component",
    "lastpos.LastPos": "__eq__ __int__ __lt__ __repr__ __str__ validate",
    "lastpos": "isfirstpos islastpos posvalue",
    "line.comment.writer.Writer": "__str__ to_list",
    "line.common.cloning.Cloning": "clone",
    "line.common.connection.Connection": "all_references gfa is_connected",
    "line.common.dynamic_fields.DynamicFields": "__getattribute__",
    "line.common.equivalence.Equivalence": "__eq__ __hash__ diff diffscript",
    "line.common.field_data.FieldData": "get positional_fieldnames record_type tagnames try_get",
    "line.common.field_datatype.FieldDatatype": "get_datatype",
    "line.common.validate.Validate": "validate validate_field",
    "line.common.version_conversion.VersionConversion": "dialect version",
    "line.common.virtual_to_real.VirtualToReal": "virtual",
    "line.common.writer.Writer": "__repr__ __str__ field_to_s refstr to_list to_str _tags",
    "line.custom_record.construction.Construction": "positional_fieldnames tagnames",
    "line.edge.common.alignment_type.AlignmentType": "is_containment is_dovetail is_internal",
    "line.edge.common.from_to.FromTo": "from_end from_name is_circular is_circular_same_end other_end to_end to_name",
    "line.edge.containment.canonical.Canonical": "is_canonical",
    "line.edge.containment.pos.Pos": "rpos",
    "line.edge.containment.to_gfa2.ToGFA2": "from_coords to_coords",
    "line.edge.gfa1.oriented_segments.OrientedSegments": "oriented_from oriented_to",
    "line.edge.gfa1.other.Other": "other other_oriented_segment",
    "line.edge.gfa1.to_gfa2.ToGFA2": "alignment beg1 beg2 eid end1 end2 sid1 sid2",
    "line.edge.gfa2.other.Other": "other other_oriented_segment",
    "line.edge.gfa2.to_gfa1.ToGFA1": "from_orient from_segment oriented_from oriented_to overlap pos to_orient to_segment",
    "line.edge.gfa2.validation.Validation": "validate_positions",
    "line.edge.gfa2.alignment_type.AlignmentType": "_alignment_type",
    "line.edge.link.canonical.Canonical": "is_canonical",
    "line.edge.link.complement.Complement": "complement",
    "line.edge.link.equivalence.Equivalence": "__hash__ are_tags_eql is_compatible is_compatible_complement is_compatible_direct is_complement is_eql is_same",
    "line.edge.link.to_gfa2.ToGFA2": "from_coords to_coords",
    "line.fragment.validation.Validation": "validate_positions",
    "line.group.ordered.captured_path.CapturedPath": "captured_edges captured_path captured_segments",
    "line.group.path.captured_path.CapturedPath": "captured_edges captured_path captured_segments",
    "line.group.path.topology.Topology": "is_circular is_linear",
    "line.group.unordered.induced_set.InducedSet": "induced_edges_set induced_segments_set induced_set",
    "line.header.multiline.Multiline": "field_to_s _tags _split _n_duptags",
    "line.segment.coverage.Coverage": "coverage try_get_coverage",
    "line.segment.length_gfa1.LengthGFA1": "length try_get_length validate_length",
    "line.segment.references.References": "contained containers containments dovetails dovetails_of_end edges end_relations gaps gaps_of_end neighbours neighbours_L neighbours_R neighbours_of_end oriented_relations relations_to _connectivity",
    "line.segment.writer_wo_sequence.WriterWoSequence": "__str__",
    "line.unknown.unknown.Unknown": "__str__ virtual",
    "lines.collections.Collections": "comments containments custom_record_keys custom_records custom_records_of_type dovetails edge_names edges external_names fragments gap_names gaps lines names path_names paths segment_names segments set_names sets",
    "lines.finders.Finders": "fragments_for_external line segment select try_get_line try_get_segment _search_link _search_duplicate",
    "lines.headers.Headers": "header headers n_input_header_lines",
    "numeric_array.NumericArray": "__str__ compute_subtype from_string integer_type validate",
    "oriented_line.OrientedLine": "__eq__ __getattr__ __repr__ __str__ inverted line name orient validate",
    "placeholder.Placeholder": "__bool__ __eq__ __getitem__ __len__ __repr__ __str__ complement is_empty rc validate",
    "placeholder": "is_placeholder",
    "rgfa.RGFA": "is_rgfa stable_sequence_names validate_rgfa",
    "segment_end.SegmentEnd": "__eq__ __getattr__ __repr__ __str__ end_type inverted name segment validate",
    "segment_end_path.SegmentEndsPath": "__reversed__",
    "sequence": "Sequence rc",
    "symbol_invert": "invert",
}
# every datatype module of Field.FIELD_MODULE contributes these functions
READ_ONLY_CODEC = ["decode", "unsafe_decode", "encode", "unsafe_encode",
                   "validate_encoded", "validate_decoded"]
# documented API-private accumulator parameters (function short name -> names)
ACCUMULATOR_PARAMS = {
    "graph_operations.topology.Topology.segment_connected_component":
        ["visited"],
    "graph_operations.linear_paths.LinearPaths.linear_path": ["exclude"],
}

# --------------------------------------------------------------------------
# C04 / C20: field grammars (GFA1 and GFA2 specifications; SAM specification
# for the tag datatypes).  Regular expressions are *strict*: the whole string
# must match, nothing may follow.  Where the specification is silent gfapy's
# documented choice is the reference (sign allowed on integers; per-subtype B
# arrays: unsigned elements for C,S,I).
FLOAT_RE = r"[-+]?[0-9]*\.?[0-9]+([eE][-+]?[0-9]+)?"
GFA1_NAME_RE = r"[!-)+-<>-~][!-~]*"
CIGAR1_RE = r"\*|([0-9]+[MIDNSHPX=])+"
GRAMMAR = {
    "alignment_gfa1": ("re", CIGAR1_RE),
    "alignment_list_gfa1": ("re", r"(%s)(,(%s))*" % (CIGAR1_RE, CIGAR1_RE)),
    "byte_array": ("re", r"[0-9A-F]+"),
    "char": ("re", r"[!-~]"),
    "comment": ("without", "\n"),
    "custom_record_type": ("re-minus", r"[!-~]+",
                           ["E", "G", "F", "O", "U", "H", "#", "S"]),
    "float": ("re", FLOAT_RE),
    "generic": ("without", "\n\t"),
    "identifier_gfa2": ("re", r"[!-~]+"),
    "identifier_list_gfa2": ("re", r"[!-~]+( [!-~]+)*"),
    "integer": ("re", r"[-+]?[0-9]+"),
    "json": ("re+json", r"[ !-~]+"),
    "numeric_array": ("re", r"f(,%s)+|[CSI](,\+?[0-9]+)+|[csi](,[-+]?[0-9]+)+"
                      % FLOAT_RE),
    "optional_identifier_gfa2": ("re", r"[!-~]+"),
    "optional_integer": ("re", r"\*|[-+]?[0-9]+"),
    "orientation": ("re", r"[+-]"),
    "oriented_identifier_gfa2": ("re", r"[!-~]+[+-]"),
    "oriented_identifier_list_gfa1": ("re", r"%s[+-](,%s[+-])*" % (
        GFA1_NAME_RE, GFA1_NAME_RE)),
    "oriented_identifier_list_gfa2": ("re", r"[!-~]+[+-]( [!-~]+[+-])*"),
    "path_name_gfa1": ("re", GFA1_NAME_RE),
    "position_gfa1": ("re", r"[0-9]+"),
    "position_gfa2": ("re", r"[0-9]+\$?"),
    "segment_name_gfa1": ("re-not-containing", GFA1_NAME_RE, r"[+-],"),
    "sequence_gfa1": ("re", r"\*|[A-Za-z=.]+"),
    "sequence_gfa2": ("re", r"[!-~]+"),
    "string": ("re", r"[ !-~]+"),
}
TAG_RE = r"([A-Za-z][A-Za-z0-9]):([AifZJHB]):(.+)"
TAG_NAME_RE = r"[A-Za-z][A-Za-z0-9]"
TAG_DATATYPES = {"A": "char", "i": "integer", "f": "float", "Z": "string",
                 "J": "json", "H": "byte_array", "B": "numeric_array"}

# record type -> (positional field datatypes in order, predefined tag types)
RECORDS = {
    ("H", None): ([], {"VN": "Z", "TS": "i"}),
    ("S", "gfa1"): (["segment_name_gfa1", "sequence_gfa1"],
                    {"LN": "i", "RC": "i", "FC": "i", "KC": "i", "SH": "H",
                     "UR": "Z"}),
    ("S", "gfa2"): (["identifier_gfa2", "i", "sequence_gfa2"],
                    {"RC": "i", "FC": "i", "KC": "i", "SH": "H", "UR": "Z"}),
    ("L", None): (["segment_name_gfa1", "orientation", "segment_name_gfa1",
                   "orientation", "alignment_gfa1"],
                  {"MQ": "i", "NM": "i", "RC": "i", "FC": "i", "KC": "i",
                   "ID": "Z"}),
    ("C", None): (["segment_name_gfa1", "orientation", "segment_name_gfa1",
                   "orientation", "position_gfa1", "alignment_gfa1"],
                  {"MQ": "i", "NM": "i", "ID": "Z"}),
    ("P", None): (["path_name_gfa1", "oriented_identifier_list_gfa1",
                   "alignment_list_gfa1"], {}),
    ("E", None): (["optional_identifier_gfa2", "oriented_identifier_gfa2",
                   "oriented_identifier_gfa2", "position_gfa2",
                   "position_gfa2", "position_gfa2", "position_gfa2",
                   "alignment_gfa2"], {"TS": "i"}),
    ("F", None): (["identifier_gfa2", "oriented_identifier_gfa2",
                   "position_gfa2", "position_gfa2", "position_gfa2",
                   "position_gfa2", "alignment_gfa2"], {"TS": "i"}),
    ("G", None): (["optional_identifier_gfa2", "oriented_identifier_gfa2",
                   "oriented_identifier_gfa2", "i", "optional_integer"], {}),
    ("O", None): (["optional_identifier_gfa2",
                   "oriented_identifier_list_gfa2"], {}),
    ("U", None): (["optional_identifier_gfa2", "identifier_list_gfa2"], {}),
    ("#", None): (["comment", "comment"], {}),
    ("\n", None): (["identifier_gfa2"], {}),
}

# value classes: which are immutable (cannot be changed through any method)
IMMUTABLE_VALUE_CLASSES = {"int", "float", "str", "bool", "NoneType",
                           "ByteArray", "Placeholder", "AlignmentPlaceholder",
                           "LastPos"}
# mutable containers whose elements are immutable (numbers): a shallow copy
# of one shares nothing that can change
FLAT_VALUE_CLASSES = {"NumericArray", "Trace"}
MUTABLE_VALUE_CLASSES = {"list", "dict", "CIGAR", "Trace", "NumericArray",
                         "OrientedLine", "FieldArray"}
