"""Hooks modelling the parts of gfapy the table evaluator does not inline:
field storage of a line (get/_set_existing_field), back-reference filing
(_add_reference), the two-argument constructors of SegmentEnd/OrientedLine,
and the Gfa finders used by reference initialisation.  Everything observable
is recorded as an event so that rules can compare it with the specification.
"""
from .tables import Hooks, Abs, Unsupported
from .model import ClassInfo


import ast as _ast
import re as _re
from .model import External, dotted as _dotted


class LineHooks(Hooks):
    def __init__(self, repo):
        self.repo = repo
        self.SegmentEnd = repo.cls("SegmentEnd")
        self.OrientedLine = repo.cls("OrientedLine")
        self.LastPos = repo.cls("LastPos")
        self.Placeholder = repo.cls("Placeholder")
        self.seg_classes = {}

    # -- helpers
    @staticmethod
    def name_of(v):
        if isinstance(v, Abs):
            if "name" in v.attrs:
                return v.attrs["name"]
            return v.label
        return v

    def construct(self, ev, cls, args, kwargs):
        if cls is self.SegmentEnd:
            if len(args) == 1 and isinstance(args[0], Abs) and \
                    args[0].cls is cls:
                return args[0]
            if len(args) == 2:
                return Abs(cls, segment=args[0], end_type=args[1],
                           name=self.name_of(args[0]))
        if cls is self.OrientedLine:
            if len(args) == 1 and isinstance(args[0], Abs) and \
                    args[0].cls is cls:
                return args[0]
            if len(args) == 2:
                return Abs(cls, line=args[0], orient=args[1],
                           name=self.name_of(args[0]))
        if cls is self.LastPos and len(args) == 1 and \
                isinstance(args[0], int):
            return Abs(cls, value=args[0])
        if cls is self.Placeholder and not args:
            return Abs(cls, __bool__=False)
        if cls.name in ("GFA1", "GFA2") and kwargs.get("virtual"):
            # placeholder segment created for a forward reference
            data = args[0] if args else {}
            a = Abs(cls, label="virtual:%s" % self.name_of(
                data.get("name", data.get("sid"))), _virtual=True)
            a.attrs.update(data)
            a.attrs["name"] = data.get("name", data.get("sid"))
            ev.events.append(("virtual", a.label))
            return a
        return NotImplemented

    def eq(self, ev, a, b):
        for cls, fields in ((self.SegmentEnd, ("name", "end_type")),
                            (self.OrientedLine, ("name", "orient"))):
            if isinstance(a, Abs) and a.cls is cls and isinstance(b, Abs) \
                    and b.cls is cls:
                return all(a.attrs[f] == b.attrs[f] for f in fields)
        if isinstance(a, Abs) and a.cls is self.LastPos:
            if isinstance(b, int):
                return a.attrs["value"] == b
            if isinstance(b, Abs) and b.cls is self.LastPos:
                return a.attrs["value"] == b.attrs["value"]
        if isinstance(b, Abs) and b.cls is self.LastPos and isinstance(a, int):
            return b.attrs["value"] == a
        return NotImplemented

    def method(self, ev, base, name, args, kwargs, node):
        if not isinstance(base, Abs):
            return NotImplemented
        if name == "get" and len(args) == 1 and base.cls is not None and \
                isinstance(args[0], str):
            if args[0] in base.attrs:
                return base.attrs[args[0]]
            d = base.attrs.get("_data")
            if isinstance(d, dict):
                return d.get(args[0])
            raise Unsupported("field %s of %r is not declared by the rule" %
                              (args[0], base))
        if name == "_set_existing_field":
            base.attrs[args[0]] = args[1]
            ev.events.append(("set", base.label, args[0], args[1]))
            return None
        if name == "_add_reference":
            line, key = args[0], args[1]
            ev.events.append(("addref", base.label, key,
                              line.label if isinstance(line, Abs) else line))
            return None
        if name == "connect":
            ev.events.append(("connect", base.label))
            return None
        if name in ("_register_line", "_unregister_line") and \
                "_records" not in base.attrs and len(args) == 1 and (
                    base.label == "gfa" or base.attrs.get("__gfa__")):
            # a Gfa the rule gave no record table: registration is an event
            # (and an entry of the rule's `registry` list when it keeps one)
            lab = args[0].label if isinstance(args[0], Abs) else args[0]
            ev.events.append((name, lab))
            reg = base.attrs.get("registry")
            if isinstance(reg, list):
                if name == "_register_line":
                    reg.append(lab)
                elif lab in reg:
                    reg.remove(lab)
            return None
        if base.attrs.get("__gfa__"):
            if name == "segment":
                arg = args[0]
                key = self.name_of(arg)
                segs = base.attrs["segments"]
                if key in segs:
                    return segs[key]
                return None
            if name in ("line", "try_get_segment"):
                key = self.name_of(args[0])
                return base.attrs["segments"].get(key)
        return NotImplemented

    def all_refkeys(self):
        ks = getattr(self, "_all_refkeys", None)
        if ks is None:
            from .model import record_classes, record_table
            ks = set()
            for c in record_classes(self.repo):
                ks.update(record_table(self.repo, c).refkeys)
            self._all_refkeys = ks
        return ks

    def _is_backing_field(self, cls, attr):
        """does class `cls` have a property `attr[1:]` whose getter is
        `return self.<attr>`"""
        import ast as _a
        f = cls.find_method(attr[1:]) if hasattr(cls, "find_method") else None
        if f is None or getattr(f, "kind", None) != "property":
            return False
        body = [st for st in f.node.body if not (
            isinstance(st, _a.Expr) and isinstance(st.value, _a.Constant))]
        return len(body) == 1 and isinstance(body[0], _a.Return) and \
            isinstance(body[0].value, _a.Attribute) and \
            body[0].value.attr == attr and \
            isinstance(body[0].value.value, _a.Name) and \
            body[0].value.value.id == f.self_name

    def init_default(self, cls, attr):
        """(True, value) when the __init__ of the class gives the instance
        attribute `attr` a constant / empty-container initial value that does
        not depend on the arguments (self._cache = {}, self._seen = set(),
        self._queue = []): an abstract object that does not declare the
        attribute has that value"""
        key = (cls, attr)
        memo = self.__dict__.setdefault("_init_defaults", {})
        if key not in memo:
            import ast as _a
            found = (False, None)
            init = cls.find_method("__init__") if hasattr(
                cls, "find_method") else None
            if init is not None:
                vals = []
                for n in _a.walk(init.node):
                    if isinstance(n, _a.Assign) and len(n.targets) == 1 and \
                            isinstance(n.targets[0], _a.Attribute) and \
                            n.targets[0].attr == attr and \
                            isinstance(n.targets[0].value, _a.Name) and \
                            n.targets[0].value.id == init.self_name:
                        vals.append(n.value)
                if len(vals) == 1:
                    v = vals[0]
                    if isinstance(v, _a.Constant):
                        found = (True, ("const", v.value))
                    elif isinstance(v, (_a.List, _a.Dict, _a.Set)) and not (
                            getattr(v, "elts", None) or
                            getattr(v, "keys", None)):
                        found = (True, ("new", type(v).__name__.lower()))
                    elif isinstance(v, _a.Call) and \
                            isinstance(v.func, _a.Name) and \
                            v.func.id in ("set", "dict", "list") and \
                            not v.args and not v.keywords:
                        found = (True, ("new", v.func.id))
            memo[key] = found
        ok, spec_ = memo[key]
        if not ok:
            return False, None
        if spec_[0] == "const":
            return True, spec_[1]
        return True, {"list": list, "dict": dict, "set": set}[spec_[1]]()

    def getattr(self, ev, base, attr):
        """generated accessors the rules did not spell out: a FIELD_ALIAS
        name reads the aliased field; `__dict__` is the instance dictionary"""
        if isinstance(base, Abs) and attr not in base.attrs and \
                base.cls is not None and hasattr(base.cls, "mro") and \
                attr.startswith("_") and not attr.startswith("__"):
            ok, v = self.init_default(base.cls, attr)
            if ok and attr not in ("_data", "_datatype", "_refs", "_gfa",
                                   "_records", "_version", "_vlevel"):
                # a private state attribute the rule did not declare: as the
                # constructor leaves it (kept on the object from now on)
                base.attrs[attr] = v
                return v
        if isinstance(base, Abs) and attr not in base.attrs and \
                base.cls is not None and hasattr(base.cls, "mro"):
            if attr == "__dict__":
                return base.attrs
            if attr.startswith("_") and not attr.startswith("__") and \
                    attr[1:] in base.attrs and \
                    self._is_backing_field(base.cls, attr):
                # the rule declared the property (gfa.vlevel), the code reads
                # the attribute behind it (gfa._vlevel)
                return base.attrs[attr[1:]]
            if attr == "_gfa" and self.repo.cls("Line") in base.cls.mro:
                # a line the rule did not place in a Gfa is not connected
                # (Line.__init__ sets _gfa = None)
                return None
            if attr == "_refs" and self.repo.cls("Line") in base.cls.mro:
                # every line has the dictionary of its back-references
                return base.attrs.setdefault("_refs", {})
            if attr in self.all_refkeys() and \
                    self.repo.cls("Line") in base.cls.mro:
                # a reference getter the rule did not populate: the line has
                # no such back-references yet
                refs = base.attrs.get("_refs")
                if isinstance(refs, dict):
                    return refs.get(attr, [])
                return []
            try:
                from .model import record_table
                if self.repo.cls("Line") in base.cls.mro and \
                        getattr(base.cls, "applies_definitions", False):
                    alias = record_table(self.repo, base.cls).FIELD_ALIAS \
                        or {}
                    tgt = alias.get(attr)
                    if tgt is not None:
                        if tgt in base.attrs:
                            return base.attrs[tgt]
                        d = base.attrs.get("_data")
                        if isinstance(d, dict) and tgt in d:
                            return d[tgt]
            except Exception:
                pass
            # the identifier of a line the rule did not name: a name of its
            # own (its label), different from every identifier in the cell
            try:
                from .model import record_table
                if self.repo.cls("Line") in base.cls.mro and \
                        getattr(base.cls, "applies_definitions", False):
                    nf = record_table(self.repo, base.cls).NAME_FIELD
                    if attr == "name" or (nf and attr == nf):
                        d = base.attrs.get("_data")
                        if isinstance(d, dict) and nf in d:
                            return d[nf]
                        return "<%s>" % base.label
            except Exception:
                pass
        return NotImplemented

    def to_str(self, ev, v):
        if isinstance(v, Abs) and "name" in v.attrs and \
                v.cls is not self.SegmentEnd and v.cls is not self.OrientedLine:
            return str(v.attrs["name"])
        return NotImplemented

    def function(self, ev, node, args, kwargs):
        """stdlib calls on concrete values: re.match/search (the stdlib re
        module is the only foreign code the checker executes), len, type"""
        ent = ev.resolve(node.func)
        if isinstance(ent, External) and ent.name in ("re.search", "re.match") \
                and len(args) >= 2 and all(isinstance(a, str)
                                           for a in args[:2]):
            return getattr(_re, ent.name.split(".")[1])(args[0], args[1])
        if isinstance(node.func, _ast.Name) and node.func.id == "type":
            # type(x) of an abstract object of a repository class is that
            # class (as x.__class__ is); of anything else an opaque token
            # (used in messages only)
            if len(args) == 1 and isinstance(args[0], Abs) and \
                    args[0].cls is not None and hasattr(args[0].cls, "mro"):
                return args[0].cls
            return "<type>"
        return NotImplemented

    def class_attr(self, ev, cls, attr):
        """record definition constants as post-processed at import time"""
        from .model import RECORD_CONSTANTS, record_table
        if attr in RECORD_CONSTANTS and self.repo.cls("Line") in cls.mro \
                and cls.applies_definitions:
            return getattr(record_table(self.repo, cls), attr)
        return NotImplemented

    def order(self, ev, op, a, b):
        """LastPos is totally ordered by its value (functools.total_ordering
        over __lt__/__eq__)"""
        def val(x):
            if isinstance(x, Abs) and x.cls is self.LastPos:
                return x.attrs.get("value")
            if isinstance(x, int):
                return x
            return None
        va, vb = val(a), val(b)
        if va is None or vb is None:
            return NotImplemented
        return {_ast.Gt: va > vb, _ast.Lt: va < vb, _ast.GtE: va >= vb,
                _ast.LtE: va <= vb}.get(type(op), NotImplemented)
