"""EXC: exception discipline.

* explicit raises: class of every `raise` resolved through the namespace;
* GuardWalker: a syntax-directed walk of one function with a small state --
  which variables are known non-empty / not None on *all* paths reaching a
  statement (facts come from `if` tests whose failing arm exits, or that
  enclose the use; any reassignment kills the facts of its target);
* primitive sites: subscripts with a fixed index, int()/float()/json.loads()/
  unhexlify() calls, uses of possibly-None finder results -- each discharged by
  a dominating fact, an enclosing try with a wide enough handler, or a producer
  that cannot be empty.
"""
import ast

from .model import (ClassInfo, FuncInfo, External, Const, unparse, dotted,
                    walk_no_nested)


def error_root(repo):
    return repo.cls("Error")


def classify_raise(repo, func, node, _depth=0):
    """('library', cls) | ('reraise', None) | ('foreign', text) |
    ('rewrap', text) | ('unresolved', text)"""
    if node.exc is None:
        return ("reraise", None)
    e = node.exc
    if isinstance(e, ast.Call):
        f = e.func
        if isinstance(f, ast.Attribute) and f.attr == "__class__":
            return ("rewrap", unparse(e.func))
        # raise self.__make_error(...): a helper all of whose returns build a
        # library error
        if _depth < 3:
            helper = None
            if isinstance(f, ast.Attribute) and isinstance(f.value, ast.Name) \
                    and func.owner_cls is not None and \
                    f.value.id in (func.self_name, "cls", "self",
                                   func.owner_cls.name):
                helper = func.owner_cls.find_method(f.attr)
            elif isinstance(f, ast.Name):
                ent0 = repo.resolve_expr(func.module, f)
                if hasattr(ent0, "node") and hasattr(ent0, "params"):
                    helper = ent0
            if helper is not None and hasattr(helper, "node"):
                rets = [n for n in walk_no_nested(helper.node)
                        if isinstance(n, ast.Return)]
                kinds = set()
                cls_found = None
                for r in rets:
                    if r.value is None:
                        kinds.add("none")
                        continue
                    k = classify_raise(repo, helper, ast.Raise(
                        exc=r.value, cause=None), _depth + 1)
                    kinds.add(k[0])
                    if k[0] == "library":
                        cls_found = k[1]
                if rets and kinds == {"library"}:
                    return ("library", cls_found)
        target = f
    else:
        target = e
    d = dotted(target)
    if d is None:
        return ("unresolved", unparse(target))
    if isinstance(target, ast.Name):
        # a local name: `raise err` re-raises a caught exception
        for n in walk_no_nested(func.node):
            if isinstance(n, ast.ExceptHandler) and n.name == target.id:
                return ("reraise-name", target.id)
        if target.id in func.params:
            return ("reraise-name", target.id)
    ent = repo.resolve_expr(func.module, target)
    if isinstance(ent, ClassInfo):
        if error_root(repo) in ent.mro:
            return ("library", ent)
        return ("foreign", ent.qualname)
    if isinstance(ent, External):
        return ("foreign", ent.name)
    if ent is None and d.startswith("gfapy."):
        return ("unresolved", d)
    return ("foreign", d)


# --------------------------------------------------------------------------

EXITS = (ast.Return, ast.Raise, ast.Continue, ast.Break)


def block_exits(body):
    """every path through the statement list leaves it (return/raise/...)"""
    for st in body:
        if isinstance(st, EXITS):
            return True
        if isinstance(st, ast.If) and st.orelse and block_exits(st.body) and \
                block_exits(st.orelse):
            return True
    return False


class Facts:
    """per kind, the set of variable keys for which the fact holds on every
    path reaching the current statement.
    kinds: nonempty (at least one element / character), lenchecked (an
    explicit len() comparison guards the statement), nonnull, keychecked
    (`k in D` tested)"""
    KINDS = ("nonempty", "lenchecked", "nonnull", "keychecked")

    def __init__(self, src=None):
        for k in self.KINDS:
            setattr(self, k, set(getattr(src, k)) if src is not None
                    else set())

    def copy(self):
        return Facts(self)

    def meet(self, o):
        out = Facts()
        for k in self.KINDS:
            setattr(out, k, getattr(self, k) & getattr(o, k))
        return out

    def add(self, o):
        for k in self.KINDS:
            getattr(self, k).update(getattr(o, k))

    def kill(self, name):
        for k in self.KINDS:
            s = getattr(self, k)
            for x in [x for x in s if x == name or
                      x.startswith(name + ".") or x.startswith(name + "[")]:
                s.discard(x)


def meet_all(fs):
    out = None
    for f in fs:
        out = f.copy() if out is None else out.meet(f)
    return out if out is not None else Facts()


def key_of(node):
    """variables are tracked by the source text of simple access chains:
    names, attribute chains, and subscripts with a constant index"""
    if isinstance(node, ast.Name):
        return node.id
    if isinstance(node, ast.Attribute):
        b = key_of(node.value)
        return None if b is None else b + "." + node.attr
    if isinstance(node, ast.Subscript):
        b = key_of(node.value)
        s = node.slice
        if b is not None and isinstance(s, ast.Constant):
            return "%s[%r]" % (b, s.value)
        if b is not None and isinstance(s, ast.UnaryOp) and \
                isinstance(s.op, ast.USub) and \
                isinstance(s.operand, ast.Constant):
            return "%s[-%r]" % (b, s.operand.value)
    return None


def is_len_call(node):
    if isinstance(node, ast.Call) and isinstance(node.func, ast.Name) and \
            node.func.id == "len" and len(node.args) == 1:
        return key_of(node.args[0])
    return None


# method names whose call `x.m(k)` is a membership test of k in the table the
# guarded lookup reads (filled, after a structural check, by the rule module)
MEMBERSHIP_GUARD_CALLS = set()


def test_facts(test, aliases=None):
    """(facts when the test is true, facts when it is false).
    `aliases` maps a local name to the test expression it was assigned
    (`empty = isinstance(x, str) and not x; if empty: return`).

    `isinstance(x, str)` being false makes every text fact about x hold
    vacuously: the property speaks about text, and x is not text there."""
    t, f = Facts(), Facts()
    if isinstance(test, ast.UnaryOp) and isinstance(test.op, ast.Not):
        a, b = test_facts(test.operand, aliases)
        return b, a
    if aliases and isinstance(test, ast.Name) and test.id in aliases:
        return test_facts(aliases[test.id], None)
    k = key_of(test)
    if k is not None:
        t.nonempty.add(k)
        t.nonnull.add(k)
        return t, f
    if isinstance(test, ast.Compare) and len(test.ops) == 1:
        left, op, right = test.left, test.ops[0], test.comparators[0]
        lk = key_of(left)
        if lk and isinstance(right, ast.Constant) and right.value is None:
            if isinstance(op, (ast.Is, ast.Eq)):
                f.nonnull.add(lk)
            elif isinstance(op, (ast.IsNot, ast.NotEq)):
                t.nonnull.add(lk)
            return t, f
        if lk and isinstance(right, ast.Constant) and right.value == "":
            if isinstance(op, ast.Eq):
                f.nonempty.add(lk)
            elif isinstance(op, ast.NotEq):
                t.nonempty.add(lk)
            return t, f
        if lk and isinstance(op, (ast.In, ast.NotIn)):
            (t if isinstance(op, ast.In) else f).keychecked.add(lk)
            return t, f
        # D.get(k, s) is not s  /  D.get(k) is not None : k is a key of D
        if isinstance(left, ast.Call) and \
                isinstance(left.func, ast.Attribute) and \
                left.func.attr == "get" and left.args and \
                isinstance(op, (ast.Is, ast.IsNot, ast.Eq, ast.NotEq)):
            k = key_of(left.args[0])
            default = left.args[1] if len(left.args) > 1 else \
                ast.Constant(value=None)
            if k and ast.dump(default) == ast.dump(right):
                (t if isinstance(op, (ast.IsNot, ast.NotEq)) else f) \
                    .keychecked.add(k)
                return t, f
        # a comparison of len(x) with anything guards the arm that goes on
        for side, other in ((left, right), (right, left)):
            lks = [is_len_call(n) for n in ast.walk(side)]
            for lk in [x for x in lks if x]:
                t.lenchecked.add(lk)
                f.lenchecked.add(lk)
                if isinstance(other, ast.Constant) and other.value == 0 and \
                        side is left:
                    if isinstance(op, ast.Eq):
                        t.lenchecked.discard(lk)
                    elif isinstance(op, (ast.NotEq, ast.Gt)):
                        f.lenchecked.discard(lk)
        return t, f
    if isinstance(test, ast.BoolOp):
        parts = [test_facts(v, aliases) for v in test.values]
        if isinstance(test.op, ast.And):
            for a, _ in parts:
                t.add(a)
            f = meet_all([b for _, b in parts])
        else:
            for _, b in parts:
                f.add(b)
            t = meet_all([a for a, _ in parts])
        return t, f
    if isinstance(test, ast.Call):
        fn = test.func
        if isinstance(fn, ast.Attribute) and \
                fn.attr in MEMBERSHIP_GUARD_CALLS and len(test.args) == 1:
            k = key_of(test.args[0])
            if k:
                t.keychecked.add(k)
        if isinstance(fn, ast.Attribute) and \
                fn.attr in ("isdigit", "isalpha", "isalnum"):
            k = key_of(fn.value)
            if k:
                t.nonempty.add(k)
        if isinstance(fn, ast.Name) and fn.id == "isinstance" and \
                len(test.args) == 2:
            k = key_of(test.args[0])
            cls = test.args[1]
            names = [dotted(c) for c in (cls.elts if isinstance(
                cls, ast.Tuple) else [cls])]
            if k and names == ["str"]:
                f.nonempty.add(k)
                f.lenchecked.add(k)
            if k:
                t.nonnull.add(k)
    return t, f


class GuardWalker:
    """Calls visit(node, facts) for every expression statement context; the
    subclass inspects uses."""

    def __init__(self, func):
        self.func = func

    def run(self):
        facts = Facts()
        self.aliases = {}
        self.block(self.func.node.body, facts)

    def tf(self, test):
        return test_facts(test, getattr(self, "aliases", None))

    def kill_aliases(self, name):
        for a in [a for a, e in self.aliases.items() if a == name or any(
                isinstance(n, ast.Name) and n.id == name
                for n in ast.walk(e))]:
            del self.aliases[a]

    def block(self, body, facts):
        for st in body:
            facts = self.stmt(st, facts)
        return facts

    def targets(self, t):
        out = []
        if isinstance(t, ast.Name):
            out.append(t.id)
        elif isinstance(t, (ast.Tuple, ast.List)):
            for e in t.elts:
                out.extend(self.targets(e))
        elif isinstance(t, ast.Starred):
            out.extend(self.targets(t.value))
        else:
            d = dotted(t)
            if d:
                out.append(d)
        return out

    def stmt(self, st, facts):
        if isinstance(st, ast.If):
            self.expr(st.test, facts)
            tf, ff = self.tf(st.test)
            fa = facts.copy()
            fa.add(tf)
            fb = facts.copy()
            fb.add(ff)
            fa = self.block(st.body, fa)
            fb = self.block(st.orelse, fb)
            ea, eb = block_exits(st.body), block_exits(st.orelse)
            if ea and eb:
                return fa.meet(fb)
            if ea:
                return fb
            if eb:
                return fa
            return fa.meet(fb)
        if isinstance(st, (ast.For, ast.While)):
            if isinstance(st, ast.For):
                self.expr(st.iter, facts)
                inner = facts.copy()
                for k in self.assigned_in(st.body) + self.targets(st.target):
                    inner.kill(k)
                # elements produced by str.split(sep) on a checked string may
                # be empty: no fact for the loop variable
            else:
                self.expr(st.test, facts)
                inner = facts.copy()
                for k in self.assigned_in(st.body):
                    inner.kill(k)
                tf, _ = self.tf(st.test)
                inner.add(tf)
            self.block(st.body, inner)
            out = facts.copy()
            for k in self.assigned_in(st.body):
                out.kill(k)
            self.block(st.orelse, out)
            return out
        if isinstance(st, ast.Try):
            self.enter_try(st)
            fb = self.block(st.body, facts.copy())
            self.leave_try(st)
            out = facts.copy()
            for k in self.assigned_in(st.body):
                out.kill(k)
            for h in st.handlers:
                self.block(h.body, out.copy())
            self.block(st.orelse, fb.copy())
            self.block(st.finalbody, out.copy())
            if all(block_exits(h.body) for h in st.handlers):
                return fb
            return out
        if isinstance(st, ast.With):
            for item in st.items:
                self.expr(item.context_expr, facts)
            return self.block(st.body, facts)
        if isinstance(st, ast.Match):
            self.expr(st.subject, facts)
            outs = []
            exhaustive = False
            for case in st.cases:
                inner = facts.copy()
                for n in ast.walk(case.pattern):
                    name = getattr(n, "name", None) or getattr(n, "rest", None)
                    if isinstance(name, str):
                        inner.kill(name)
                        self.kill_aliases(name)
                if case.guard is not None:
                    self.expr(case.guard, inner)
                    tf, _ = self.tf(case.guard)
                    inner.add(tf)
                r = self.block(case.body, inner)
                if not block_exits(case.body):
                    outs.append(r)
                if isinstance(case.pattern, ast.MatchAs) and \
                        case.pattern.pattern is None and case.guard is None:
                    exhaustive = True
            if not exhaustive:
                outs.append(facts)
            return meet_all(outs) if outs else facts
        if isinstance(st, (ast.Assign, ast.AnnAssign, ast.AugAssign)):
            val = st.value
            if val is not None:
                self.expr(val, facts)
            tg = st.targets if isinstance(st, ast.Assign) else [st.target]
            for t in tg:
                if isinstance(t, (ast.Subscript, ast.Attribute)):
                    self.expr(t, facts, store=True)
                if isinstance(t, ast.Subscript):
                    # after D[k] = v the key k is present
                    ik = key_of(t.slice)
                    if ik:
                        facts.keychecked.add(ik)
                for k in self.targets(t):
                    if isinstance(t, ast.Subscript):
                        continue
                    facts.kill(k)
                    self.kill_aliases(k)
                    if isinstance(t, ast.Name) and isinstance(
                            val, (ast.BoolOp, ast.Compare, ast.UnaryOp)) or (
                            isinstance(t, ast.Name) and
                            isinstance(val, ast.Call) and
                            isinstance(val.func, ast.Name) and
                            val.func.id == "isinstance"):
                        self.aliases[k] = val
                    if val is not None and not isinstance(st, ast.AugAssign):
                        unpack = isinstance(t, (ast.Tuple, ast.List))
                        for kind in self.assign_facts(val, facts, unpack):
                            getattr(facts, kind).add(k)
            return facts
        if isinstance(st, (ast.FunctionDef, ast.ClassDef)):
            return facts
        for child in ast.iter_child_nodes(st):
            if isinstance(child, ast.expr):
                self.expr(child, facts)
        return facts

    def assign_facts(self, val, facts, unpack=False):
        out = []
        if unpack:
            return out
        if self.value_nonempty(val, facts):
            out.append("nonempty")
        if self.value_nonnull(val):
            out.append("nonnull")
        return out

    def value_nonempty(self, val, facts):
        """the assigned value is certainly a non-empty container/string"""
        if isinstance(val, ast.Constant) and isinstance(val.value, str):
            return len(val.value) > 0
        if isinstance(val, (ast.List, ast.Tuple)) and val.elts:
            return True
        if isinstance(val, ast.Call) and isinstance(val.func, ast.Attribute) \
                and val.func.attr == "split":
            return True      # str.split always yields at least one element
        return False

    def value_nonnull(self, val):
        if isinstance(val, ast.Call):
            f = val.func
            if isinstance(f, ast.Attribute) and f.attr in (
                    "segment", "line", "_search_link", "_search_duplicate",
                    "get", "match", "search", "fullmatch"):
                return False
            return True
        if isinstance(val, (ast.Constant,)):
            return val.value is not None
        if isinstance(val, (ast.List, ast.Tuple, ast.Dict, ast.JoinedStr,
                            ast.ListComp, ast.BinOp)):
            return True
        return False

    def assigned_in(self, body):
        out = []
        for st in body:
            for n in ast.walk(st):
                if isinstance(n, (ast.Assign, ast.AugAssign, ast.AnnAssign)):
                    tg = n.targets if isinstance(n, ast.Assign) else [n.target]
                    for t in tg:
                        out.extend(self.targets(t))
                elif isinstance(n, ast.For):
                    out.extend(self.targets(n.target))
        return out

    # -- expression walk with short-circuit facts
    def expr(self, node, facts, store=False):
        if isinstance(node, ast.BoolOp):
            cur = facts.copy()
            for v in node.values:
                self.expr(v, cur)
                tf, ff = self.tf(v)
                cur = cur.copy()
                cur.add(tf if isinstance(node.op, ast.And) else ff)
            return
        if isinstance(node, ast.IfExp):
            self.expr(node.test, facts)
            tf, ff = self.tf(node.test)
            a = facts.copy()
            a.add(tf)
            b = facts.copy()
            b.add(ff)
            self.expr(node.body, a)
            self.expr(node.orelse, b)
            return
        if isinstance(node, (ast.ListComp, ast.SetComp, ast.GeneratorExp,
                             ast.DictComp)):
            inner = facts.copy()
            for g in node.generators:
                self.expr(g.iter, inner)
                for k in self.targets(g.target):
                    inner.kill(k)
                for c in g.ifs:
                    self.expr(c, inner)
                    tf, _ = self.tf(c)
                    inner.add(tf)
            for e in ([node.key, node.value] if isinstance(node, ast.DictComp)
                      else [node.elt]):
                self.expr(e, inner)
            return
        if isinstance(node, ast.Lambda):
            return
        self.visit(node, facts, store)
        for child in ast.iter_child_nodes(node):
            if isinstance(child, ast.expr):
                self.expr(child, facts)

    # -- hooks
    def visit(self, node, facts, store=False):
        pass

    def enter_try(self, st):
        pass

    def leave_try(self, st):
        pass


WIDE = {"Exception", "BaseException"}


def handler_names(h):
    if h.type is None:
        return {"*"}
    if isinstance(h.type, ast.Tuple):
        return {(dotted(e) or unparse(e)).split(".")[-1] for e in h.type.elts}
    return {(dotted(h.type) or unparse(h.type)).split(".")[-1]}


def try_catches(st, needed):
    """the try statement has a handler catching every class in `needed`
    (names), or a bare / Exception handler"""
    caught = set()
    for h in st.handlers:
        caught |= handler_names(h)
    if "*" in caught or caught & WIDE:
        return True
    hierarchy = {"JSONDecodeError": {"ValueError"},
                 "Error": set(), "UnicodeDecodeError": {"ValueError"}}
    for n in needed:
        if n in caught:
            continue
        if hierarchy.get(n, set()) & caught:
            continue
        return False
    return True
