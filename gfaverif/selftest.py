"""Thorough tier: test the checker of one property both ways, on scratch copies.

(1) must-stay-silent: the working tree rewritten file by file through
    ast.parse/ast.unparse (all layout, comments and literal spellings
    normalised) must give the same verdict and the same violation keys as the
    working tree itself;
(2) must-fire, reverted repairs: for every `fixed: property=<id> <commit>`
    entry of known_findings.txt the repair is undone in a clone of /repo
    (`git revert --no-commit`) and the check must report a violation;
(3) must-fire, kept seeds: every /verif/seeded/<x> whose meta.json lists this
    property under detected_by is applied to a copy of the working tree and
    must be reported.

Nothing of the repository is executed: the copies are parsed by the same
checker (`python -m gfaverif check <id> --repo <copy>`).  Copies live in
mkdtemp directories outside /repo and /verif and are removed in `finally`.
A failing self-test says nothing about /repo: it is reported as
ANALYSIS-ERROR (exit 2), never as VIOLATION.
"""
import ast
import json
import os
import re
import shutil
import subprocess
import sys
import tempfile
from concurrent.futures import ThreadPoolExecutor

VERIF = os.path.dirname(os.path.dirname(os.path.abspath(__file__)))


def _run_check(prop, root, evdir):
    env = dict(os.environ)
    env["GFAVERIF_EVIDENCE_DIR"] = evdir
    env["VERIF_TIER"] = "quick"
    p = subprocess.run([sys.executable, "-m", "gfaverif", "check", prop,
                        "--tier", "quick", "--repo", root], cwd=VERIF,
                       capture_output=True, text=True, env=env)
    keys = []
    try:
        with open(os.path.join(evdir, "%s.json" % prop)) as f:
            ev = json.load(f)
        keys = sorted(v["key"] for v in ev["coverage"]["new_violations"])
        keys += sorted("known:" + k
                       for k in ev["coverage"]["known_findings_seen"])
    except Exception:
        pass
    first = ""
    for line in p.stdout.splitlines():
        if line.startswith(("ANALYSIS-ERROR", prop + ".")):
            first = line[:200]
            break
    return p.returncode, keys, first


def _copy_tree(src_root, dst):
    for d in ("gfapy", "bin"):
        s = os.path.join(src_root, d)
        if os.path.isdir(s):
            shutil.copytree(s, os.path.join(dst, d))


def normalised(prop, repo_root):
    tmp = tempfile.mkdtemp(prefix="gfaverif_norm_")
    try:
        _copy_tree(repo_root, tmp)
        n = 0
        for base, _, files in os.walk(os.path.join(tmp, "gfapy")):
            for fn in files:
                if fn.endswith(".py"):
                    p = os.path.join(base, fn)
                    with open(p, encoding="utf8") as f:
                        src = f.read()
                    with open(p, "w", encoding="utf8") as f:
                        f.write(ast.unparse(ast.parse(src)) + "\n")
                    n += 1
        rc, keys, first = _run_check(prop, tmp, os.path.join(tmp, ".ev"))
        return ("normalised", "%d files" % n, rc, keys, first)
    finally:
        shutil.rmtree(tmp, ignore_errors=True)


def reverted(prop, commit, text, repo_root):
    if not os.path.isdir(os.path.join(repo_root, ".git")):
        return ("revert", commit, None, [], "no git history")
    tmp = tempfile.mkdtemp(prefix="gfaverif_revert_")
    try:
        c = subprocess.run(["git", "clone", "-q", "--no-hardlinks", repo_root,
                            tmp], capture_output=True, text=True)
        if c.returncode != 0:
            return ("revert", commit, None, [], "clone failed")
        manual = os.path.join(VERIF, "reverts", commit[:7] + ".diff")
        if os.path.exists(manual):
            # a hand-made undo patch takes precedence (the plain revert no
            # longer applies, or no longer re-creates the defect)
            r = subprocess.CompletedProcess([], 1)
        else:
            r = subprocess.run(["git", "-c", "user.email=x@x", "-c",
                                "user.name=x", "revert", "--no-commit",
                                commit], cwd=tmp, capture_output=True,
                               text=True)
        if r.returncode != 0:
            # later repairs touched the same lines: hand-made undo patch
            manual = os.path.join(VERIF, "reverts", commit[:7] + ".diff")
            if not os.path.exists(manual):
                return ("revert", commit, None, [], "does not revert cleanly")
            subprocess.run(["git", "reset", "-q", "--hard"], cwd=tmp,
                           capture_output=True)
            q = subprocess.run(["patch", "-p1", "-s",
                                "--no-backup-if-mismatch", "-i", manual],
                               cwd=tmp, capture_output=True, text=True)
            if q.returncode != 0:
                return ("revert", commit, None, [],
                        "the undo patch does not apply")
        rc, keys, first = _run_check(prop, tmp, os.path.join(tmp, ".ev"))
        return ("revert", commit, rc, keys, first)
    finally:
        shutil.rmtree(tmp, ignore_errors=True)


def seeded(prop, seed, repo_root):
    sd = os.path.join(VERIF, "seeded", seed)
    tmp = tempfile.mkdtemp(prefix="gfaverif_seed_")
    try:
        _copy_tree(repo_root, tmp)
        p = subprocess.run(["patch", "-p1", "-s", "--no-backup-if-mismatch",
                            "-i", os.path.join(sd, "patch.diff")], cwd=tmp,
                           capture_output=True, text=True)
        if p.returncode != 0:
            return ("seed", seed, None, [], "patch does not apply to the "
                    "working tree")
        rc, keys, first = _run_check(prop, tmp, os.path.join(tmp, ".ev"))
        return ("seed", seed, rc, keys, first)
    finally:
        shutil.rmtree(tmp, ignore_errors=True)


def fixed_entries(prop):
    out = []
    path = os.path.join(VERIF, "known_findings.txt")
    if os.path.exists(path):
        for line in open(path, encoding="utf8"):
            m = re.match(r"fixed: property=(C\d+) ([0-9a-f]{7,40}) (.*)", line)
            if m and m.group(1) == prop:
                out.append((m.group(2), m.group(3).strip()))
    return out


def seeds_for(prop):
    out = []
    d = os.path.join(VERIF, "seeded")
    if not os.path.isdir(d):
        return out
    for s in sorted(os.listdir(d)):
        mp = os.path.join(d, s, "meta.json")
        try:
            with open(mp) as f:
                meta = json.load(f)
        except Exception:
            continue
        if any(x.get("check") == prop for x in meta.get("detected_by", [])):
            out.append(s)
    return out


def run(ctx):
    """called by the CLI after the rules in the thorough tier"""
    prop = ctx.prop
    own_keys = sorted(v.key for v in ctx.violations)
    jobs = [(normalised, (prop, ctx.repo_root))]
    for commit, text in fixed_entries(prop):
        jobs.append((reverted, (prop, commit, text, ctx.repo_root)))
    for s in seeds_for(prop):
        jobs.append((seeded, (prop, s, ctx.repo_root)))
    with ThreadPoolExecutor(max_workers=min(12, os.cpu_count() or 4)) as ex:
        results = list(ex.map(lambda j: j[0](*j[1]), jobs))
    report = []
    for kind, what, rc, keys, first in results:
        entry = {"kind": kind, "variant": what, "exit": rc,
                 "first_report": first}
        if kind == "normalised":
            mine = sorted(k for k in own_keys)
            theirs = sorted(k for k in keys)
            from .context import load_known_findings
            known = load_known_findings()
            mine_n = sorted(("known:" + k) if (prop, k) in known else k
                            for k in mine)
            ok = rc in (0, 1) and mine_n == theirs
            entry["ok"] = ok
            if not ok:
                ctx.error("self-test: the verdict on the layout-normalised "
                          "copy differs from the verdict on the tree itself "
                          "(exit %s; only there: %s; only here: %s) %s" % (
                              rc, sorted(set(theirs) - set(mine_n))[:3],
                              sorted(set(mine_n) - set(theirs))[:3], first))
        elif rc is None:
            entry["ok"] = None          # skipped, reason in first_report
        else:
            ok = rc == 1
            entry["ok"] = ok
            if not ok:
                ctx.error("self-test: the %s variant %s is not reported "
                          "(exit %s) %s" % (kind, what, rc, first))
        report.append(entry)
    ctx.notes["selftest"] = report
    ctx.assume("thorough tier: self-test variants are analysed, never "
               "executed; reverted-repair variants need the git history of "
               "the repository")
