"""gfaverif: repository-specific static analysis of ggonnella/gfapy.

Every check parses the working tree of the repository with the stdlib ``ast``
module.  No module of the analysed repository is ever imported or executed.
"""
__all__ = ["model"]
