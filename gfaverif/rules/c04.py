"""C04 -- validation accepts exactly the documents the GFA grammar allows.

Decided clauses: per datatype, the language accepted by validate_encoded (as
Python evaluates it) equals the reference grammar (DFA equality over all
strings, shortest witness otherwise); the validating decode() checks the
syntax before converting; whatever decode returns passes validate_decoded's
type gate; record arity / datatype / predefined-tag tables equal the reference;
tag syntax; the tag rules of _initialize_tag; the cross-field validators
(LN = length, path list sizes, `$` positions) as decision tables; the wiring of
the validators into construction and Gfa.validate.
Not decided: acceptance of whole concrete documents, the hand-written alignment
scanner (alignment_gfa2), JSON well-formedness (json.loads), reference
resolution on concrete graphs.
"""
import ast
import itertools

from .. import spec, rx, codec
from ..model import (AnalysisError, FuncInfo, ClassInfo, record_classes,
                     record_table, class_const, unparse, dotted)
from ..tables import Abs, Evaluator, Unsupported, eval_function
from ..linehooks import LineHooks
from .common import is_library_error


def reference_language(entry):
    kind = entry[0]
    if kind == "re":
        return rx.strict(entry[1])
    if kind == "re+json":
        return rx.strict(entry[1])
    if kind == "without":
        lang = rx.everything()
        for ch in entry[1]:
            lang = lang.minus(rx.containing(ch))
        return lang
    if kind == "re-minus":
        lang = rx.strict(entry[1])
        for lit in entry[2]:
            lang = lang.minus(rx.literal(lit))
        return lang
    if kind == "re-not-containing":
        return rx.strict(entry[1]).minus(rx.from_regex(entry[2], "search"))
    raise AnalysisError("spec: unknown grammar kind %s" % kind)


def run(ctx):
    repo = ctx.repo
    hooks = LineHooks(repo)
    fm = codec.field_modules(repo)
    modules = {}
    for dt, m in fm.items():
        modules.setdefault(m.name.split(".")[-1], m)

    # ------------------------------------------------------------------
    R = "C04.grammar"
    ctx.rule(R, "for every datatype module: the set of strings accepted by "
             "validate_encoded, with Python's re semantics (match anchors the "
             "start only, `$` also matches before a final newline), equals "
             "the reference grammar of spec.GRAMMAR -- decided for all "
             "strings on the product automaton", floor=24)
    langs = {}
    all_regexes = []
    for name, m in sorted(modules.items()):
        f = codec.module_func(repo, m, "validate_encoded")
        ctx.anchor("%s.validate_encoded" % name, f)
        if name not in spec.GRAMMAR:
            if name == "alignment_gfa2":
                ctx.undecided.append("C04.grammar alignment_gfa2: "
                                     "validate_encoded is the hand-written "
                                     "scanner Alignment._from_string (not a "
                                     "regular-expression validator)")
                continue
            raise AnalysisError("datatype module %s has no reference grammar "
                                "in spec.GRAMMAR" % name)
        ctx.instance(R)
        try:
            lang, residual, regexes = codec.accept_language(repo, f)
        except Unsupported as e:
            raise AnalysisError(str(e))
        all_regexes.extend(regexes)
        langs[name] = lang
        ref = reference_language(spec.GRAMMAR[name])
        same, w, side = lang.equals(ref)
        want_res = spec.GRAMMAR[name][0] == "re+json"
        ctx.oblige(same)
        if not same:
            ctx.violation(
                R, f.short, "datatype=%s" % name,
                "validate_encoded %s the string %r, the grammar %s it" % (
                    "accepts" if side == "left" else "rejects", w,
                    "rejects" if side == "left" else "accepts"),
                {"witness": w, "accepted_by": "code" if side == "left"
                 else "grammar"})
        else:
            ctx.sample({"rule": R, "datatype": name,
                        "dfa_states": lang.n_states(),
                        "regexes": [r[0] for r in regexes]}, limit=30)
        if bool(residual) != want_res:
            ctx.oblige(False)
            ctx.violation(R, f.short, "datatype=%s,json" % name,
                          "the JSON well-formedness test (json.loads) is %s" %
                          ("missing" if want_res else "unexpected"))
    # the dispatch table itself: every datatype name (and tag letter) is
    # routed to a module that accepts the grammar of *that* datatype
    for dt, m in sorted(fm.items()):
        want = spec.TAG_DATATYPES.get(dt, dt)
        if want not in spec.GRAMMAR:
            if want == "alignment_gfa2":
                continue
            raise AnalysisError("datatype %s has no reference grammar in "
                                "spec.GRAMMAR" % dt)
        ctx.instance(R)
        mname = m.name.split(".")[-1]
        lang = langs.get(mname)
        ok = lang is not None
        w = side = None
        if ok and mname != want:
            ref = reference_language(spec.GRAMMAR[want])
            ok, w, side = lang.equals(ref)
        ctx.oblige(ok)
        if not ok:
            ctx.violation(
                R, "field.field.Field", "FIELD_MODULE[%s]" % dt,
                "datatype %s is decoded / validated by module %s, which %s "
                "the string %r that the grammar of %s %s" % (
                    dt, mname, "accepts" if side == "left" else "rejects", w,
                    want, "rejects" if side == "left" else "accepts"))
    for want in sorted(spec.GRAMMAR):
        ctx.instance(R)
        ok = want in fm
        ctx.oblige(ok)
        if not ok:
            ctx.violation(R, "field.field.Field", "FIELD_MODULE[%s]" % want,
                          "datatype %s is not in the dispatch table" % want)
    ctx.exhaustive[R] = True
    if ctx.tier == "thorough":
        n = rx.self_test(sorted(set(all_regexes)), 4000, ctx.seed)
        ctx.notes["rx_self_test_comparisons_with_stdlib_re"] = n
    else:
        n = rx.self_test(sorted(set(all_regexes)), 300, ctx.seed)
        ctx.notes["rx_self_test_comparisons_with_stdlib_re"] = n

    # ------------------------------------------------------------------
    R = "C04.decode_validates"
    ctx.rule(R, "the validating decode() of every datatype checks the syntax "
             "of its argument before converting it: it starts with "
             "validate_encoded(string) (possibly through a sibling), or it is "
             "one of the reviewed equivalent idioms (decode then "
             "validate_decoded where that re-validates the text; the "
             "non-validating flag valid=False of the alignment / numeric "
             "array scanners)", floor=24)
    for name, m in sorted(modules.items()):
        f = codec.module_func(repo, m, "decode")
        ctx.anchor("%s.decode" % name, f)
        ctx.instance(R)
        ok, how = decode_idiom(repo, m, f, langs.get(name))
        ctx.oblige(ok)
        if not ok:
            ctx.violation(R, f.short, "datatype=%s" % name, how)
        else:
            ctx.sample({"rule": R, "datatype": name, "idiom": how}, limit=30)
    ctx.exhaustive[R] = True

    # ------------------------------------------------------------------
    R = "C04.decode_types"
    ctx.rule(R, "whatever class a decoder can return passes the type gate of "
             "validate_decoded of the same datatype (accepted input also "
             "passes an explicit validate())", floor=30)
    for name, m in sorted(modules.items()):
        vd = codec.module_func(repo, m, "validate_decoded")
        ctx.anchor("%s.validate_decoded" % name, vd)
        for dn in ("decode", "unsafe_decode"):
            f = codec.module_func(repo, m, dn)
            if f is None:
                continue
            types = codec.return_types(repo, f)
            rejected = []
            for t in sorted(types):
                if t == "?":
                    continue
                ctx.instance(R)
                v = codec.sample_value(repo, t)
                acc = codec.accepts_type(repo, vd, v)
                if acc is None and t != "str":
                    ctx.error("%s %s.%s -> %s: the evaluator cannot follow "
                              "validate_decoded" % (R, name, dn, t))
                    continue
                if t == "str":
                    # a str value is validated as encoded text by
                    # Field._validate_gfa_field, never by validate_decoded
                    vl = langs.get(name)
                    acc = True
                ctx.oblige(acc)
                if not acc:
                    rejected.append(t)
            if rejected:
                ctx.violation(
                    R, vd.short, "datatype=%s,decoder=%s,classes=%s" % (
                        name, dn, "+".join(rejected)),
                    "%s.%s can return %s, which validate_decoded of the same "
                    "datatype rejects with TypeError (accepted input fails an "
                    "explicit validate())" % (name, dn, ", ".join(rejected)))
    ctx.exhaustive[R] = True

    # ------------------------------------------------------------------
    R = "C04.records"
    ctx.rule(R, "for every record type: the positional fields, their "
             "datatypes and the predefined tags with their types equal the "
             "reference table; every datatype named by a record has a module "
             "in Field.FIELD_MODULE providing decode, unsafe_decode, encode, "
             "unsafe_encode, validate_encoded, validate_decoded", floor=13)
    for c in record_classes(repo):
        t = record_table(repo, c)
        key = (t.RECORD_TYPE, t.VERSION if t.RECORD_TYPE == "S" else None)
        if t.RECORD_TYPE is None:
            continue
        ctx.instance(R)
        if key not in spec.RECORDS:
            ctx.oblige(False)
            ctx.violation(R, c.short, "record=%r" % (key,),
                          "record type not in the reference table")
            continue
        want_pos, want_tags = spec.RECORDS[key]
        got_pos = [t.DATATYPE.get(f) for f in t.POSFIELDS]
        got_tags = {n: t.DATATYPE.get(n) for n in t.PREDEFINED_TAGS}
        ok = got_pos == want_pos and got_tags == want_tags
        ctx.oblige(ok)
        if not ok:
            ctx.violation(R, c.short, "record=%s" % t.RECORD_TYPE,
                          "positional datatypes %r / predefined tags %r; the "
                          "reference says %r / %r" % (got_pos, got_tags,
                                                      want_pos, want_tags))
        for dt in set(got_pos) | set(got_tags.values()):
            ok = dt in fm
            ctx.oblige(ok)
            if not ok:
                ctx.violation(R, c.short, "datatype=%r" % dt,
                              "datatype %r used by record %s has no module in "
                              "Field.FIELD_MODULE" % (dt, t.RECORD_TYPE))
    for name, m in sorted(modules.items()):
        ctx.instance(R)
        miss = [fn for fn in ("decode", "unsafe_decode", "encode",
                              "unsafe_encode", "validate_encoded",
                              "validate_decoded")
                if codec.module_func(repo, m, fn) is None]
        ctx.oblige(not miss)
        if miss:
            ctx.violation(R, m.name[6:], "functions",
                          "datatype module lacks %s" % ", ".join(miss))
    fieldcls = repo.cls("Field")
    ctx.instance(R)
    tagdt = class_const(repo, fieldcls, fieldcls.attrs["TAG_DATATYPE"])
    ok = set(tagdt) == set(spec.TAG_DATATYPES) and all(
        fm[k].name.endswith("." + v) for k, v in spec.TAG_DATATYPES.items())
    ctx.oblige(ok)
    if not ok:
        ctx.violation(R, fieldcls.short, "TAG_DATATYPE",
                      "tag datatypes %r do not map to the modules %r" %
                      (tagdt, spec.TAG_DATATYPES))
    ctx.exhaustive[R] = True

    # ------------------------------------------------------------------
    R = "C04.tag_syntax"
    ctx.rule(R, "the tag splitter of Parser._parse_gfa_tag and the custom tag "
             "name test accept exactly NN:T:value / a letter followed by a "
             "letter or digit (DFA equality); unsplittable text raises "
             "FormatError", floor=2)
    f_tag = ctx.anchor("Field._parse_gfa_tag",
                       fieldcls.find_method("_parse_gfa_tag"))
    pats = [n for n in ast.walk(f_tag.node)
            if isinstance(n, ast.Call) and dotted(n.func) == "re.match"]
    ctx.instance(R)
    ok = len(pats) == 1 and isinstance(pats[0].args[0], ast.Constant)
    if ok:
        lang = rx.from_regex(pats[0].args[0].value, "match")
        same, w, side = lang.equals(rx.strict(spec.TAG_RE))
        ok = same
        msg = "the tag pattern %s %r" % ("accepts" if side == "left"
                                         else "rejects", w)
    else:
        msg = "expected exactly one re.match with a constant pattern"
    ctx.oblige(ok)
    if not ok:
        ctx.violation(R, f_tag.short, "tag-pattern", msg)
    for tag, want in (("xx:i:1", "return"), ("x:i:1", "raise"),
                      ("xx:Q:1", "raise"), ("xx:i:", "raise")):
        out = eval_function(repo, f_tag, [tag], hooks=GroupHooks(repo))
        ok = out[0] == want and (want == "return" or is_library_error(
            repo, f_tag.module, out[1]))
        ctx.oblige(ok)
        if not ok:
            ctx.violation(R, f_tag.short, "tag=%r" % tag,
                          "outcome %r" % (out[0:2],))
    line = repo.cls("Line")
    f_cn = ctx.anchor("Line._is_valid_custom_tagname",
                      line.find_method("_is_valid_custom_tagname"))
    pats = [n for n in ast.walk(f_cn.node)
            if isinstance(n, ast.Call) and dotted(n.func) == "re.match"]
    ctx.instance(R)
    ok = len(pats) == 1 and isinstance(pats[0].args[0], ast.Constant)
    if ok:
        lang = rx.from_regex(pats[0].args[0].value, "match")
        same, w, side = lang.equals(rx.strict(spec.TAG_NAME_RE))
        ok = same
        msg = "the tag-name pattern %s %r" % (
            "accepts" if side == "left" else "rejects", w)
    else:
        msg = "expected exactly one re.match with a constant pattern"
    ctx.oblige(ok)
    if not ok:
        ctx.violation(R, f_cn.short, "tag-name-pattern", msg)
    ctx.exhaustive[R] = True

    # ------------------------------------------------------------------
    R = "C04.tag_rules"
    ctx.rule(R, "Construction._initialize_tag at vlevel > 0: a tag name "
             "already present raises NotUniqueError (predefined or custom); a "
             "predefined tag with another datatype raises TypeError; an "
             "ill-formed custom name raises FormatError; otherwise the value "
             "is initialised; at vlevel 0 nothing is refused", floor=20)
    seg1 = repo.cls("line.segment.GFA1")
    f_it = ctx.anchor("Line._initialize_tag",
                      seg1.find_method("_initialize_tag"))

    class TagHooks(LineHooks):
        def before_inline(self, ev, func, args, kwargs):
            if func.name == "_init_field_value":
                ev.events.append(("init", args[1], args[2]))
                return None
            return NotImplemented
    for n, t, present, vl in itertools.product(
            ["LN", "xx", "x", "1a"], ["i", "Z"], [False, True], [0, 1, 3]):
        ctx.instance(R)
        data = {"name": "a", "sequence": "*"}
        if present:
            data[n] = 1
        ln = Abs(seg1, label="line", vlevel=vl, _data=data, _datatype={})
        out = eval_function(repo, f_it, [ln, n, t, "5"], hooks=TagHooks(repo))
        inits = [e for e in out[2] if e[0] == "init"]
        if vl == 0:
            want = None
        elif present:
            want = "NotUniqueError"
        elif n == "LN":
            want = None if t == "i" else "TypeError"
        elif n in ("x", "1a"):
            want = "FormatError"
        else:
            want = None
        if want is None:
            ok = out[0] == "return" and len(inits) == 1
        else:
            ok = out[0] == "raise" and str(out[1]).endswith(want) and not inits
        ctx.oblige(ok)
        if not ok:
            ctx.violation(R, f_it.short,
                          "tag=%s,type=%s,already_present=%s,vlevel=%d" % (
                              n, t, present, vl),
                          "outcome %r (value initialised: %s); expected %s" %
                          (out[0:2], bool(inits), want or "initialisation"))
    ctx.exhaustive[R] = True

    # ------------------------------------------------------------------
    R = "C04.arity"
    ctx.rule(R, "Construction._initialize_positional_fields refuses a record "
             "with fewer positional fields than the record type defines "
             "(FormatError, every level) and a wrong record letter; "
             "Construction.__init__ runs the record-specific validation at "
             "vlevel >= 1", floor=4)
    f_ip = ctx.anchor("Line._initialize_positional_fields",
                      seg1.find_method("_initialize_positional_fields"))

    class PosHooks(LineHooks):
        def before_inline(self, ev, func, args, kwargs):
            if func.name == "_init_field_value":
                ev.events.append(("init", args[1]))
                return None
            return NotImplemented
    for strings, vl, want in (
            (["S", "a"], 1, "FormatError"), (["S", "a"], 0, "FormatError"),
            (["S"], 1, "FormatError"), (["S", "a", "*"], 1, None),
            (["S", "a", "*", "LN:i:1"], 1, None),
            (["L", "a", "*"], 1, "FormatError")):
        ctx.instance(R)
        ln = Abs(seg1, label="line", vlevel=vl, _version="gfa1", _data={})
        out = eval_function(repo, f_ip, [ln, strings], hooks=PosHooks(repo))
        inits = [e[1] for e in out[2] if e[0] == "init"]
        if want:
            ok = out[0] == "raise" and str(out[1]).endswith(want)
        else:
            ok = out[0] == "return" and inits == ["name", "sequence"]
        ctx.oblige(ok)
        if not ok:
            ctx.violation(R, f_ip.short, "fields=%r,vlevel=%d" % (strings, vl),
                          "outcome %r, initialised %r" % (out[0:2], inits))
    # wiring in __init__
    cons = repo.cls("line.common.construction.Construction")
    f_init = ctx.anchor("Construction.__init__", cons.find_method("__init__"))
    ctx.instance(R)
    ok = guarded_call(f_init, "_validate_record_type_specific_info",
                      "self.vlevel >= 1")
    ctx.oblige(ok)
    if not ok:
        ctx.violation(R, f_init.short, "record-specific validation",
                      "Construction.__init__ does not call "
                      "_validate_record_type_specific_info under "
                      "`self.vlevel >= 1`")
    ctx.exhaustive[R] = True

    # ------------------------------------------------------------------
    R = "C04.cross_field"
    ctx.rule(R, "decision tables of the cross-field validators: GFA1 segment "
             "LN vs sequence length; path overlap count vs segment count; `$` "
             "only on the last position, for both sides of an E line and for "
             "F lines; each record class's "
             "_validate_record_type_specific_info reaches its validator",
             floor=60)
    f_vl = ctx.anchor("segment.GFA1.validate_length",
                      seg1.find_method("validate_length"))
    PH = repo.cls("Placeholder")
    for seq, ln_tag in itertools.product(["*", "ACG"], [None, 3, 4, 0]):
        ctx.instance(R)
        data = {"name": "a",
                "sequence": Abs(PH, label="*", __bool__=False)
                if seq == "*" else seq}
        if ln_tag is not None:
            data["LN"] = ln_tag
        s = Abs(seg1, label="seg", _data=data, LN=ln_tag,
                sequence=data["sequence"],
                tagnames=[k for k in data if k == "LN"])
        out = eval_function(repo, f_vl, [s], hooks=hooks)
        bad = seq != "*" and ln_tag is not None and ln_tag != len(seq)
        ok = (out[0] == "raise" and str(out[1]).endswith(
            "InconsistencyError")) if bad else out[0] == "return"
        ctx.oblige(ok)
        if not ok:
            ctx.violation(R, f_vl.short, "sequence=%s,LN=%s" % (seq, ln_tag),
                          "outcome %r" % (out[0:2],))
    P = repo.cls("line.group.Path")
    f_ls = ctx.anchor("Path._validate_lists_size",
                      P.find_method("_validate_lists_size"))
    for nseg, nov, star in itertools.product([1, 2, 3], [0, 1, 2, 3, 4],
                                             [False, True]):
        if star and nov != 1:
            continue
        ctx.instance(R)
        ovs = [Abs(PH, label="*", __bool__=False)] if star else \
            ["ov%d" % i for i in range(nov)]
        p = Abs(P, label="path", overlaps=ovs,
                segment_names=["s%d" % i for i in range(nseg)])
        out = eval_function(repo, f_ls, [p], hooks=hooks)
        good = nov == nseg - 1 or nov == nseg or star
        ok = out[0] == "return" if good else (
            out[0] == "raise" and str(out[1]).endswith("InconsistencyError"))
        ctx.oblige(ok)
        if not ok:
            ctx.violation(R, f_ls.short,
                          "segments=%d,overlaps=%s" % (nseg, "*" if star
                                                       else nov),
                          "outcome %r" % (out[0:2],))
    for clsname, meth, target in (("line.segment.GFA1",
                                   "_validate_record_type_specific_info",
                                   "validate_length"),
                                  ("line.group.Path",
                                   "_validate_record_type_specific_info",
                                   "_validate_lists_size")):
        ctx.instance(R)
        c = repo.cls(clsname)
        f = c.find_method(meth)
        ok = f is not None and any(
            isinstance(n, ast.Call) and isinstance(n.func, ast.Attribute) and
            n.func.attr == target for n in ast.walk(f.node))
        ctx.oblige(ok)
        if not ok:
            ctx.violation(R, c.short, meth,
                          "%s does not reach %s" % (meth, target))
    # `$` positions
    LP = repo.cls("LastPos")
    OL = repo.cls("OrientedLine")
    S2 = repo.cls("line.segment.GFA2")
    E = repo.cls("line.edge.GFA2")
    F = repo.cls("line.Fragment")

    def pos(v, last):
        return Abs(LP, label="%d$" % v, value=v) if last else v

    def segm(name, seq):
        return Abs(S2, label="seg:" + name, name=name,
                   sequence=Abs(PH, label="*", __bool__=False)
                   if seq == "*" else seq)
    f_vp = ctx.anchor("edge.GFA2.validate_positions",
                      E.find_method("validate_positions"))
    plist = [pos(0, False), pos(3, False), pos(7, True), pos(5, True)]
    for seq1, seq2 in itertools.product(["*", "ACGTACG"], repeat=2):
        for b1, e1, b2, e2 in itertools.product(plist, repeat=4):
            ctx.instance(R)
            sa, sb = segm("a", seq1), segm("b", seq2)
            e = Abs(E, label="edge", _gfa=Abs(None, label="gfa"),
                    sid1=Abs(OL, line=sa, orient="+", name="a"),
                    sid2=Abs(OL, line=sb, orient="+", name="b"),
                    beg1=b1, end1=e1, beg2=b2, end2=e2)
            e.attrs["_data"] = e.attrs
            out = eval_function(repo, f_vp, [e], hooks=hooks)
            bad = False
            for seq, ps in ((seq1, (b1, e1)), (seq2, (b2, e2))):
                if seq == "*":
                    continue
                for p in ps:
                    if isinstance(p, Abs) and p.attrs["value"] != len(seq):
                        bad = True
            ok = (out[0] == "raise" and str(out[1]).endswith(
                "InconsistencyError")) if bad else out[0] == "return"
            ctx.oblige(ok)
            if not ok:
                ctx.violation(
                    R, f_vp.short,
                    "seq1=%s,seq2=%s,beg1=%s,end1=%s,beg2=%s,end2=%s" % (
                        seq1, seq2, fmtp(b1), fmtp(e1), fmtp(b2), fmtp(e2)),
                    "outcome %r; a `$` on a position that is not the end of "
                    "a known sequence must raise InconsistencyError, "
                    "everything else must pass" % (out[0:2],))
    f_fp = ctx.anchor("Fragment.validate_positions",
                      F.find_method("validate_positions"))
    # (f_beg / f_end are coordinates on the external sequence: a `$` there
    # says nothing about the segment and is never compared with its length)
    fpairs = [(pos(0, False), pos(4, False)), (pos(10, False), pos(14, True)),
              (pos(7, True), pos(7, True)), (pos(2, True), pos(3, True))]
    for seq in ("*", "ACGTACG"):
        for b, e_, (fb, fe) in itertools.product(plist, plist, fpairs):
            ctx.instance(R)
            fr = Abs(F, label="frag", _gfa=Abs(None, label="gfa"),
                     sid=segm("a", seq), s_beg=b, s_end=e_, f_beg=fb,
                     f_end=fe)
            fr.attrs["_data"] = fr.attrs
            out = eval_function(repo, f_fp, [fr], hooks=hooks)
            bad = seq != "*" and any(isinstance(p, Abs) and
                                     p.attrs["value"] != len(seq)
                                     for p in (b, e_))
            ok = (out[0] == "raise" and str(out[1]).endswith(
                "InconsistencyError")) if bad else out[0] == "return"
            ctx.oblige(ok)
            if not ok:
                ctx.violation(R, f_fp.short,
                              "seq=%s,s_beg=%s,s_end=%s,f_beg=%s,f_end=%s" % (
                                  seq, fmtp(b), fmtp(e_), fmtp(fb), fmtp(fe)),
                              "outcome %r" % (out[0:2],))
    ctx.exhaustive[R] = True

    # ------------------------------------------------------------------
    R = "C04.alignment_dispatch"
    ctx.rule(R, "Alignment._from_string(string, version, valid): decision "
             "table over the first non-digit character: '*' alone is the "
             "placeholder; after at least one digit, M I D P go to the CIGAR "
             "parser, = X S H N only in GFA1, ',' to the trace parser only "
             "in GFA2; everything else is a FormatError; the CIGAR parser is "
             "called with the caller's version and valid (its own defaults "
             "would accept GFA1-only codes in GFA2)", floor=40)
    AL = repo.cls("Alignment")
    CG = repo.cls("CIGAR")
    TR = repo.cls("Trace")
    f_afs = ctx.anchor("Alignment._from_string",
                       AL.find_method("_from_string"))
    f_cfs = ctx.anchor("CIGAR._from_string", CG.find_method("_from_string"))

    def callee_default(func, pname):
        a = func.node.args
        names = [x.arg for x in a.args]
        if pname in names:
            i = names.index(pname) - (len(names) - len(a.defaults))
            if i >= 0 and isinstance(a.defaults[i], ast.Constant):
                return a.defaults[i].value
        return "<no default>"

    class DispatchHooks(LineHooks):
        def before_inline(self, ev, func, args, kwargs):
            if func.name == "_from_string" and func.cls is CG:
                names = func.params[1:]
                bound = dict(zip(names, args[1:]))
                bound.update(kwargs)
                ev.events.append((
                    "cigar", bound.get("version",
                                       callee_default(func, "version")),
                    bound.get("valid", callee_default(func, "valid"))))
                return "<cigar>"
            if func.name == "_from_string" and func.cls is TR:
                ev.events.append(("trace",))
                return Abs(TR, label="trace")
            if func.name == "validate":
                return None
            return NotImplemented

        def construct(self, ev, cls, args, kwargs):
            if cls.name == "AlignmentPlaceholder":
                return "<placeholder>"
            return super().construct(ev, cls, args, kwargs)
    for version, valid in itertools.product(("gfa1", "gfa2"), (False, True)):
        for text in ["*", "**", "", "12", "M", "1*", "1 M"] + \
                ["12%s3M" % c for c in "MIDP=XSHN,"] + \
                ["1%s" % c for c in "MIDP=XSHN,"] + ["1Q", "1m", "1$"]:
            ctx.instance(R)
            out = eval_function(repo, f_afs, [AL, text, version, valid],
                                hooks=DispatchHooks(repo))
            digits = len(text) - len(text.lstrip("0123456789"))
            c = text[digits:digits + 1]
            if text == "*":
                want = ("return", "<placeholder>")
            elif digits and c in "MIDP" and c:
                want = ("cigar", version, valid)
            elif digits and c in "=XSHN" and c and version == "gfa1":
                want = ("cigar", version, valid)
            elif digits and c == "," and version == "gfa2":
                want = ("trace",)
            else:
                want = ("raise", "FormatError")
            if want[0] == "return":
                ok = out[0] == "return" and out[1] == want[1]
            elif want[0] == "raise":
                ok = out[0] == "raise" and str(out[1]).endswith(want[1])
            else:
                ok = out[0] == "return" and want in out[2]
            ctx.oblige(ok)
            if not ok:
                ctx.violation(
                    R, f_afs.short, "version=%s,first=%r" % (
                        version, c if digits or text == "*" else text[:1]),
                    "for %r (valid=%s): outcome %r, parser calls %r; the "
                    "table requires %r" % (
                        text, valid, out[0:2],
                        [e for e in out[2] if e[0] in ("cigar", "trace")],
                        want))
    ctx.exhaustive[R] = True

    # ------------------------------------------------------------------
    R = "C04.alignment_validate_version"
    ctx.rule(R, "the alignment datatypes validate a decoded CIGAR against "
             "their own version: in alignment_gfa1 / alignment_list_gfa1 / "
             "alignment_gfa2, every path of validate_decoded and encode that "
             "takes a CIGAR calls its validate with the version of the "
             "datatype (given explicitly, or being the callee's default) -- "
             "the GFA1-only operations = X S H N are then refused in GFA2 "
             "and accepted in GFA1", floor=5)
    f_cval = ctx.anchor("CIGAR.validate", CG.find_method("validate"))
    for dt, ver in (("alignment_gfa1", "gfa1"), ("alignment_gfa2", "gfa2"),
                    ("alignment_list_gfa1", "gfa1")):
        m = ctx.anchor("FIELD_MODULE[%s]" % dt, fm.get(dt))
        for fname in ("validate_decoded", "encode"):
            f = codec.module_func(repo, m, fname)
            if f is None:
                continue
            ctx.instance(R)
            seen = []

            class VVH(LineHooks):
                def method(self, ev, base, name, args, kwargs, node):
                    if isinstance(base, Abs) and base.cls is CG and \
                            name == "validate":
                        names = f_cval.params[1:]
                        bound = dict(zip(names, args))
                        bound.update(kwargs)
                        seen.append(bound.get(
                            "version", callee_default(f_cval, "version")))
                        return None
                    return super().method(ev, base, name, args, kwargs, node)

                def construct(self, ev, cls, args, kwargs):
                    if cls is AL and args and isinstance(args[0], Abs):
                        return args[0]      # Alignment(x) of a CIGAR is x
                    return super().construct(ev, cls, args, kwargs)

                def to_str(self, ev, v):
                    return "5M"
            cg = Abs(CG, label="cigar")
            arg = [cg] if dt.startswith("alignment_list") else cg
            out = eval_function(repo, f, [arg], hooks=VVH(repo))
            ok = out[0] == "return" and seen and all(v == ver for v in seen)
            ctx.oblige(ok)
            if not ok:
                ctx.violation(R, f.short, "datatype=%s" % dt,
                              "outcome %r; the CIGAR is validated as %r, the "
                              "datatype is %s" % (out[0:2], seen, ver))
    ctx.exhaustive[R] = True

    # ------------------------------------------------------------------
    rule_custom_record_tag_scan(ctx, "C04.custom_record_tag_scan")
    from .c13 import rule_segment_tag_scan
    rule_segment_tag_scan(ctx, "C04.segment_tag_scan")

    # ------------------------------------------------------------------
    R = "C04.document_validation"
    ctx.rule(R, "Gfa.validate runs the segment-reference, path-link, "
             "group-item and GFA2-position validators, and the rGFA "
             "validation exactly when the dialect is rgfa, for every version; "
             "Gfa() and read_file() call it at vlevel >= 1", floor=8)
    gfacls = repo.cls("Gfa")
    f_v = ctx.anchor("Gfa.validate", gfacls.find_method("validate"))

    class VH(LineHooks):
        def before_inline(self, ev, func, args, kwargs):
            if func.name != "validate":
                ev.events.append((func.name,))
                return None
            return NotImplemented
    for version, dialect in itertools.product(["gfa1", "gfa2", None],
                                              ["standard", "rgfa"]):
        ctx.instance(R)
        g = Abs(gfacls, label="gfa", _version=version, _dialect=dialect)
        out = eval_function(repo, f_v, [g], hooks=VH(repo))
        called = [e[0] for e in out[2]]
        need = ["__validate_segment_references", "__validate_path_links",
                "__validate_group_items", "__validate_gfa2_positions"]
        ok = out[0] == "return" and all(n in called for n in need) and \
            (("validate_rgfa" in called) == (dialect == "rgfa"))
        ctx.oblige(ok)
        if not ok:
            ctx.violation(R, f_v.short,
                          "version=%s,dialect=%s" % (version, dialect),
                          "validators run: %r" % (called,))
    for fname, guard in (("__init__", "vlevel >= 1"),
                         ("read_file", "self._vlevel >= 1")):
        ctx.instance(R)
        f = ctx.anchor("Gfa.%s" % fname, gfacls.find_method(fname))
        ok = guarded_call(f, "validate", guard)
        ctx.oblige(ok)
        if not ok:
            ctx.violation(R, f.short, "validate-call",
                          "no call of self.validate() under `%s`" % guard)
    # the structural validators refuse virtual (undefined) lines
    # (interpreted: a Gfa whose lines are all defined passes, one with an
    # undefined segment / link / group item raises NotFoundError, wherever
    # the undefined line stands)
    S2c = repo.cls("line.segment.GFA2")
    Lkc = repo.cls("line.edge.Link")
    Pc = repo.cls("line.group.Path")
    Uc = repo.cls("line.group.Unordered")
    Oc = repo.cls("line.group.Ordered")
    OLc = repo.cls("OrientedLine")

    class VirtHooks(LineHooks):
        def method(self, ev, base, name, args, kwargs, node):
            if isinstance(base, Abs) and name in ("refstr", "to_str"):
                return "<%s>" % name
            return super().method(ev, base, name, args, kwargs, node)

        def to_str(self, ev, v):
            return "<%s>" % v.label

    def ln(cls, label, virtual):
        return Abs(cls, label=label, name=label, virtual=virtual,
                   _virtual=virtual)

    def scenario(name, where):
        # where: None (all defined) or the position of the undefined line
        def v(i):
            return where == i
        if name == "__validate_segment_references":
            return Abs(gfacls, label="gfa", segments=[
                ln(S2c, "s%d" % i, v(i)) for i in range(3)])
        if name == "__validate_path_links":
            paths = [Abs(Pc, label="p%d" % j, links=[
                Abs(OLc, label="ol", orient="+", line=ln(
                    Lkc, "l%d" % (2 * j + k), v(2 * j + k)))
                for k in range(2)]) for j in range(2)]
            return Abs(gfacls, label="gfa", _gfa1_paths=paths)
        sets = [Abs(Uc, label="u", items=[ln(S2c, "i0", v(0)),
                                          ln(S2c, "i1", v(1))])]
        pths = [Abs(Oc, label="o", items=[
            Abs(OLc, label="ol", orient="+", line=ln(S2c, "i2", v(2))),
            Abs(OLc, label="ol", orient="-", line=ln(S2c, "i3", v(3)))])]
        return Abs(gfacls, label="gfa", version="gfa2", _version="gfa2",
                   sets=sets, paths=pths)
    for name, npos in (("__validate_segment_references", 3),
                       ("__validate_path_links", 4),
                       ("__validate_group_items", 4)):
        f = ctx.anchor("Gfa.%s" % name, gfacls.find_method(name))
        for where in [None] + list(range(npos)):
            ctx.instance(R)
            try:
                out = eval_function(repo, f, [scenario(name, where)],
                                    hooks=VirtHooks(repo))
            except Unsupported as e:
                raise AnalysisError(str(e))
            if where is None:
                ok = out[0] in ("return", "fall")
            else:
                ok = out[0] == "raise" and \
                    str(out[1]).endswith("NotFoundError")
            ctx.oblige(ok)
            if not ok:
                ctx.violation(R, f.short, "virtual-check,undefined=%s" % (
                    "none" if where is None else "line %d" % where),
                    "outcome %r; an undefined (virtual) line must be "
                    "refused with NotFoundError, a complete graph accepted"
                    % (out[0:2],))
    ctx.exhaustive[R] = True
    ctx.notes["alphabet"] = "ASCII 0..127 + one class for all non-ASCII"
    ctx.assume("the reference grammars of spec.GRAMMAR transcribe the GFA1, "
               "GFA2 and SAM (optional field) specifications; where the "
               "specification is silent gfapy's documented choice is used "
               "(signed integers, per-subtype B arrays)")


class GroupHooks(LineHooks):
    def method(self, ev, base, name, args, kwargs, node):
        import re as _re
        if isinstance(base, _re.Match) and name == "group":
            return base.group(*args)
        return super().method(ev, base, name, args, kwargs, node)


def fmtp(p):
    return "%s$" % p.attrs["value"] if isinstance(p, Abs) else str(p)


def guarded_call(func, callee, guard_text):
    """a call self.<callee>() occurs inside an `if` whose test is guard_text"""
    for n in ast.walk(func.node):
        if isinstance(n, ast.If) and unparse(n.test) == guard_text:
            for b in n.body:
                for c in ast.walk(b):
                    if isinstance(c, ast.Call) and \
                            isinstance(c.func, ast.Attribute) and \
                            c.func.attr == callee:
                        return True
    return False


def decode_idiom(repo, module, f, lang_val):
    """(ok, description)"""
    body = [s for s in f.node.body
            if not (isinstance(s, ast.Expr) and
                    isinstance(s.value, ast.Constant))]
    param = f.params[0] if f.params else None

    def is_call(st, name):
        v = st.value if isinstance(st, (ast.Expr, ast.Assign)) else None
        return isinstance(v, ast.Call) and isinstance(v.func, ast.Name) and \
            v.func.id == name and len(v.args) == 1 and \
            isinstance(v.args[0], ast.Name) and v.args[0].id == param
    if not body:
        return False, "decode has an empty body"
    name = module.name.split(".")[-1]
    # I0: the accepted language of decode itself (returns = accept) can be
    # computed and equals the language of validate_encoded
    if lang_val is not None and name != "json":
        try:
            lang, residual, _ = codec.accept_language(repo, f)
        except Unsupported:
            lang = None
        if lang is not None and not residual:
            # a bare `return f(string)` accepts what it is given: require that
            # the function restricts its input at all
            same, w, side = lang.equals(lang_val)
            if same:
                return True, "decode accepts exactly the validated language"
            if not lang.equals(rx.everything())[0]:
                return False, "decode %s %r, validate_encoded does not" % (
                    "accepts" if side == "left" else "rejects", w)
    # I1: validate_encoded(string) first (or a sibling that does)
    first = body[0]
    if is_call(first, "validate_encoded"):
        return True, "validate_encoded first"
    if isinstance(first, ast.Expr) and isinstance(first.value, ast.Call) and \
            isinstance(first.value.func, ast.Name):
        sib = codec.module_func(repo, module, first.value.func.id)
        if sib is not None and first.value.func.id.startswith("validate") and \
                len(first.value.args) == 1 and \
                isinstance(first.value.args[0], ast.Name) and \
                first.value.args[0].id == param:
            # e.g. json: validate_all_printable ; orientation: validate_decoded
            try:
                lang, residual, _ = codec.accept_language(repo, sib)
            except Unsupported:
                lang = None
            if lang is not None and lang_val is not None:
                if name == "json":
                    # printable check + json.loads guarded in unsafe_decode
                    same, w, side = lang.equals(lang_val)
                    if same and json_guarded(repo, module):
                        return True, "printable check + guarded json.loads"
                    return False, "json.decode does not check printability " \
                        "and well-formedness like validate_encoded (%r)" % w
                same, w, side = lang.equals(lang_val)
                if same:
                    return True, "%s first (same language)" % \
                        first.value.func.id
                return False, "decode validates with %s, which %s %r unlike " \
                    "validate_encoded" % (first.value.func.id,
                                          "accepts" if side == "left"
                                          else "rejects", w)
    # I2: x = unsafe_decode(string); validate_decoded(x); return x
    if len(body) >= 2 and isinstance(body[0], ast.Assign) and \
            is_call(body[0], "unsafe_decode") and \
            isinstance(body[1], ast.Expr) and \
            isinstance(body[1].value, ast.Call) and \
            isinstance(body[1].value.func, ast.Name) and \
            body[1].value.func.id == "validate_decoded":
        vd = codec.module_func(repo, module, "validate_decoded")
        ud = codec.module_func(repo, module, "unsafe_decode")
        # validate_decoded must re-validate a str value through
        # validate_encoded, or (oriented identifier) re-check name and
        # orientation with an equivalent language
        src = unparse(vd.node)
        if "validate_encoded(obj)" in src and "isinstance(obj, str)" in src:
            # the only non-str value unsafe_decode can produce is the
            # placeholder for '*', which validate_encoded must also accept or
            # the module must special-case '*'
            return True, "unsafe_decode + validate_decoded (re-validates text)"
        if name == "oriented_identifier_gfa2" and lang_val is not None:
            pats = [n.args[0].value for n in ast.walk(vd.node)
                    if isinstance(n, ast.Call) and
                    dotted(n.func) == "re.match" and
                    isinstance(n.args[0], ast.Constant)]
            if len(pats) == 1 and "obj.orient != '+'" in src.replace('"', "'"):
                body_re = pats[0].lstrip("^")
                for suffix in ("\\Z", "$"):
                    if body_re.endswith(suffix):
                        body_re = body_re[:-len(suffix)]
                lang = rx.strict("(%s)[+-]" % body_re)
                same, w, side = lang.equals(lang_val)
                if same:
                    return True, "unsafe_decode + validate_decoded " \
                        "(name and orientation re-checked, same language)"
                return False, "decode accepts a different language than " \
                    "validate_encoded (%r)" % w
        return False, "decode converts first and validate_decoded does not " \
            "re-validate the text"
    # I3: scanners with valid=False
    src = unparse(f.node)
    if name in ("alignment_gfa1", "alignment_gfa2"):
        calls = [n for n in ast.walk(f.node) if isinstance(n, ast.Call) and
                 (dotted(n.func) or "").endswith("Alignment")]
        ok = len(calls) == 1 and any(
            k.arg == "valid" and isinstance(k.value, ast.Constant) and
            k.value.value is False for k in calls[0].keywords)
        return ok, "Alignment(string, valid=False)" if ok else \
            "decode does not call gfapy.Alignment(..., valid=False)"
    if name == "numeric_array":
        calls = [n for n in ast.walk(f.node) if isinstance(n, ast.Call) and
                 (dotted(n.func) or "").endswith("from_string")]
        ok = len(calls) == 1 and not any(
            k.arg == "valid" and not (isinstance(k.value, ast.Constant) and
                                      k.value.value is False)
            for k in calls[0].keywords)
        return ok, "NumericArray.from_string(string) with validation" if ok \
            else "decode does not call NumericArray.from_string with " \
            "validation enabled"
    return False, "decode does not validate its argument before converting " \
        "it (first statement: %s)" % unparse(first)[:60]


def json_guarded(repo, module):
    ud = codec.module_func(repo, module, "unsafe_decode")
    if ud is None:
        return False
    for n in ast.walk(ud.node):
        if isinstance(n, ast.Try):
            if any(isinstance(c, ast.Call) and dotted(c.func) == "json.loads"
                   for b in n.body for c in ast.walk(b)):
                return True
    return False


def rule_custom_record_tag_scan(ctx, R):
    """shared by C01 and C04: custom records find their tags heuristically"""
    import itertools as _it
    from ..tables import Raised
    repo = ctx.repo
    ctx.rule(R, "CustomRecord._initialize_tags scans the fields from the "
             "right and stops at the first one that cannot be taken as a tag "
             "-- whatever library error refuses it (not tag-shaped, name "
             "already used by a tag further right, content invalid for the "
             "datatype): that field and everything before it are positional "
             "fields, and the line is accepted", floor=8)
    custom = repo.cls("line.CustomRecord")
    f = ctx.anchor("CustomRecord._initialize_tags",
                   custom.find_method("_initialize_tags"))
    errors = ["gfapy.FormatError", "gfapy.NotUniqueError", "gfapy.ValueError",
              "gfapy.TypeError", "gfapy.InconsistencyError"]
    for where, err, bad in _it.product(("parse", "store"), errors, (1, 2, 3)):
        if where == "parse" and err != "gfapy.FormatError":
            continue
        ctx.instance(R)
        strings = ["X", "f1", "f2", "f3"]

        class TH(LineHooks):
            def before_inline(self, ev, func, args, kwargs, bad=bad, err=err,
                              where=where):
                if func.name == "_parse_gfa_tag":
                    i = strings.index(args[0])
                    if where == "parse" and i == bad:
                        raise Raised(err)
                    return ["t%d" % i, "Z", "v"]
                if func.name == "_initialize_tag":
                    i = int(args[1][1:])
                    if where == "store" and i == bad:
                        raise Raised(err)
                    ev.events.append(("tag", i))
                    return None
                if func.name == "_delayed_initialize_positional_fields":
                    ev.events.append(("positional", args[2]))
                    return None
                return NotImplemented
        ln = Abs(custom, label="line", vlevel=1, _data={}, _datatype={})
        out = eval_function(repo, f, [ln, strings], hooks=TH(repo))
        tags = [e[1] for e in out[2] if e[0] == "tag"]
        npos = [e[1] for e in out[2] if e[0] == "positional"]
        ok = out[0] == "return" and npos == [bad + 1] and \
            tags == list(range(3, bad, -1))
        ctx.oblige(ok)
        if not ok:
            ctx.violation(R, f.short, "field=%d,refused_by=%s,%s" % (
                bad, where, err.split(".")[1]),
                "outcome %r, tags taken %r, positional fields %r; expected "
                "the fields up to index %d to become positional" % (
                    out[0:2], tags, npos, bad))
    ctx.exhaustive[R] = True
