"""C06 -- GFA1 <-> GFA2 conversion preserves the graph and emits valid output.

Decided clauses (TABLE / SYM by abstract interpretation): (a) the GFA2-style
accessors of L/C lines read the right component of the coordinate pairs; (b)
the E -> L/C conversion keeps the alignment when sid1 plays the `from` role and
complements it when the sides are swapped, and writes the segments in
from/to order; (c) pos of a containment is the container-side begin; (d) the
interval formulas of L and C lines: suffix / prefix of the right length on
the right side, `$` exactly on a coordinate equal to the segment length;
(e) the L/C -> E and S conversions copy every field and tag, drop exactly the
field that became positional; (f) records without counterpart yield nothing
(whole-graph conversion) or VersionError (single line), never a guess.
Not decided: coordinate arithmetic beyond the enumerated lengths, validity of
whole converted documents, equivalence after there-and-back.
"""
import ast
import itertools

from .. import spec
from ..model import AnalysisError, record_classes, record_table, unparse
from ..tables import Abs, eval_function, Unsupported
from ..linehooks import LineHooks
from .c12 import OvHooks
from .refgraph import SeqHooks
from .common import is_library_error


def run(ctx):
    repo = ctx.repo
    L = repo.cls("line.edge.Link")
    C = repo.cls("line.edge.Containment")
    E = repo.cls("line.edge.GFA2")
    S1 = repo.cls("line.segment.GFA1")
    S2 = repo.cls("line.segment.GFA2")
    OL = repo.cls("OrientedLine")
    LP = repo.cls("LastPos")
    PH = repo.cls("Placeholder")

    def ol(name, o):
        return Abs(OL, label="%s%s" % (name, o), line=name, orient=o,
                   name=name)

    # ------------------------------------------------------------------
    R = "C06.gfa1_accessors"
    ctx.rule(R, "on L and C lines: beg1/end1 are from_coords[0]/[1], "
             "beg2/end2 are to_coords[0]/[1], sid1/sid2 are the oriented "
             "from/to segments, alignment is the overlap, eid the ID tag or a "
             "placeholder", floor=14)
    for cls in (L, C):
        ln = Abs(cls, label="line", from_coords=["<fb>", "<fe>"],
                 to_coords=["<tb>", "<te>"], oriented_from="<of>",
                 oriented_to="<ot>", overlap="<ov>", _data={"ID": "id1"})
        for name, want in (("beg1", "<fb>"), ("end1", "<fe>"),
                           ("beg2", "<tb>"), ("end2", "<te>"),
                           ("sid1", "<of>"), ("sid2", "<ot>"),
                           ("alignment", "<ov>"), ("eid", "id1")):
            ctx.instance(R)
            f = ctx.anchor("%s.%s" % (cls.name, name), cls.find_method(name))
            out = eval_function(repo, f, [ln], hooks=LineHooks(repo))
            ok = out[0] == "return" and out[1] == want
            ctx.oblige(ok)
            if not ok:
                ctx.violation(R, f.short, "%s.%s" % (cls.name, name),
                              "reads %r, expected %s" % (out[1], want))
    ctx.exhaustive[R] = True

    # ------------------------------------------------------------------
    R = "C06.e_to_gfa1"
    ctx.rule(R, "E -> L/C: oriented_from/to, from/to_segment/orient and the "
             "written record put the side with the `from` role first; the "
             "overlap is the alignment itself when sid1 is `from` and its "
             "complement when sid2 is; a containment writes its pos; an "
             "internal alignment is refused; the identifier becomes the ID "
             "tag and the tags follow", floor=16)
    f_a = ctx.anchor("edge.GFA2._to_gfa1_a", E.find_method("_to_gfa1_a"))
    f_ov = ctx.anchor("edge.GFA2.overlap", E.find_method("overlap"))
    for sid1_from, at, named in itertools.product([True, False], ["L", "C"],
                                                  [True, False]):
        ctx.instance(R)
        oh = OvHooks(repo)

        class TH(OvHooks):
            def before_inline(self, ev, func, args, kwargs):
                if func.name == "_is_sid1_from":
                    return sid1_from
                if func.name == "field_to_s":
                    return "<tag:%s>" % args[1]
                if func.name == "_to_gfa_tag":
                    return "%s:%s:%s" % (args[1], kwargs.get("datatype"),
                                         args[0])
                return NotImplemented

            def to_str(self, ev, v):
                if self.is_ov(v):
                    return "str(%s)" % v.label
                return "<%s>" % v.label

            def method(self, ev, base, name, args, kwargs, node):
                if self.is_ov(base) and name == "validate":
                    return None
                return super().method(ev, base, name, args, kwargs, node)
        th = TH(repo)
        al = th.ov("X")
        eid = "e1" if named else Abs(PH, label="*", __bool__=False)
        e = Abs(E, label="edge", sid1=ol("a", "+"), sid2=ol("b", "-"),
                alignment=al, _alignment_type=at, pos=7, eid=eid,
                tagnames=["xx"])
        e.attrs["_data"] = e.attrs
        out = eval_function(repo, f_a, [e], hooks=th)
        first, second = (("a", "+"), ("b", "-")) if sid1_from else \
            (("b", "-"), ("a", "+"))
        want = [at, first[0], first[1], second[0], second[1]]
        if at == "C":
            want.append("7")
        want.append("str(ov:X)" if sid1_from else "str(ov:X')")
        if named:
            want.append("ID:Z:e1")
        want.append("<tag:xx>")
        got = out[1] if out[0] == "return" else None
        ok = got == want
        ctx.oblige(ok)
        if not ok:
            ctx.violation(R, f_a.short,
                          "sid1_is_from=%s,type=%s,named=%s" % (
                              sid1_from, at, named),
                          "writes %r, expected %r" % (got, want))
        # the overlap property
        ctx.instance(R)
        out = eval_function(repo, f_ov, [e], hooks=th)
        w = th.ov("X", not sid1_from)
        ok = out[0] == "return" and th.eq(None, out[1], w) is True
        ctx.oblige(ok)
        if not ok:
            ctx.violation(R, f_ov.short, "sid1_is_from=%s" % sid1_from,
                          "overlap is %r, expected %s" % (out[1], w.label))
    ctx.instance(R)
    e = Abs(E, label="edge", _alignment_type="I")
    out = eval_function(repo, f_a, [e], hooks=SeqHooks(repo, []))
    ok = out[0] == "raise" and is_library_error(repo, f_a.module, out[1])
    ctx.oblige(ok)
    if not ok:
        ctx.violation(R, f_a.short, "type=I",
                      "an internal alignment is converted (%r)" % (out[0:2],))
    for name, attr, side in (("from_segment", "line", "from"),
                             ("to_segment", "line", "to"),
                             ("from_orient", "orient", "from"),
                             ("to_orient", "orient", "to")):
        for s1f in (True, False):
            ctx.instance(R)

            class FH(LineHooks):
                def before_inline(self, ev, func, args, kwargs):
                    if func.name == "_is_sid1_from":
                        return s1f
                    return NotImplemented
            e = Abs(E, label="edge", sid1=ol("a", "+"), sid2=ol("b", "-"))
            f = ctx.anchor("edge.GFA2.%s" % name, E.find_method(name))
            out = eval_function(repo, f, [e], hooks=FH(repo))
            src = e.attrs["sid1"] if (side == "from") == s1f else \
                e.attrs["sid2"]
            ok = out[0] == "return" and out[1] == src.attrs[attr]
            ctx.oblige(ok)
            if not ok:
                ctx.violation(R, f.short, "%s,sid1_is_from=%s" % (name, s1f),
                              "gives %r, expected %r" % (out[1],
                                                         src.attrs[attr]))
    # pos of a containment: the begin on the container side
    f_pos = ctx.anchor("edge.GFA2.pos", E.find_method("pos"))

    def P(v, last=False):
        return Abs(LP, label="%d$" % v, value=v) if last else v
    for (b1, e1, b2, e2), want in (
            ((3, 8, 0, P(5, True)), 3),          # sid2 whole: sid1 container
            ((0, P(5, True), 3, 8), 3),          # sid1 whole: sid2 container
            ((0, P(5, True), 0, P(5, True)), 0),  # both whole
            ((0, P(5, True), 0, 5), 0)):
        ctx.instance(R)
        e = Abs(E, label="edge", _alignment_type="C", beg1=b1, end1=e1,
                beg2=b2, end2=e2)
        out = eval_function(repo, f_pos, [e], hooks=LineHooks(repo))
        ok = out[0] == "return" and out[1] == want
        ctx.oblige(ok)
        if not ok:
            ctx.violation(R, f_pos.short, "coords=%r" % ((b1, e1, b2, e2),),
                          "pos is %r, expected %r" % (out[1], want))
    for at in ("L", "I"):
        ctx.instance(R)
        e = Abs(E, label="edge", _alignment_type=at)
        out = eval_function(repo, f_pos, [e], hooks=SeqHooks(repo, []))
        ok = out[0] == "raise" and is_library_error(repo, f_pos.module, out[1])
        ctx.oblige(ok)
        if not ok:
            ctx.violation(R, f_pos.short, "type=%s" % at,
                          "pos of a non-containment does not raise")
    ctx.exhaustive[R] = True

    # ------------------------------------------------------------------
    R = "C06.intervals"
    ctx.rule(R, "L line: the from side is the suffix [len-r, len$] for "
             "orientation + and the prefix [0, r] for -, with r the length of "
             "the overlap on the reference; the to side mirrors with the "
             "length on the query; C line: container [pos, pos+r], contained "
             "[0, len$]; a coordinate equal to the segment length carries "
             "`$`; enumerated for segment length 10 and overlap lengths "
             "0, 4, 10 and reference/query lengths that differ", floor=30)

    class IH(LineHooks):
        def __init__(self, repo, r, q):
            super().__init__(repo)
            self.r, self.q = r, q

        def method(self, ev, base, name, args, kwargs, node):
            if isinstance(base, Abs) and base.label == "overlap":
                if name == "length_on_reference":
                    return self.r
                if name == "length_on_query":
                    return self.q
            return super().method(ev, base, name, args, kwargs, node)

        def before_inline(self, ev, func, args, kwargs):
            if func.name == "_check_overlap":
                return None
            return NotImplemented

    def show(v):
        if isinstance(v, Abs) and v.cls is LP:
            return "%d$" % v.attrs["value"]
        return str(v)

    def ref_iv(orient_is_suffix, length, seglen=10):
        if orient_is_suffix:
            b, e = seglen - length, seglen
        else:
            b, e = 0, length
        return ["%d%s" % (b, "$" if b == seglen else ""),
                "%d%s" % (e, "$" if e == seglen else "")]
    f_lf = ctx.anchor("Link.from_coords", L.find_method("from_coords"))
    f_lt = ctx.anchor("Link.to_coords", L.find_method("to_coords"))
    cells = []
    # the two segments have different lengths (10 and 7), so that a position
    # compared with the length of the wrong segment shows; (7, 4) and (7, 7)
    # put the length of the other segment on the `from` side
    pairs = [(0, 0), (4, 4), (4, 6), (10, 7), (7, 7), (7, 4)]
    if ctx.tier == "thorough":
        pairs += [(1, 1), (10, 1), (3, 7), (9, 6), (6, 3)]
    for o1, o2, (r, q) in itertools.product("+-", "+-", pairs):
        ov = Abs(repo.cls("CIGAR"), label="overlap")
        ln = Abs(L, label="link", from_orient=o1, to_orient=o2, overlap=ov,
                 from_segment=Abs(S1, label="seg:a", name="a", length=10),
                 to_segment=Abs(S1, label="seg:b", name="b", length=7))
        for f, side, length, suffix, seglen in (
                (f_lf, "from", r, o1 == "+", 10),
                (f_lt, "to", q, o2 == "-", 7)):
            ctx.instance(R)
            out = eval_function(repo, f, [ln], hooks=IH(repo, r, q))
            got = [show(x) for x in out[1]] if out[0] == "return" else out[1]
            want = ref_iv(suffix, length, seglen)
            ok = got == want
            cell = "L,%s,orient=%s,ref=%d,query=%d" % (
                side, o1 if side == "from" else o2, r, q)
            ctx.oblige(ok)
            if not ok:
                ctx.violation(R, f.short, cell,
                              "interval %r, expected %r" % (got, want))
    f_cf = ctx.anchor("Containment.from_coords", C.find_method("from_coords"))
    f_ct = ctx.anchor("Containment.to_coords", C.find_method("to_coords"))
    for pos, r in ((0, 4), (3, 4), (6, 4), (0, 10)):
        ctx.instance(R)
        ov = Abs(repo.cls("CIGAR"), label="overlap")
        # the contained segment is as long as the alignment (r), the
        # container is 10 long: `$` belongs to positions equal to 10 only
        ln = Abs(C, label="cont", pos=pos, overlap=ov,
                 from_segment=Abs(S1, label="seg:a", name="a", length=10),
                 to_segment=Abs(S1, label="seg:b", name="b", length=r))
        out = eval_function(repo, f_cf, [ln], hooks=IH(repo, r, r))
        got = [show(x) for x in out[1]] if out[0] == "return" else out[1]
        want = ["%d" % pos, "%d%s" % (pos + r, "$" if pos + r == 10 else "")]
        ok = got == want
        ctx.oblige(ok)
        if not ok:
            ctx.violation(R, f_cf.short, "C,from,pos=%d,ref=%d" % (pos, r),
                          "interval %r, expected %r" % (got, want))
    ctx.instance(R)
    out = eval_function(repo, f_ct, [Abs(
        C, label="cont",
        from_segment=Abs(S1, label="seg:a", name="a", length=10),
        to_segment=Abs(S1, label="seg:b", name="b", length=10))],
        hooks=IH(repo, 4, 4))
    got = [show(x) for x in out[1]] if out[0] == "return" else out[1]
    ok = got == ["0", "10$"]
    ctx.oblige(ok)
    if not ok:
        ctx.violation(R, f_ct.short, "C,to", "interval %r, expected "
                      "['0', '10$']" % (got,))
    ctx.exhaustive[R] = True

    # ------------------------------------------------------------------
    R = "C06.field_copies"
    ctx.rule(R, "L/C -> E writes E, the ID tag or *, sid1, sid2, the four "
             "coordinates, the overlap and every tag but ID; S gfa1 -> gfa2 "
             "writes name, length, sequence and every tag but LN; S gfa2 -> "
             "gfa1 writes name, sequence, LN:i:<slen> and every tag",
             floor=6)

    class WH(LineHooks):
        def before_inline(self, ev, func, args, kwargs):
            if func.name == "field_to_s":
                tag = kwargs.get("tag", args[2] if len(args) > 2 else False)
                return "<%s:%s>" % ("tag" if tag else "pos", args[1])
            if func.name == "_to_gfa_tag":
                return "%s:%s:%s" % (args[1], kwargs.get("datatype"), args[0])
            if func.name == "try_get_length":
                return 42
            if func.name == "unused_name":
                return "77"
            return NotImplemented

        def method(self, ev, base, name, args, kwargs, node):
            if isinstance(base, Abs) and name == "validate":
                return None
            if isinstance(base, Abs) and name == "set" and len(args) == 2:
                base.attrs["_data"][args[0]] = args[1]
                return None
            return super().method(ev, base, name, args, kwargs, node)

        def to_str(self, ev, v):
            return "<%s>" % v.label
    for cls in (L, C):
        f = ctx.anchor("%s._to_gfa2_a" % cls.name, cls.find_method(
            "_to_gfa2_a"))
        for has_id, connected in ((True, True), (False, True), (False, False)):
            ctx.instance(R)
            data = {"ID": "id1"} if has_id else {}
            ln = Abs(cls, label="line", sid1=Abs(None, label="sid1"),
                     sid2=Abs(None, label="sid2"), from_coords=[1, 2],
                     to_coords=[3, 4], overlap=Abs(None, label="ov"),
                     tagnames=["ID", "xx"] if has_id else ["xx"],
                     _gfa=Abs(repo.cls("Gfa"), label="gfa") if connected
                     else None, _data=data)
            out = eval_function(repo, f, [ln], hooks=WH(repo))
            ident = "id1" if has_id else ("77" if connected else "*")
            want = ["E", ident, "<sid1>", "<sid2>", "1", "2", "3", "4",
                    "<pos:overlap>", "<tag:xx>"]
            got = out[1] if out[0] == "return" else None
            ok = got == want
            ctx.oblige(ok)
            if not ok:
                ctx.violation(R, f.short, "%s,has_ID=%s,connected=%s" % (
                    cls.name, has_id, connected),
                    "writes %r, expected %r" % (got, want))
    f = ctx.anchor("segment.GFA1._to_gfa2_a", S1.find_method("_to_gfa2_a"))
    ctx.instance(R)
    s = Abs(S1, label="seg", tagnames=["LN", "RC", "xx"])
    out = eval_function(repo, f, [s], hooks=WH(repo))
    want = ["S", "<pos:name>", "42", "<pos:sequence>", "<tag:RC>", "<tag:xx>"]
    ok = out[0] == "return" and out[1] == want
    ctx.oblige(ok)
    if not ok:
        ctx.violation(R, f.short, "S gfa1->gfa2", "writes %r, expected %r" %
                      (out[1], want))
    f = ctx.anchor("segment.GFA2._to_gfa1_a", S2.find_method("_to_gfa1_a"))
    for tags in (["RC", "xx"], ["RC", "LN", "xx"]):
        # a GFA2 segment may itself carry a tag called LN: slen becomes the
        # LN tag of the GFA1 line, which must then not be written twice
        ctx.instance(R)
        s = Abs(S2, label="seg", tagnames=list(tags), slen=42)
        out = eval_function(repo, f, [s], hooks=WH(repo))
        want = ["S", "<pos:name>", "<pos:sequence>", "LN:i:42", "<tag:RC>",
                "<tag:xx>"]
        ok = out[0] == "return" and out[1] == want
        ctx.oblige(ok)
        if not ok:
            ctx.violation(R, f.short, "S gfa2->gfa1,tags=%s" % "+".join(tags),
                          "writes %r, expected %r" % (out[1], want))
    ctx.exhaustive[R] = True

    # ------------------------------------------------------------------
    R = "C06.o_to_p"
    ctx.rule(R, "Ordered._to_gfa1_a writes, for every captured edge, the "
             "overlap of the link the path goes through: the edge's GFA1 "
             "overlap when the edge is traversed forwards (e+), its "
             "complement when it is traversed backwards (e-), so that the P "
             "line names the same links as the O line", floor=4)
    Oc = repo.cls("line.group.Ordered")
    OLc = repo.cls("OrientedLine")
    S2c = repo.cls("line.segment.GFA2")
    E2c = repo.cls("line.edge.GFA2")
    f_o1 = ctx.anchor("Ordered._to_gfa1_a", Oc.find_method("_to_gfa1_a"))
    for orients in itertools.product("+-", repeat=2):
        ctx.instance(R)

        class OH(OvHooks):
            def before_inline(self, ev, func, args, kwargs):
                if func.name == "_validate_gfa_field":
                    return None
                if func.name == "field_to_s":
                    return "<tag>"
                return NotImplemented

            def to_str(self, ev, v):
                if self.is_ov(v):
                    return v.label[3:]
                if isinstance(v, Abs) and v.cls is OLc:
                    return "%s%s" % (v.attrs["name"], v.attrs["orient"])
                return super().to_str(ev, v)
        oh = OH(repo)
        segsl = [Abs(OLc, label="ol", name=n, orient="+",
                     line=Abs(S2c, label="s:" + n, name=n)) for n in "abc"]
        edges = [Abs(OLc, label="oe%d" % i, orient=o, name="e%d" % i,
                     line=Abs(E2c, label="e%d" % i,
                              overlap=oh.ov("X%d" % i)))
                 for i, o in enumerate(orients)]
        grp = Abs(Oc, label="group", name="p", captured_segments=segsl,
                  captured_edges=edges, tagnames=[])
        try:
            out = eval_function(repo, f_o1, [grp], hooks=oh)
        except Unsupported as e:
            raise AnalysisError(str(e))
        want = ",".join("X%d%s" % (i, "'" if o == "-" else "")
                        for i, o in enumerate(orients))
        ok = out[0] == "return" and isinstance(out[1], list) and \
            len(out[1]) >= 4 and out[1][:3] == ["P", "p", "a+,b+,c+"] and \
            out[1][3] == want
        ctx.oblige(ok)
        if not ok:
            ctx.violation(R, f_o1.short, "edges traversed %s" % "".join(
                orients), "writes %r, expected the overlaps %r (X' is the "
                "complement of X)" % (out[1], want))
    ctx.exhaustive[R] = True

    # ------------------------------------------------------------------
    R = "C06.comment_conversion"
    ctx.rule(R, "a comment has the same text in both versions: the string "
             "conversions of a comment line (to_gfa1_s / to_gfa2_s, used by "
             "Gfa.to_gfa1_s / to_gfa2_s) give what str() gives, for every "
             "spacer, and the list conversions give the comment's own list",
             floor=6)
    Cm = repo.cls("line.Comment")
    f_cstr = ctx.anchor("Comment.__str__", Cm.find_method("__str__"))

    def resolve_named(cls, name):
        # first definition in the MRO: a method of that name, or a method
        # generated with partialmethod (keywords bound)
        for k in cls.mro_classes():
            if name in k.methods:
                return k.methods[name], {}
            if name in getattr(k, "generated", {}):
                return k.generated[name]
        return None, {}

    class StrHooks(LineHooks):
        def to_str(self, ev, v):
            if isinstance(v, Abs) and v.cls is Cm:
                return ev.inline(f_cstr, [v], {})
            return super().to_str(ev, v)
    for spacer, target in itertools.product((" ", "", "\t", "  "),
                                            ("gfa1", "gfa2")):
        ctx.instance(R)
        cm = Abs(Cm, label="comment", content="a comment", spacer=spacer,
                 _version="generic", vlevel=1)
        f, kws = resolve_named(Cm, "to_%s_s" % target)
        if f is None:
            raise AnalysisError("anchor vanished: Comment.to_%s_s" % target)
        try:
            out = eval_function(repo, f, [cm], dict(kws),
                                hooks=StrHooks(repo))
            ref = eval_function(repo, f_cstr, [cm], hooks=StrHooks(repo))
        except Unsupported as e:
            raise AnalysisError(str(e))
        ok = out[0] == "return" and ref[0] == "return" and out[1] == ref[1] \
            and ref[1] == "#" + spacer + "a comment"
        ctx.oblige(ok)
        if not ok:
            ctx.violation(R, f.short, "spacer=%r,target=%s" % (spacer, target),
                          "the conversion writes %r, str() writes %r" % (
                              out[1], ref[1]))
    ctx.exhaustive[R] = True

    # ------------------------------------------------------------------
    R = "C06.no_counterpart"
    ctx.rule(R, "the default _to_version_a yields the line's own fields for "
             "its own version and nothing for the other; to_version returns "
             "the line itself for its own version, raises VersionError for an "
             "unknown version, and for an empty conversion raises "
             "VersionError or returns None according to raise_on_failure; "
             "exactly the record types with a counterpart override the "
             "conversion (S, L, C, P, E, O, H, #); Gfa.to_gfa1/to_gfa2 "
             "convert with raise_on_failure=False", floor=20)
    Line = repo.cls("Line")
    f_va = ctx.anchor("Line._to_version_a", Line.find_method("_to_version_a"))
    f_tv = ctx.anchor("Line.to_version", Line.find_method("to_version"))
    for own, target in itertools.product(["gfa1", "gfa2"], repeat=2):
        ctx.instance(R)
        ln = Abs(repo.cls("line.Gap"), label="line", _version=own)

        class LH(LineHooks):
            def before_inline(self, ev, func, args, kwargs):
                if func.name == "to_list":
                    return ["<own fields>"]
                return NotImplemented
        out = eval_function(repo, f_va, [ln, target], hooks=LH(repo))
        want = ["<own fields>"] if own == target else []
        ok = out[0] == "return" and out[1] == want
        ctx.oblige(ok)
        if not ok:
            ctx.violation(R, f_va.short, "own=%s,target=%s" % (own, target),
                          "gives %r, expected %r" % (out[1], want))
    for own, target, conv, rof in itertools.product(
            ["gfa1", "gfa2"], ["gfa1", "gfa2", "gfa3"],
            ["fields", "empty", "fields-refused"], [True, False]):
        ctx.instance(R)
        ln = Abs(repo.cls("line.Gap"), label="line", _version=own, vlevel=1)

        class CH(LineHooks):
            def function(self, ev, node, args, kwargs):
                if isinstance(node.func, ast.Name) and \
                        node.func.id == "getattr" and len(args) == 2:
                    ev.events.append(("getattr", args[1]))
                    r = ["G", "x"] if conv == "fields" else []
                    return ("const", r)
                return super().function(ev, node, args, kwargs)

            def construct(self, ev, cls, args, kwargs):
                if cls.name == "Line":
                    return Abs(cls, label="converted", _args=args,
                               _kwargs=kwargs)
                return super().construct(ev, cls, args, kwargs)

            def to_str(self, ev, v):
                return "<%s>" % v.label
        try:
            out = eval_function(repo, f_tv, [ln, target],
                                {"raise_on_failure": rof}, hooks=ConstCall(
                                    repo, conv))
        except Unsupported as e:
            raise AnalysisError(str(e))
        cell = "own=%s,target=%s,conversion=%s,raise_on_failure=%s" % (
            own, target, conv, rof)
        if target == own:
            ok = out[0] == "return" and out[1] is ln
        elif target == "gfa3":
            ok = out[0] == "raise" and str(out[1]).endswith("VersionError")
        elif conv == "fields-refused":
            # the converted fields do not make a valid line of the target
            # version: an error at every setting of raise_on_failure (a
            # whole-graph conversion must not drop the line silently)
            ok = out[0] == "raise" and str(out[1]).endswith("RuntimeError")
        elif conv == "fields":
            ok = out[0] == "return" and isinstance(out[1], Abs) and \
                out[1].label == "converted" and \
                out[1].attrs["_kwargs"].get("version") == target
        elif rof:
            ok = out[0] == "raise" and str(out[1]).endswith("VersionError")
        else:
            ok = out[0] == "return" and out[1] is None
        ctx.oblige(ok)
        if not ok:
            ctx.violation(R, f_tv.short, cell, "outcome %r" % (out[0:2],))
    # who overrides the conversion
    want_over = {"gfa1": {"S", "E", "O", "H", "#"},
                 "gfa2": {"S", "L", "C", "P", "H", "#"}}
    default = {n: repo.cls("Line").find_method("_to_%s_a" % n)
               for n in ("gfa1", "gfa2")}
    for c in record_classes(repo):
        t = record_table(repo, c)
        if t.RECORD_TYPE is None:
            continue
        for ver in ("gfa1", "gfa2"):
            ctx.instance(R)
            m = c.find_method("_to_%s_a" % ver)
            own_version = {"L": "gfa1", "C": "gfa1", "P": "gfa1",
                           "E": "gfa2", "O": "gfa2", "U": "gfa2", "G": "gfa2",
                           "F": "gfa2", "\n": "gfa2"}.get(t.RECORD_TYPE)
            if t.RECORD_TYPE == "S":
                own_version = t.VERSION
            overridden = m is not default[ver]
            should = t.RECORD_TYPE in want_over[ver] and own_version != ver
            if t.RECORD_TYPE in ("H", "#"):
                should = True
            ok = overridden == should
            ctx.oblige(ok)
            if not ok:
                ctx.violation(R, c.short, "record=%r,to=%s" % (
                    t.RECORD_TYPE, ver),
                    "conversion to %s is %s; %s lines %s a counterpart" % (
                        ver, "overridden" if overridden else "the default "
                        "(empty)", t.RECORD_TYPE,
                        "have" if should else "have no"))
    gfacls = repo.cls("Gfa")
    for name in ("to_gfa1", "to_gfa2"):
        ctx.instance(R)
        f = ctx.anchor("Gfa.%s" % name, gfacls.find_method(name))
        calls = [n for n in ast.walk(f.node) if isinstance(n, ast.Call) and
                 isinstance(n.func, ast.Attribute) and n.func.attr == name]
        ok = len(calls) == 1 and any(
            k.arg == "raise_on_failure" and isinstance(k.value, ast.Constant)
            and k.value.value is False for k in calls[0].keywords)
        ctx.oblige(ok)
        if not ok:
            ctx.violation(R, f.short, "raise_on_failure",
                          "whole-graph conversion must convert each line "
                          "with raise_on_failure=False and skip lines "
                          "without counterpart")
    ctx.exhaustive[R] = True


class ConstCall(LineHooks):
    """getattr(self, "_to_<v>_a")() returns a fixed conversion"""

    def __init__(self, repo, conv):
        super().__init__(repo)
        self.conv = conv

    def function(self, ev, node, args, kwargs):
        if isinstance(node.func, ast.Name) and node.func.id == "getattr" and \
                len(args) == 2:
            conv = self.conv

            class K:
                pass
            from ..tables import Closure
            fn = ast.parse("def f():\n  return %r" % (
                ["G", "x"] if conv.startswith("fields") else [])).body[0]
            return Closure(fn, ev)
        return super().function(ev, node, args, kwargs)

    def construct(self, ev, cls, args, kwargs):
        if cls.name == "Line":
            if self.conv == "fields-refused":
                from ..tables import Raised
                raise Raised("gfapy.FormatError")
            return Abs(cls, label="converted", _args=args, _kwargs=kwargs)
        return super().construct(ev, cls, args, kwargs)

    def to_str(self, ev, v):
        return "<%s>" % v.label
