"""C03 -- the graph does not depend on the order of the lines.

Decided clauses: (a) every class of placeholder the library creates for a
forward reference is found by the duplicate search when its definition
arrives (by name, or for links by oriented segment pair); (b) every location
where a placeholder can be stored in a referring line is named by that line's
_backreference_keys, so the definition replaces it everywhere; (c) the
substitution of a placeholder imports its references, re-points every
referrer (whatever keys the placeholder collected), unregisters it and
registers the definition, in that order; the orientation recorded for a link
in a path flips exactly when the definition is the complement of the
placeholder.  Version inference across orders is decided under C13.
Not decided: equality of the graphs built from concrete permutations.
"""
import ast

from ..model import (AnalysisError, ClassInfo, record_classes, record_table,
                     unparse, dotted)
from ..tables import Abs, eval_function
from ..linehooks import LineHooks
from . import refgraph


def placeholder_classes(ctx):
    """classes constructed with virtual=True anywhere in the library"""
    repo = ctx.repo
    out = {}
    for f in repo.functions.values():
        for n in ast.walk(f.node):
            if isinstance(n, ast.Call) and any(
                    k.arg == "virtual" and isinstance(k.value, ast.Constant)
                    and k.value.value is True for k in n.keywords):
                ent = repo.resolve_expr(f.module, n.func) \
                    if dotted(n.func) else None
                if isinstance(ent, ClassInfo):
                    out.setdefault(ent, []).append(f.short)
                else:
                    out.setdefault(None, []).append(
                        "%s: %s" % (f.short, unparse(n.func)))
    return out


def run(ctx):
    repo = ctx.repo
    R = "C03.placeholders_findable"
    ctx.rule(R, "every class instantiated with virtual=True is reached by "
             "Finders._search_duplicate: a link through _search_link with the "
             "oriented segments and overlap of the new line, any other class "
             "through the lookup by name", floor=4)
    gfacls = repo.cls("Gfa")
    f_sd = ctx.anchor("Gfa._search_duplicate",
                      gfacls.find_method("_search_duplicate"))
    ph = placeholder_classes(ctx)
    unknown = ph.pop(None, [])
    ctx.notes["placeholder_constructors_not_resolved"] = unknown
    if len(ph) < 3:
        raise AnalysisError("anchor vanished: fewer than 3 placeholder "
                            "classes found")

    class SH(LineHooks):
        def before_inline(self, ev, func, args, kwargs):
            if func.name in ("_search_link", "line"):
                ev.events.append((func.name,) + tuple(
                    a.label if isinstance(a, Abs) else a for a in args[1:]))
                return "<found>"
            return NotImplemented
    for cls, where in sorted(ph.items(), key=lambda x: x[0].qualname):
        ctx.instance(R)
        t = record_table(repo, cls)
        g = Abs(gfacls, label="gfa")
        ln = Abs(cls, label="new", name="n", oriented_from="<of>",
                 oriented_to="<ot>", alignment="<al>")
        out = eval_function(repo, f_sd, [g, ln], hooks=SH(repo))
        if t.RECORD_TYPE == "L":
            ok = out[0] == "return" and out[1] == "<found>" and \
                ("_search_link", "<of>", "<ot>", "<al>") in out[2]
        else:
            ok = out[0] == "return" and out[1] == "<found>" and \
                ("line", "n") in out[2]
        ctx.oblige(ok)
        if not ok:
            ctx.violation(R, f_sd.short, "class=%s" % cls.name,
                          "a %s placeholder (created in %s) is not searched "
                          "for when its definition is connected: outcome %r, "
                          "lookups %r" % (cls.name, ", ".join(sorted(set(
                              where))[:3]), out[0:2], out[2]))
    ctx.exhaustive[R] = True
    prod = refgraph.producers(ctx)
    refgraph.rule_backreference_keys(ctx, "C03.backreference_keys", prod)
    refgraph.rule_substitution_sequence(ctx, "C03.substitution")
    refgraph.rule_removal_helpers(ctx, "C03.repointing_helpers")
    refgraph.rule_required_links(ctx, "C03.path_required_links")
    refgraph.rule_group_merge_tags(ctx, "C03.group_merge_tags")
