"""Helpers shared by the rule modules."""
import ast

from ..model import ClassInfo, External, AnalysisError, unparse, dotted
from ..tables import Abs


def error_root(repo):
    c = repo.gfapy("Error")
    if not isinstance(c, ClassInfo):
        raise AnalysisError("anchor vanished: gfapy.Error")
    return c


def resolve_exception(repo, module, name):
    """Entity for the dotted exception name used in module (str -> entity)."""
    try:
        node = ast.parse(name, mode="eval").body
    except SyntaxError:
        return None
    return repo.resolve_expr(module, node)


def is_library_error(repo, module, name):
    ent = resolve_exception(repo, module, name)
    return isinstance(ent, ClassInfo) and error_root(repo) in ent.mro


def fmt_point(pt):
    def f(v):
        if isinstance(v, Abs):
            if v.cls is not None and v.cls.name == "LastPos":
                return "%s$" % v.attrs.get("value")
            return v.label
        return str(v)
    return ",".join("%s=%s" % (k, f(v)) for k, v in pt.items())


def attr_reads_on(func, basename, names):
    """Attribute names in `names` read on Name(basename) inside func."""
    out = set()
    for n in ast.walk(func.node):
        if isinstance(n, ast.Attribute) and isinstance(n.value, ast.Name) and \
                n.value.id == basename and n.attr in names:
            out.add(n.attr)
    return out


def string_constants(func):
    return {n.value for n in ast.walk(func.node)
            if isinstance(n, ast.Constant) and isinstance(n.value, str)}
