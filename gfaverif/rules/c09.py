"""C09 -- identifiers are unique; lookup and renaming stay coherent.

Decided clauses: (a) who may insert into the registry: only connect (after the
duplicate search), the placeholder substitution (which replaces the found
line) and the rename path; the rename path performs no duplicate search
(known finding); (b) the set of record types stored under their name equals
the set the finders search by name; (c) the duplicate search reaches the name
lookup for every name-keyed record type; (d) the two tolerated merges only
merge a line of the same kind (same group record type; the complement link);
(e) fresh names: unused_name returns the successor of a counter that only
ever grows and that _register_line raises for every integer-looking name;
(f) the finder tables (line, segment, try_get_*).
Not decided: that lookups return the right line after arbitrary histories;
'changes nothing else' on rename.
"""
import ast
import itertools

from ..model import (AnalysisError, record_classes, record_table, class_const,
                     unparse, walk_no_nested)
from ..tables import Abs, eval_function, Unsupported
from ..linehooks import LineHooks
from .refgraph import SeqHooks
from .common import is_library_error


def callers_of(repo, method_name):
    out = {}
    for f in repo.functions.values():
        if not f.module.name.startswith("gfapy"):
            continue
        for n in walk_no_nested(f.node):
            if isinstance(n, ast.Call) and isinstance(n.func, ast.Attribute) \
                    and n.func.attr == method_name:
                out.setdefault(f, []).append(n)
    return out


def writers_of_attr(repo, attr):
    out = {}
    for f in repo.functions.values():
        for n in walk_no_nested(f.node):
            if isinstance(n, ast.Attribute) and n.attr == attr and \
                    isinstance(n.ctx, (ast.Store, ast.Del)):
                st = n
                while not isinstance(st, ast.stmt):
                    st = st._parent
                out.setdefault(f, []).append(unparse(st).split("\n")[0])
    return out


def run(ctx):
    repo = ctx.repo
    gfacls = repo.cls("Gfa")
    Line = repo.cls("Line")

    # ------------------------------------------------------------------
    R = "C09.registry_writers"
    ctx.rule(R, "the only functions that insert a line into the registry "
             "(_register_line) are Connection.connect -- after "
             "_search_duplicate found nothing --, "
             "VirtualToReal._substitute_virtual_line -- replacing the line "
             "the search found -- and the rename path of "
             "FieldData._set_existing_field, which must search for a "
             "duplicate of the new identifier first; the registry dictionary "
             "itself is only written by _register_line / _unregister_line / "
             "Gfa.__init__", floor=4)
    callers = callers_of(repo, "_register_line")
    allowed = {"line.common.connection.Connection.connect": "search",
               "line.common.virtual_to_real.VirtualToReal."
               "_substitute_virtual_line": "replace",
               "line.common.field_data.FieldData._set_existing_field":
               "rename"}
    for f, calls in sorted(callers.items(), key=lambda x: x[0].qualname):
        ctx.instance(R)
        kind = allowed.get(f.short)
        if kind is None:
            # another function may take the place of a registered line: it
            # unregisters a line it was given (the one the duplicate search
            # found) and then registers its receiver -- the shape of
            # _substitute_virtual_line; the identifier stays held once
            calls_ = [n for n in walk_no_nested(f.node)
                      if isinstance(n, ast.Call) and
                      isinstance(n.func, ast.Attribute) and
                      n.func.attr in ("_register_line", "_unregister_line")]
            calls_.sort(key=lambda n: (n.lineno, n.col_offset))
            swap = len(calls_) == 2 and \
                calls_[0].func.attr == "_unregister_line" and \
                calls_[1].func.attr == "_register_line" and \
                len(calls_[0].args) == 1 and len(calls_[1].args) == 1 and \
                isinstance(calls_[0].args[0], ast.Name) and \
                calls_[0].args[0].id in f.params[1:] and \
                isinstance(calls_[1].args[0], ast.Name) and \
                calls_[1].args[0].id == f.self_name and \
                f.cls is not None and f.cls is not gfacls and \
                gfacls not in f.cls.mro
            if swap:
                ctx.oblige(True)
                continue
            ctx.oblige(False)
            ctx.violation(R, f.short, "self._gfa._register_line(...)",
                          "registers a line without the duplicate search of "
                          "connect(): a second line could take an identifier "
                          "in use")
            continue
        if kind == "rename":
            # the new identifier must be searched before re-registering
            searches = [n for n in walk_no_nested(f.node)
                        if isinstance(n, ast.Call) and
                        isinstance(n.func, ast.Attribute) and
                        n.func.attr in ("_search_duplicate", "line",
                                        "try_get_line", "names")]
            ok = bool(searches)
            ctx.oblige(ok)
            if not ok:
                ctx.violation(
                    R, f.short, "rename: _unregister_line ... _register_line",
                    "renaming a connected line re-registers it under the new "
                    "identifier without checking that the identifier is "
                    "free: the line that carried it is silently dropped from "
                    "the registry")
        else:
            ctx.oblige(True)
    if len(callers) < 3:
        raise AnalysisError("anchor vanished: callers of _register_line")
    # decision table of the rename path
    seg1 = repo.cls("line.segment.GFA1")
    f_sef = ctx.anchor("Line._set_existing_field",
                       seg1.find_method("_set_existing_field"))
    PHc = repo.cls("Placeholder")
    for taken, newname in itertools.product(
            ["free", "other line", "placeholder line", "same line"],
            ["B", "*"]):
        ctx.instance(R)
        ln = Abs(seg1, label="line", vlevel=1, _data={"name": "A"},
                 _virtual=False, virtual=False)
        # the identifier may belong to a real line or to the placeholder of
        # a forward reference: both are registered, both must be refused
        other = Abs(seg1, label="other", _virtual=(taken == "placeholder line"),
                    virtual=(taken == "placeholder line"))
        found = {"free": None, "other line": other,
                 "placeholder line": other, "same line": ln}[taken]

        class RN(SeqHooks):
            def before_inline(self, ev, func, args, kwargs):
                # validation of the new value is C08's and C18's subject:
                # here the value is taken as valid and only the order of
                # the registry steps is decided
                if func.name == "_validate_gfa_field":
                    ev.events.append(("validate",))
                    return None
                if func.name in ("_field_or_default_datatype",
                                 "_field_datatype"):
                    return "Z"
                return super().before_inline(ev, func, args, kwargs)

            def method(self, ev, base, name, args, kwargs, node):
                if isinstance(base, Abs) and base.label == "gfa":
                    if name in ("line", "try_get_line", "_search_duplicate",
                                "segment"):
                        ev.events.append(("lookup", args[0]))
                        return found
                    if name in ("_register_line", "_unregister_line"):
                        ev.events.append((name,))
                        return None
                return super().method(ev, base, name, args, kwargs, node)
        gfa = Abs(gfacls, label="gfa", vlevel=1)
        ln.attrs["_gfa"] = gfa
        value = newname if newname != "*" else Abs(PHc, label="*",
                                                   __bool__=False)
        out = eval_function(repo, f_sef, [ln, "name", value],
                            hooks=RN(repo, []))
        evs = [e[0] for e in out[2]]
        if taken in ("other line", "placeholder line") and newname != "*":
            ok = out[0] == "raise" and str(out[1]).endswith("NotUniqueError") \
                and "_unregister_line" not in evs and \
                ln.attrs["_data"]["name"] == "A"
            want = "NotUniqueError before anything changes"
        else:
            ok = out[0] == "return" and \
                evs.count("_unregister_line") == 1 and \
                evs.count("_register_line") == 1 and \
                evs.index("_unregister_line") < evs.index("_register_line") \
                and ln.attrs["_data"]["name"] is value
            want = "unregister, store the new identifier, register"
        ctx.oblige(ok)
        if not ok:
            ctx.violation(R, f_sef.short,
                          "rename,new=%s,identifier=%s" % (newname, taken),
                          "outcome %r, steps %r; expected %s" % (
                              out[0:2], evs, want))
    # assignment through the class-level accessor of a field (line.name =
    # ..., line.sid = ...) takes the same path, whether or not the field
    # currently holds a value (it may have been cleared with None) and at
    # every validation level
    f_dfa = ctx.anchor("Line._define_field_accessors",
                       Line.find_method("_define_field_accessors"))
    setters = [n for n in ast.walk(f_dfa.node)
               if isinstance(n, ast.FunctionDef) and n.name == "set_method"]
    if len(setters) != 1 or f_dfa.nested.get("set_method") is None:
        raise AnalysisError("anchor vanished: the set_method closure of "
                            "_define_field_accessors")
    f_setm = f_dfa.nested["set_method"]
    for stored, vl in itertools.product((True, False), (0, 1, 3)):
        ctx.instance(R)
        data = {"name": "A"} if stored else {}
        ln = Abs(seg1, label="line", vlevel=vl, _data=data, _datatype={},
                 _virtual=False, virtual=False,
                 _gfa=Abs(gfacls, label="gfa", vlevel=vl))

        class AH(SeqHooks):
            def before_inline(self, ev, func, args, kwargs):
                if func.name == "_define_field_methods":
                    return None
                return super().before_inline(ev, func, args, kwargs)
        try:
            out = eval_function(repo, f_setm, [ln, "B", "name"],
                                hooks=AH(repo, ["_set_existing_field"]))
        except Unsupported as e:
            raise AnalysisError(str(e))
        evs = [e for e in out[2] if e[0] == "_set_existing_field"]
        ok = out[0] == "return" and len(evs) == 1 and \
            evs[0][1:3] == ("name", "B")
        ctx.oblige(ok)
        if not ok:
            ctx.violation(R, f_setm.short,
                          "accessor assignment,field %s,vlevel=%d" % (
                              "stored" if stored else "cleared", vl),
                          "outcome %r; _set_existing_field calls %r: the "
                          "assignment must go through the rename path "
                          "(duplicate search, unregister, register)" % (
                              out[0:2], evs))
    ctx.instance(R)
    w = writers_of_records(repo)
    okset = {"gfa.Gfa.__init__", "lines.creators.Creators._register_line",
             "lines.destructors.Destructors._unregister_line"}
    ok = set(w) <= okset
    ctx.oblige(ok)
    if not ok:
        ctx.violation(R, "writers of Gfa._records",
                      ",".join(sorted(set(w) - okset)),
                      "the registry is written outside _register_line / "
                      "_unregister_line: %r" % {k: v for k, v in w.items()
                                                if k not in okset})
    ctx.exhaustive[R] = True

    # ------------------------------------------------------------------
    R = "C09.lines_are_truthy"
    ctx.rule(R, "the result of the duplicate search and of the finders is "
             "tested by truth value (`if previous:`): no line class may "
             "define __bool__ or __len__, otherwise a found line can count "
             "as 'identifier free' (e.g. a group without items) and a second "
             "line is registered under the same identifier", floor=10)
    truth_tests = 0
    f_conn = ctx.anchor("Line.connect", Line.find_method("connect"))
    for n in walk_no_nested(f_conn.node):
        if isinstance(n, ast.If) and isinstance(n.test, ast.Name):
            truth_tests += 1
    for c in sorted(repo.classes.values(), key=lambda c: c.qualname):
        if Line not in c.mro:
            continue
        ctx.instance(R)
        bad = [m for m in ("__bool__", "__len__")
               if c.find_method(m) is not None]
        ok = not bad or truth_tests == 0
        ctx.oblige(ok)
        if not ok:
            ctx.violation(R, "class " + c.short, bad[0],
                          "%s makes instances of this line class falsy in "
                          "some states; Connection.connect tests the "
                          "duplicate search with `if previous:`" % bad[0])
    # the owner of a line is truth-tested too (`if self._gfa:` guards the
    # whole rename path of _set_existing_field): a Gfa that can be falsy
    # (empty, no segments, ...) would rename without the duplicate search and
    # without re-registering the line
    owner_tests = []
    for f in sorted(repo.functions.values(), key=lambda f: f.qualname):
        if f.cls is None or not (Line in f.cls.mro or f.cls in Line.mro or
                                 any(f.cls in c.mro for c in
                                     record_classes(repo))):
            continue
        for n in walk_no_nested(f.node):
            tests = []
            if isinstance(n, (ast.If, ast.While, ast.IfExp)):
                tests.append(n.test)
            if isinstance(n, ast.BoolOp):
                tests.extend(n.values)
            if isinstance(n, ast.UnaryOp) and isinstance(n.op, ast.Not):
                tests.append(n.operand)
            for t in tests:
                if isinstance(t, ast.Attribute) and t.attr in ("_gfa", "gfa") \
                        and isinstance(t.value, ast.Name) and \
                        t.value.id == f.self_name:
                    owner_tests.append(f.short)
    ctx.instance(R)
    bad = [m for m in ("__bool__", "__len__")
           if gfacls.find_method(m) is not None]
    ok = not bad or not owner_tests
    ctx.oblige(ok)
    if not ok:
        ctx.violation(R, "class " + gfacls.short, bad[0],
                      "%s makes a Gfa falsy in some states; %s test(s) the "
                      "owner of a line by truth value (`if self._gfa:`)" % (
                          bad[0], ", ".join(sorted(set(owner_tests))[:3])))
    ctx.exhaustive[R] = True

    # ------------------------------------------------------------------
    R = "C09.name_index"
    ctx.rule(R, "the record types whose lines are stored under their "
             "identifier (STORAGE_KEY 'name') are exactly the record types "
             "Finders.RECORDS_WITH_NAME searches by name, and for each of them "
             "_search_duplicate reaches the lookup by name", floor=10)
    finders = repo.cls("lines.finders.Finders")
    rwn = set(class_const(repo, finders, ctx.anchor(
        "Finders.RECORDS_WITH_NAME", finders.attrs.get("RECORDS_WITH_NAME"))))
    f_sd = ctx.anchor("Gfa._search_duplicate",
                      gfacls.find_method("_search_duplicate"))

    class SH(LineHooks):
        def before_inline(self, ev, func, args, kwargs):
            if func.name in ("_search_link", "line"):
                ev.events.append((func.name,))
                return None
            return NotImplemented
    for c in record_classes(repo):
        t = record_table(repo, c)
        if t.RECORD_TYPE is None:
            continue
        named = t.STORAGE_KEY == "name"
        ctx.instance(R)
        ok = named == (t.RECORD_TYPE in rwn)
        ctx.oblige(ok)
        if not ok:
            ctx.violation(
                R, "lines.finders.Finders", "record=%s" % t.RECORD_TYPE,
                "%s lines are %sstored under their identifier (%s) but "
                "RECORDS_WITH_NAME %s %r: %s" % (
                    t.RECORD_TYPE, "" if named else "not ", t.NAME_FIELD,
                    "lacks" if named else "lists", t.RECORD_TYPE,
                    "gfa.line(id) does not find them and an identifier in "
                    "use by such a line is not refused" if named else
                    "the lookup searches a collection that is not keyed by "
                    "name"))
        if named:
            ctx.instance(R)
            g = Abs(gfacls, label="gfa")
            ln = Abs(c, label="new", name="n", oriented_from="of",
                     oriented_to="ot", alignment="al")
            out = eval_function(repo, f_sd, [g, ln], hooks=SH(repo))
            ok = out[0] == "return" and ("line",) in out[2]
            ctx.oblige(ok)
            if not ok:
                ctx.violation(
                    R, f_sd.short, "record=%s" % t.RECORD_TYPE,
                    "the duplicate search of a %s line does not look its "
                    "identifier up (lookups: %r): an identifier already in "
                    "use is accepted" % (t.RECORD_TYPE,
                                         [e[0] for e in out[2]]))
    ctx.exhaustive[R] = True

    # ------------------------------------------------------------------
    R = "C09.tolerated_merges"
    ctx.rule(R, "SameID._process_not_unique merges a U/O line only into a "
             "line of the same record type and defers anything else to the "
             "default, which raises NotUniqueError; the default raises for "
             "every class that does not override it", floor=12)
    for gname in ("line.group.Ordered", "line.group.Unordered"):
        gc = repo.cls(gname)
        f = ctx.anchor("%s._process_not_unique" % gname,
                       gc.find_method("_process_not_unique"))
        for pc in record_classes(repo):
            pt = record_table(repo, pc)
            if pt.RECORD_TYPE is None:
                continue
            ctx.instance(R)
            prev = Abs(pc, label="prev", _gfa=Abs(gfacls, label="gfa"),
                       tagnames=[])
            ln = Abs(gc, label="new", items=[])
            # (the merge may call _substitute_virtual_line or spell out
            # its steps; what those steps must be is C02's subject)
            takeover = ["_substitute_virtual_line", "_import_references",
                        "_import_field_references",
                        "_update_field_backreferences",
                        "_import_nonfield_references",
                        "_update_nonfield_backreferences",
                        "_register_line", "_unregister_line"]
            stubs = ["_initialize_references", "_set_existing_field",
                     "_import_tags_of_previous_group_definition"] + takeover

            class PH(SeqHooks):
                def to_str(self, ev, v):
                    return "<%s>" % v.label
            out = eval_function(repo, f, [ln, prev], hooks=PH(repo, stubs))
            same = pt.RECORD_TYPE == record_table(repo, gc).RECORD_TYPE
            if same:
                ok = out[0] == "return" and \
                    any(e[0] in takeover for e in out[2])
            else:
                ok = out[0] == "raise" and \
                    str(out[1]).endswith("NotUniqueError") and \
                    not [e for e in out[2] if e[0] in stubs or
                         e[0] == "store"]
            ctx.oblige(ok)
            if not ok:
                ctx.violation(
                    R, f.short, "new=%s,previous=%s" % (gc.name, pc.name),
                    "outcome %r, steps %r; %s" % (
                        out[0:2], [e[0] for e in out[2]],
                        "a line of the same group type must be merged" if same
                        else "an identifier in use by another kind of line "
                        "must be refused with NotUniqueError before anything "
                        "is changed"))
    f_def = ctx.anchor("Connection._process_not_unique", repo.func(
        "gfapy.line.common.connection.Connection._process_not_unique"))
    for c in record_classes(repo):
        m = c.find_method("_process_not_unique")
        if m is f_def:
            continue
        ctx.instance(R)
        ok = c.name in ("Link", "Ordered", "Unordered")
        ctx.oblige(ok)
        if not ok:
            ctx.violation(R, m.short, "class=%s" % c.name,
                          "a new override of _process_not_unique tolerates "
                          "duplicates of %s lines" % c.name)
    ctx.instance(R)
    out = eval_function(repo, f_def, [Abs(Line, label="a"),
                                      Abs(Line, label="b")],
                        hooks=SeqHooks(repo, []))
    ok = out[0] == "raise" and str(out[1]).endswith("NotUniqueError")
    ctx.oblige(ok)
    if not ok:
        ctx.violation(R, f_def.short, "default",
                      "the default does not raise NotUniqueError")
    ctx.exhaustive[R] = True

    # ------------------------------------------------------------------
    R = "C09.fresh_names"
    ctx.rule(R, "_max_int_name is written only by Gfa.__init__ (0), by "
             "_register_line (raised to an integer-looking name greater than "
             "it, never lowered) and by unused_name (+1); unused_name returns "
             "the new value as a string", floor=6)
    # every store to the counter has one of three shapes: the initial 0 in
    # Gfa.__init__, an increment by a positive constant, or an assignment of
    # X dominated by the test `X > self._max_int_name` (it can only grow)
    ctx.instance(R)
    bad = []
    n_stores = 0
    for f in sorted(repo.functions.values(), key=lambda f: f.qualname):
        for n in walk_no_nested(f.node):
            if not (isinstance(n, ast.Attribute) and
                    n.attr == "_max_int_name" and
                    isinstance(n.ctx, (ast.Store, ast.Del))):
                continue
            n_stores += 1
            st = n
            path = []
            while not isinstance(st, ast.stmt):
                st = st._parent
            anc = getattr(st, "_parent", None)
            while anc is not None and not isinstance(
                    anc, (ast.FunctionDef, ast.AsyncFunctionDef)):
                path.append(anc)
                anc = getattr(anc, "_parent", None)
            ok_store = False
            if isinstance(st, ast.AugAssign) and isinstance(st.op, ast.Add) \
                    and isinstance(st.value, ast.Constant) and \
                    isinstance(st.value.value, int) and st.value.value > 0:
                ok_store = True
            elif isinstance(st, ast.Assign) and len(st.targets) == 1:
                val = st.value
                if f.name == "__init__" and isinstance(val, ast.Constant) \
                        and val.value == 0:
                    ok_store = True
                else:
                    me = unparse(st.targets[0])
                    v = unparse(val)
                    for a in path:
                        if isinstance(a, ast.If) and st in ast.walk(
                                ast.Module(body=a.body, type_ignores=[])):
                            conj = a.test.values if isinstance(
                                a.test, ast.BoolOp) and isinstance(
                                a.test.op, ast.And) else [a.test]
                            for c in conj:
                                t = unparse(c)
                                if t in ("%s > %s" % (v, me),
                                         "%s < %s" % (me, v)):
                                    ok_store = True
            if not ok_store:
                bad.append("%s: %s" % (f.short, unparse(st).split("\n")[0]))
    ok = not bad and n_stores >= 3
    ctx.oblige(ok)
    if not ok:
        ctx.violation(R, "writers of Gfa._max_int_name",
                      "; ".join(bad) or "fewer than three stores",
                      "a store to the fresh-name counter that is neither the "
                      "initial 0, an increment, nor guarded by `new > "
                      "counter`: lowering the counter lets unused_name() "
                      "return an identifier that is in use")
    f_reg = gfacls.find_method("_register_line")
    seg = repo.cls("line.segment.GFA1")

    class RH(LineHooks):
        def before_inline(self, ev, func, args, kwargs):
            if func.name == "_api_private_check_gfa_line":
                return None
            return NotImplemented
    for name, cur, want in (("12", 5, 12), ("12", 20, 20), ("012", 5, 12),
                            ("a12", 5, 5), ("7", 7, 7)):
        ctx.instance(R)
        g = Abs(gfacls, label="gfa", _records={"S": {}}, _max_int_name=cur)
        ln = Abs(seg, label="line", name=name, record_type="S")
        out = eval_function(repo, f_reg, [g, ln], hooks=RH(repo))
        ok = out[0] == "return" and g.attrs["_max_int_name"] == want and \
            g.attrs["_records"]["S"].get(name) is ln
        ctx.oblige(ok)
        if not ok:
            ctx.violation(R, f_reg.short, "name=%s,counter=%d" % (name, cur),
                          "counter becomes %r (expected %d)" % (
                              g.attrs["_max_int_name"], want))
    f_un = ctx.anchor("Gfa.unused_name", gfacls.find_method("unused_name"))
    ctx.instance(R)
    g = Abs(gfacls, label="gfa", _max_int_name=41)
    out = eval_function(repo, f_un, [g], hooks=LineHooks(repo))
    ok = out[0] == "return" and out[1] == "42" and \
        g.attrs["_max_int_name"] == 42
    ctx.oblige(ok)
    if not ok:
        ctx.violation(R, f_un.short, "counter=41",
                      "returns %r and leaves the counter at %r" % (
                          out[1], g.attrs["_max_int_name"]))
    ctx.exhaustive[R] = True

    # ------------------------------------------------------------------
    R = "C09.finders"
    ctx.rule(R, "Finders.line: a placeholder gives None, a Line instance is "
             "returned as it is, a string is looked up in every name-keyed "
             "collection and only there; segment() only looks among "
             "segments; try_get_line / try_get_segment raise NotFoundError "
             "(ValueError for the placeholder) instead of returning None",
             floor=10)
    f_line = ctx.anchor("Gfa.line", gfacls.find_method("line"))
    f_seg = ctx.anchor("Gfa.segment", gfacls.find_method("segment"))
    f_tl = ctx.anchor("Gfa.try_get_line", gfacls.find_method("try_get_line"))
    f_ts = ctx.anchor("Gfa.try_get_segment",
                      gfacls.find_method("try_get_segment"))
    recs = {rt: {} for rt in ("S", "L", "C", "P", "E", "G", "O", "U", "F",
                              "#", "\n")}
    for rt in sorted(rwn):
        recs.setdefault(rt, {})[("id_%s" % rt).replace("\n", "nl")] = \
            "<%s>" % rt
    recs["F"]["ext"] = {1: "<F>"}
    recs["#"][5] = "<#>"
    g = Abs(gfacls, label="gfa", _records=recs)
    PH = repo.cls("Placeholder")
    for rt in sorted(rwn):
        ctx.instance(R)
        key = ("id_%s" % rt).replace("\n", "nl")
        out = eval_function(repo, f_line, [g, key], hooks=LineHooks(repo))
        ok = out[0] == "return" and out[1] == "<%s>" % rt
        ctx.oblige(ok)
        if not ok:
            ctx.violation(R, f_line.short, "record=%r" % rt,
                          "line(%r) gives %r" % (key, out[1]))
    for arg, want in (("nobody", None), ("ext", None), ("*", None),
                      (Abs(PH, label="*", __bool__=False), None)):
        ctx.instance(R)
        out = eval_function(repo, f_line, [g, arg], hooks=LineHooks(repo))
        ok = out[0] == "return" and out[1] is want
        ctx.oblige(ok)
        if not ok:
            ctx.violation(R, f_line.short, "arg=%r" % (arg,),
                          "gives %r, expected %r" % (out[1], want))
    ctx.instance(R)
    inst = Abs(seg, label="inst", name="inst")
    out = eval_function(repo, f_line, [g, inst], hooks=LineHooks(repo))
    ok = out[0] == "return" and out[1] is inst
    ctx.oblige(ok)
    if not ok:
        ctx.violation(R, f_line.short, "arg=Line instance",
                      "gives %r" % (out[1],))
    for arg, want in (("id_S", "<S>"), ("id_E", None), ("nobody", None)):
        ctx.instance(R)
        out = eval_function(repo, f_seg, [g, arg], hooks=LineHooks(repo))
        ok = out[0] == "return" and out[1] == want
        ctx.oblige(ok)
        if not ok:
            ctx.violation(R, f_seg.short, "arg=%r" % arg,
                          "gives %r, expected %r" % (out[1], want))
    for f, arg, want in ((f_tl, "nobody", "NotFoundError"),
                         (f_tl, "*", "ValueError"),
                         (f_ts, "nobody", "NotFoundError"),
                         (f_tl, "id_S", None), (f_ts, "id_S", None)):
        ctx.instance(R)
        out = eval_function(repo, f, [g, arg], hooks=LineHooks(repo))
        if want:
            ok = out[0] == "raise" and str(out[1]).endswith(want) and \
                is_library_error(repo, f.module, out[1])
        else:
            ok = out[0] == "return" and out[1] == "<S>"
        ctx.oblige(ok)
        if not ok:
            ctx.violation(R, f.short, "arg=%r" % arg,
                          "outcome %r, expected %s" % (out[0:2], want))
    ctx.exhaustive[R] = True


def writers_of_records(repo):
    """functions that store into / delete from self._records[...]"""
    out = {}
    for f in repo.functions.values():
        if not f.module.name.startswith("gfapy"):
            continue
        for n in walk_no_nested(f.node):
            hit = None
            if isinstance(n, (ast.Assign, ast.AugAssign, ast.Delete)):
                targets = n.targets if not isinstance(n, ast.AugAssign) \
                    else [n.target]
                for t in targets:
                    if "_records" in unparse(t):
                        hit = unparse(n).split("\n")[0]
            elif isinstance(n, ast.Call) and isinstance(n.func, ast.Attribute) \
                    and n.func.attr in ("pop", "clear", "update", "popitem",
                                        "setdefault") and \
                    "_records" in unparse(n.func.value):
                hit = unparse(n)
            elif isinstance(n, ast.Call) and isinstance(n.func, ast.Attribute) \
                    and n.func.attr == "pop" and \
                    isinstance(n.func.value, ast.Name) and \
                    n.func.value.id == "collection":
                hit = unparse(n)
            if hit:
                out.setdefault(f.short, []).append(hit)
    return out
