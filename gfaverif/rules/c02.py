"""C02 -- the reference graph stays closed and symmetric under every mutation
history.

Decided clauses: (a) no live back-reference list is iterated while the loop
body can shrink it (interprocedural size-change analysis); (b) every
back-reference key reference initialisation can file on a class is declared by
that class; (c) connect / disconnect perform their steps in the order that
keeps the graph consistent; (d) the removal helpers reach every shape of
reference and turn every reference of a removed line into an identifier;
(e) every location where a line can be stored in another line is named by that
line's _backreference_keys, so re-pointing finds it.
Not decided: that lookups by current identifier succeed after arbitrary
histories, anything that depends on which objects alias at run time.
"""
from . import refgraph


def run(ctx):
    refgraph.rule_iter(ctx, "C02.live_iteration")
    refgraph.rule_identity_membership(ctx, "C02.identity_membership")
    prod = refgraph.rule_refkeys(ctx, "C02.refkey_declared")
    refgraph.rule_connect_sequence(ctx, "C02.connect_disconnect_order")
    refgraph.rule_removal_helpers(ctx, "C02.removal_helpers")
    refgraph.rule_backreference_keys(ctx, "C02.backreference_keys", prod)
    refgraph.rule_group_merge_mentions(ctx, "C02.group_merge_mentions")
    ctx.assume("lines found in the state (fields, back-references) of an "
               "element of X's back-reference list may be X itself (shape "
               "invariant of the reference graph used by the ITER rule)")
