"""C20 -- tag values set through the API are written and read back unchanged.

Decided clauses: for the seven tag datatypes the language of validate_encoded
equals the reference grammar (all strings); the default-datatype table of
Field._get_default_gfa_tag_datatype; NumericArray.SUBTYPE_RANGE and the
smallest-subtype table of integer_type / compute_subtype on every boundary
value; per encode branch the output language of the Python primitive it uses
(str(int), str(float), json.dumps, hex upper case, str(NumericArray)) is
included in the validated language, or validate_decoded reports the values that
are not; what a decoder returns is accepted by the encoder of the same
datatype; at vlevel >= 2 field_to_s validates what it is about to write.
Not decided: decode(encode(v)) == v on concrete values.
"""
import ast
import itertools

from .. import spec, rx, codec
from ..model import AnalysisError, class_const, unparse, dotted
from ..tables import Abs, Unsupported, eval_function
from ..linehooks import LineHooks
from .c04 import reference_language
from .common import is_library_error

# output languages of the Python primitives the encoders use (CPython 3:
# int.__str__, float.__repr__ for finite values, json.dumps with
# ensure_ascii=True, binascii.hexlify(...).upper())
PY_INT_STR = r"-?[0-9]+"
PY_FLOAT_STR = r"-?[0-9]+(\.[0-9]+)?(e[-+][0-9]+)?"
PY_JSON_DUMPS_CONTAINER = r"[\[{][ -~]*[\]}]"
PY_HEX_UPPER = r"([0-9A-F][0-9A-F])+"          # non-empty byte string
PY_NUMARRAY_STR = r"[CSI](,[0-9]+)+|[csi](,-?[0-9]+)+|f(,%s)+" % PY_FLOAT_STR


class TagHooks(LineHooks):
    def function(self, ev, node, args, kwargs):
        if isinstance(node.func, ast.Name) and node.func.id == "getattr" and \
                len(args) >= 2:
            o, a = args[0], args[1]
            if isinstance(o, Abs):
                if a in o.attrs:
                    return o.attrs[a]
                if o.cls is not None:
                    m = o.cls.find_method(a)
                    if m is not None:
                        return ("bound", m, o)
                return args[2] if len(args) > 2 else None
            # anything else (concrete values, rule-supplied stand-ins): the
            # evaluator's own getattr
            return NotImplemented
        return super().function(ev, node, args, kwargs)


def run(ctx):
    repo = ctx.repo
    fm = codec.field_modules(repo)
    hooks = TagHooks(repo)

    # ------------------------------------------------------------------
    R = "C20.tag_grammar"
    ctx.rule(R, "for each of the seven tag datatypes A,i,f,Z,J,H,B the language "
             "of validate_encoded equals the reference grammar (DFA equality, "
             "all strings)", floor=7)
    langs = {}
    for letter, modname in spec.TAG_DATATYPES.items():
        ctx.instance(R)
        m = ctx.anchor("FIELD_MODULE[%s]" % letter, fm.get(letter))
        if not m.name.endswith("." + modname):
            ctx.oblige(False)
            ctx.violation(R, "field.field.Field", "FIELD_MODULE[%s]" % letter,
                          "maps to %s, expected %s" % (m.name, modname))
            continue
        f = ctx.anchor("%s.validate_encoded" % modname,
                       codec.module_func(repo, m, "validate_encoded"))
        try:
            lang, residual, regexes = codec.accept_language(repo, f)
        except Unsupported as e:
            raise AnalysisError(str(e))
        langs[letter] = lang
        ref = reference_language(spec.GRAMMAR[modname])
        same, w, side = lang.equals(ref)
        ctx.oblige(same)
        if not same:
            ctx.violation(R, f.short, "datatype=%s" % letter,
                          "validate_encoded %s %r, the grammar %s it" % (
                              "accepts" if side == "left" else "rejects", w,
                              "rejects" if side == "left" else "accepts"))
    ctx.exhaustive[R] = True

    # ------------------------------------------------------------------
    R = "C20.default_datatype"
    ctx.rule(R, "Field._get_default_gfa_tag_datatype: int->i, float->f, str->Z, "
             "dict->J, list of ints or of floats->B, other list->J, "
             "NumericArray->B, ByteArray->H, FieldArray->its own datatype",
             floor=10)
    fieldcls = repo.cls("Field")
    f_def = ctx.anchor("Field._get_default_gfa_tag_datatype",
                       fieldcls.find_method("_get_default_gfa_tag_datatype"))
    NA = repo.cls("NumericArray")
    BA = repo.cls("ByteArray")
    FA = repo.cls("FieldArray")
    cases = [("int", 5, "i"), ("bool", True, "i"), ("float", 1.5, "f"),
             ("str", "x", "Z"), ("dict", {"a": 1}, "J"),
             ("list of int", [1, 2], "B"), ("list of float", [1.5, 2.5], "B"),
             ("mixed list", [1, "a"], "J"), ("nested list", [[1]], "J"),
             ("NumericArray", Abs(NA, label="na"), "B"),
             ("ByteArray", Abs(BA, label="ba"), "H"),
             ("FieldArray(i)", Abs(FA, label="fa", _datatype="i",
                                   datatype="i"), "i")]
    for name, v, want in cases:
        ctx.instance(R)
        out = eval_function(repo, f_def, [v], hooks=hooks)
        ok = out[0] == "return" and out[1] == want
        ctx.oblige(ok)
        if not ok:
            ctx.violation(R, f_def.short, "value=%s" % name,
                          "default datatype %r, expected %s" % (out[1], want))
    ctx.exhaustive[R] = True

    # ------------------------------------------------------------------
    R = "C20.subtype"
    ctx.rule(R, "NumericArray.SUBTYPE_RANGE is {C:[0,2^8) S:[0,2^16) "
             "I:[0,2^32) c:[-2^7,2^7) s:[-2^15,2^15) i:[-2^31,2^31)}; "
             "integer_type((min,max)) returns the smallest subtype holding "
             "the range (unsigned when min >= 0) and raises ValueError when "
             "none does, for all pairs of boundary values; compute_subtype "
             "gives f for floats and refuses mixed contents", floor=150)
    want_ranges = {"C": (0, 2 ** 8), "S": (0, 2 ** 16), "I": (0, 2 ** 32),
                   "c": (-2 ** 7, 2 ** 7), "s": (-2 ** 15, 2 ** 15),
                   "i": (-2 ** 31, 2 ** 31)}
    got = class_const(repo, NA, ctx.anchor("NumericArray.SUBTYPE_RANGE",
                                           NA.attrs.get("SUBTYPE_RANGE")))
    ctx.instance(R)
    ok = {k: tuple(v) for k, v in got.items()} == want_ranges
    ctx.oblige(ok)
    if not ok:
        ctx.violation(R, NA.short, "SUBTYPE_RANGE",
                      "is %r, the specification says %r" % (got, want_ranges))
    f_it = ctx.anchor("NumericArray.integer_type",
                      NA.find_method("integer_type"))
    bounds = sorted({x for k in (7, 8, 15, 16, 31, 32)
                     for x in (2 ** k - 1, 2 ** k, 2 ** k + 1,
                               -2 ** k - 1, -2 ** k, -2 ** k + 1)} |
                    {0, 1, -1})

    def ref_subtype(lo, hi):
        order = ["C", "S", "I"] if lo >= 0 else ["c", "s", "i"]
        for st in order:
            a, b = want_ranges[st]
            if a <= lo and hi < b:
                return st
        return None
    n_cells = 0
    for lo, hi in itertools.product(bounds, bounds):
        if lo > hi:
            continue
        ctx.instance(R)
        n_cells += 1
        out = eval_function(repo, f_it, [(lo, hi)], hooks=hooks)
        ref = ref_subtype(lo, hi)
        if ref is None:
            ok = out[0] == "raise" and str(out[1]).endswith("ValueError") and \
                is_library_error(repo, f_it.module, out[1])
        else:
            ok = out[0] == "return" and out[1] == ref
        ctx.oblige(ok)
        if not ok:
            ctx.violation(R, f_it.short, "range=(%d,%d)" % (lo, hi),
                          "gives %r, the smallest subtype is %s" % (
                              out[1], ref or "none (ValueError)"))
    f_cs = ctx.anchor("NumericArray.compute_subtype",
                      NA.find_method("compute_subtype"))
    for arr, want in (([1.5, 2.0], "f"), ([1, 2, 300], "S"), ([-1, 5], "c"),
                      ([1, 1.5], "!ValueError"), ([1, "a"], "!ValueError"),
                      ([0, 255], "C"), ([0, 256], "S"), ([-129, 0], "s"),
                      ([], "?")):
        ctx.instance(R)
        out = eval_function(repo, f_cs, [arr], hooks=hooks)
        if want == "?":
            # an empty array (the text `xx:B:C` decodes to one): any subtype
            # or a library error, never a foreign exception (min() / max()
            # of an empty sequence)
            ok = out[0] == "return" or (out[0] == "raise" and
                                        is_library_error(repo, f_cs.module,
                                                         out[1]))
        elif want.startswith("!"):
            ok = out[0] == "raise" and str(out[1]).endswith(want[1:])
        else:
            ok = out[0] == "return" and out[1] == want
        ctx.oblige(ok)
        if not ok:
            ctx.violation(R, f_cs.short, "array=%r" % (arr,),
                          "gives %r, expected %s" % (out[1], want))
    # from_string range-checks every element unless told the text is valid
    f_fs = ctx.anchor("NumericArray.from_string", NA.find_method("from_string"))

    class NAList(list):
        """a NumericArray under interpretation: a list that can carry
        attributes and whose other methods are those of the class"""

    class FSHooks(TagHooks):
        def construct(self, ev, cls, args, kwargs):
            if cls is NA:
                return NAList(args[0] if args else [])
            return super().construct(ev, cls, args, kwargs)

        def method(self, ev, base, name, args, kwargs, node):
            return super().method(ev, base, name, args, kwargs, node)
    for text, valid, want in (
            ("C,1,255", False, [1, 255]), ("C,256", False, "!ValueError"),
            ("c,-128,127", False, [-128, 127]), ("c,128", False, "!ValueError"),
            ("c,-129", False, "!ValueError"), ("S,65535", False, [65535]),
            ("S,65536", False, "!ValueError"), ("I,-1", False, "!ValueError"),
            ("i,2147483647", False, [2147483647]),
            ("i,2147483648", False, "!ValueError"),
            ("f,1.5,2", False, [1.5, 2.0]), ("x,1", False, "!TypeError"),
            ("", False, "!FormatError"), ("C,1,", False, "!FormatError"),
            ("C,a", False, "!ValueError"), ("C,256", True, [256])):
        ctx.instance(R)
        out = eval_function(repo, f_fs, [NA, text], {"valid": valid},
                            hooks=FSHooks(repo))
        if isinstance(want, str):
            ok = out[0] == "raise" and str(out[1]).endswith(want[1:]) and \
                is_library_error(repo, f_fs.module, out[1])
        else:
            ok = out[0] == "return" and isinstance(out[1], NAList) and \
                list(out[1]) == want
        ctx.oblige(ok)
        if not ok:
            ctx.violation(R, f_fs.short, "text=%r,valid=%s" % (text, valid),
                          "gives %r, expected %s" % (out[1], want))
    # the subtype written is the smallest one holding the array *as it is
    # now*: an array parsed from text and then edited in place (append,
    # element assignment), or parsed with a wider subtype than needed, is
    # written with the subtype of its present content
    class HistHooks(TagHooks):
        def construct(self, ev, cls, args, kwargs):
            if cls is NA:
                return NAList(args[0] if args else [])
            return super().construct(ev, cls, args, kwargs)

        def method(self, ev, base, name, args, kwargs, node):
            if isinstance(base, NAList):
                m = NA.find_method(name)
                if m is not None:
                    return ev.inline(m, [base] + list(args), kwargs)
            return super().method(ev, base, name, args, kwargs, node)
    for text, edit, want in (
            ("C,1,2,3", lambda a: a.append(300), "S"),
            ("C,1,2,3", lambda a: a.__setitem__(0, -1), "c"),
            ("I,7,8", lambda a: None, "C"),
            ("i,-1,5", lambda a: a.__setitem__(0, 70000), "I"),
            ("S,1000", lambda a: a.extend([1.5]), "!ValueError")):
        ctx.instance(R)
        out = eval_function(repo, f_fs, [NA, text], {"valid": False},
                            hooks=HistHooks(repo))
        arr = out[1] if out[0] == "return" else None
        if not isinstance(arr, NAList):
            ok, got = False, out[0:2]
        else:
            edit(arr)
            out2 = eval_function(repo, f_cs, [arr], hooks=HistHooks(repo))
            got = out2[0:2]
            if want.startswith("!"):
                ok = out2[0] == "raise" and str(out2[1]).endswith(want[1:])
            else:
                ok = out2[0] == "return" and out2[1] == want
        ctx.oblige(ok)
        if not ok:
            ctx.violation(R, f_cs.short, "parsed %r then edited to %r" % (
                text, list(arr) if arr is not None else None),
                "compute_subtype gives %r, expected %s" % (got, want))
    ctx.exhaustive[R] = True
    ctx.sample({"rule": R, "boundary_values": bounds[:8] + ["..."],
                "integer_type_cells": n_cells})

    # ------------------------------------------------------------------
    R = "C20.encode_output"
    ctx.rule(R, "per tag datatype and encodable value class: the text the "
             "encoder produces with its Python primitive lies in the language "
             "validate_encoded accepts; values the primitive spells outside "
             "the grammar (non-finite floats, empty arrays) are reported by "
             "validate_decoded", floor=8)
    outputs = [("i", "int", PY_INT_STR), ("f", "int", PY_INT_STR),
               ("f", "float", PY_FLOAT_STR),
               ("J", "list/dict", PY_JSON_DUMPS_CONTAINER),
               ("H", "ByteArray", PY_HEX_UPPER),
               ("B", "NumericArray", PY_NUMARRAY_STR)]
    for letter, cls, regex in outputs:
        ctx.instance(R)
        if letter not in langs:
            continue
        out_lang = rx.strict(regex)
        ok, w = out_lang.subset_of(langs[letter])
        ctx.oblige(ok)
        if not ok:
            ctx.violation(R, "field.%s.validate_encoded" %
                          spec.TAG_DATATYPES[letter],
                          "datatype=%s,value=%s" % (letter, cls),
                          "the encoder can produce %r for a %s, which "
                          "validate_encoded of the same datatype rejects" % (
                              w, cls))
    # the output language assumed for J is that of json.dumps with its
    # default ASCII escaping: every json.dumps call of the J module keeps it
    # (ensure_ascii=False would write non-ASCII characters, which the tag
    # grammar excludes, for any value containing one)
    jm = fm["J"]
    for fn in sorted(jm.functions.values(), key=lambda f: f.qualname):
        for n in ast.walk(fn.node):
            if isinstance(n, ast.Call) and dotted(n.func) == "json.dumps":
                ctx.instance(R)
                bad = [k.arg for k in n.keywords
                       if k.arg in ("ensure_ascii", "separators", "indent",
                                    "default", "cls", None) and not (
                           k.arg == "ensure_ascii" and
                           isinstance(k.value, ast.Constant) and
                           k.value.value is True)]
                ok = not bad
                ctx.oblige(ok)
                if not ok:
                    ctx.violation(R, fn.short, unparse(n)[:60],
                                  "json.dumps is called with %s: its output "
                                  "is no longer within the printable-ASCII "
                                  "JSON the J grammar accepts (e.g. for the "
                                  "value {'n': 'caf\u00e9'})" % ", ".join(
                                      str(b) for b in bad))
    # unrepresentable values must be reported by validate_decoded
    fl = fm["f"]
    f_vd = ctx.anchor("float.validate_decoded",
                      codec.module_func(repo, fl, "validate_decoded"))

    class MathHooks(TagHooks):
        def function(self, ev, node, args, kwargs):
            if dotted(node.func) == "math.isfinite" and len(args) == 1:
                import math
                return math.isfinite(args[0])
            return super().function(ev, node, args, kwargs)
    for v, bad in ((float("inf"), True), (float("-inf"), True),
                   (float("nan"), True), (1.5, False), (0.0, False), (3, False)):
        ctx.instance(R)
        out = eval_function(repo, f_vd, [v], hooks=MathHooks(repo))
        ok = (out[0] == "raise" and is_library_error(repo, f_vd.module, out[1])
              ) if bad else out[0] == "return"
        ctx.oblige(ok)
        if not ok:
            ctx.violation(R, f_vd.short, "value=%r" % v,
                          "outcome %r; non-finite floats have no "
                          "representation and must be reported" % (out[0:2],))
    for clsname, meth in (("NumericArray", "validate"), ("ByteArray",
                                                         "validate")):
        ctx.instance(R)
        c = repo.cls(clsname)
        f = ctx.anchor("%s.validate" % clsname, c.find_method(meth))

        class SelfHooks(TagHooks):
            # the receiver is modelled by a concrete empty list: its other
            # methods are those of the class under analysis
            def method(self, ev, base, name, args, kwargs, node, c=c):
                if base == [] and isinstance(base, list):
                    m = c.find_method(name)
                    if m is not None:
                        return ev.inline(m, [base] + list(args), kwargs)
                return super().method(ev, base, name, args, kwargs, node)
        out = eval_function(repo, f, [[]], hooks=SelfHooks(repo))
        ok = out[0] == "raise" and is_library_error(repo, f.module, out[1])
        ctx.oblige(ok)
        if not ok:
            ctx.violation(R, f.short, "value=empty",
                          "an empty %s (no representation in the grammar) is "
                          "not reported by validate()" % clsname)
    ctx.exhaustive[R] = True

    # ------------------------------------------------------------------
    R = "C20.decode_encode_types"
    ctx.rule(R, "for each tag datatype: every class the decoder can return is "
             "accepted by the encoder and by validate_decoded of the same "
             "datatype (a value read from a file can be written back)",
             floor=8)
    for letter, modname in spec.TAG_DATATYPES.items():
        m = fm[letter]
        dec = codec.module_func(repo, m, "decode")
        enc = codec.module_func(repo, m, "encode")
        types = codec.return_types(repo, dec)
        rejected = []
        for t in sorted(types):
            if t == "?":
                continue
            ctx.instance(R)
            acc = codec.accepts_type(repo, enc, codec.sample_value(repo, t))
            if acc is None:
                ctx.undecided.append("%s %s encode(%s) not followed" % (
                    R, letter, t))
                continue
            ctx.oblige(acc)
            if not acc:
                rejected.append(t)
        if rejected:
            ctx.violation(R, enc.short, "datatype=%s,classes=%s" % (
                letter, "+".join(rejected)),
                "%s.decode can return %s, which encode of the same datatype "
                "rejects with TypeError (the tag is written as '# INVALID')"
                % (modname, ", ".join(rejected)))
    ctx.exhaustive[R] = True

    # ------------------------------------------------------------------
    R = "C20.encode_validate_types"
    ctx.rule(R, "for each tag datatype: a value class the encoder accepts "
             "(so the tag can be written) passes the type gate of "
             "validate_decoded, or is refused there with a gfapy error -- "
             "never with a foreign exception", floor=12)
    for letter, modname in spec.TAG_DATATYPES.items():
        m = fm[letter]
        enc = codec.module_func(repo, m, "encode")
        vd = codec.module_func(repo, m, "validate_decoded")
        # (a str is validated as encoded text by Field._validate_gfa_field,
        # never by validate_decoded)
        for t in ("int", "float", "list", "dict", "NumericArray",
                  "ByteArray", "Placeholder", "bool", "NoneType"):
            v = codec.sample_value(repo, t)
            if codec.gate_outcome(repo, enc, v) != "accept":
                continue
            ctx.instance(R)
            got = codec.gate_outcome(repo, vd, v)
            if got is None:
                ctx.error("%s %s.validate_decoded(%s): the evaluator cannot "
                          "follow it" % (R, modname, t))
                continue
            ok = not got.startswith("foreign:")
            ctx.oblige(ok)
            if not ok:
                ctx.violation(R, vd.short, "datatype=%s,class=%s" % (letter, t),
                              "%s.encode accepts a %s, but validate_decoded "
                              "of the same datatype fails on it with %s" % (
                                  modname, t, got[8:]))
    ctx.exhaustive[R] = True

    # ------------------------------------------------------------------
    rule_write_time_validation(ctx, "C20.write_time_validation")

    # ------------------------------------------------------------------
    R = "C20.delete_forgets_datatype"
    ctx.rule(R, "FieldData.delete removes the value of a tag and its cached / "
             "declared datatype, returns the value, and does nothing for an "
             "absent tag: a tag set again later takes the default datatype "
             "of its new value, not the datatype of the deleted one",
             floor=4)
    seg1 = repo.cls("line.segment.GFA1")
    f_del = ctx.anchor("Line.delete", seg1.find_method("delete"))
    for connected, has_dt, present in itertools.product(
            (False, True), (False, True), (True, False)):
        ctx.instance(R)
        data = {"name": "a", "sequence": "*"}
        if present:
            data["xx"] = 1.5
        dts = {"xx": "f"} if (has_dt and present) else {}
        g = Abs(repo.cls("Gfa"), label="gfa") if connected else None
        ln = Abs(seg1, label="line", vlevel=1, _gfa=g, _data=data,
                 _datatype=dts, tagnames=[k for k in data
                                          if k not in ("name", "sequence")],
                 _virtual=False)
        out = eval_function(repo, f_del, [ln, "xx"], hooks=TagHooks(repo))
        ok = out[0] == "return" and "xx" not in ln.attrs["_data"] and \
            "xx" not in ln.attrs["_datatype"] and \
            out[1] == (1.5 if present else None) and \
            ln.attrs["_data"].get("name") == "a"
        ctx.oblige(ok)
        if not ok:
            ctx.violation(R, f_del.short,
                          "connected=%s,datatype_declared=%s,present=%s" % (
                              connected, has_dt, present),
                          "outcome %r; afterwards _data has %r and _datatype "
                          "has %r" % (out[0:2], sorted(ln.attrs["_data"]),
                                      ln.attrs["_datatype"]))
    ctx.exhaustive[R] = True
    # ------------------------------------------------------------------
    from .c13 import rule_segment_tag_scan
    rule_segment_tag_scan(ctx, "C20.segment_tag_scan")
    from .refgraph import rule_group_merge_tags
    rule_group_merge_tags(ctx, "C20.group_merge_tags")

    # ------------------------------------------------------------------
    R = "C20.tag_names_not_class_members"
    ctx.rule(R, "a tag is stored by installing an accessor of its name on "
             "the line instance: no class in the hierarchy of the line "
             "classes (record classes, their mixins, Line itself) defines a "
             "method, property or class attribute whose name is a valid tag "
             "name (letter + letter/digit) -- a read-only property of that "
             "name would make set('<name>', v) fail with AttributeError and "
             "a method would be shadowed by the tag", floor=40)
    import re as _re2
    from ..model import record_classes as _rc
    shape2 = _re2.compile(r"^[A-Za-z][A-Za-z0-9]$")
    line_root = repo.cls("Line")
    family = [c for c in repo.classes.values()
              if line_root in c.mro or c in line_root.mro or
              any(c in k.mro for k in _rc(repo))]
    for c in sorted(family, key=lambda c: c.qualname):
        ctx.instance(R)
        names = sorted(n for n in list(c.methods) + list(c.attrs) +
                       list(getattr(c, "generated", {})) +
                       list(getattr(c, "setters", {}))
                       if shape2.match(n))
        ok = not names
        ctx.oblige(ok)
        if not ok:
            ctx.violation(R, "class " + c.short, "member %s" % names[0],
                          "the class defines %r, which is also a valid tag "
                          "name: line.set(%r, v) / a parsed %s:Z:... tag "
                          "collides with it" % (names, names[0], names[0]))
    ctx.exhaustive[R] = True

    # ------------------------------------------------------------------
    R = "C20.tag_names_not_aliased"
    ctx.rule(R, "set() resolves a FIELD_ALIAS key before it considers a new "
             "custom tag, so a tag-shaped alias makes that tag name "
             "unsettable on the record type (the value goes to the aliased "
             "field). The tag-shaped aliases are exactly the reviewed ones: "
             "LN -> slen on GFA2 segments (LN is the GFA1 name of the segment "
             "length and is predefined there)", floor=10)
    import re as _re
    from ..model import record_classes, record_table
    REVIEWED_TAG_ALIASES = {("GFA2", "S", "LN", "slen")}
    shape = _re.compile(r"^[A-Za-z][A-Za-z0-9]$")
    for c in record_classes(repo):
        t = record_table(repo, c)
        ctx.instance(R)
        bad = sorted((a, tg) for a, tg in (t.FIELD_ALIAS or {}).items()
                     if shape.match(a) and a not in (t.POSFIELDS or []) and
                     (c.name, t.RECORD_TYPE, a, tg) not in REVIEWED_TAG_ALIASES)
        ok = not bad
        ctx.oblige(ok)
        if not ok:
            ctx.violation(R, c.short, "FIELD_ALIAS %r" % (bad,),
                          "line.set(%r, v) no longer creates the tag %s on a "
                          "%s line: the value is stored in the field %s" % (
                              bad[0][0], bad[0][0], t.RECORD_TYPE, bad[0][1]))
    ctx.exhaustive[R] = True
    ctx.assume("output languages of str(int), repr(float) for finite values, "
               "json.dumps (ensure_ascii) of a list/dict, upper-cased hexlify "
               "are the regular expressions PY_* of rules/c20.py (CPython 3)")


def rule_write_time_validation(ctx, R):
    """shared by C18 (threshold of write-time validation) and C20"""
    repo = ctx.repo
    ctx.rule(R, "Writer.field_to_s validates the text it is about to return "
             "when vlevel >= 2 (and not below), for values already stored as "
             "strings and for encoded objects", floor=8)
    line = repo.cls("line.segment.GFA1")
    f_fts = ctx.anchor("Writer.field_to_s", line.find_method("field_to_s"))

    class WH(LineHooks):
        def before_inline(self, ev, func, args, kwargs):
            if func.name == "_validate_gfa_field":
                ev.events.append(("validate", args[0]))
                return None
            if func.name == "_to_gfa_field":
                ev.events.append(("encode", args[0]))
                return "<encoded>"
            if func.name == "_to_gfa_tag":
                return "xx:i:<encoded>"
            if func.name == "_field_or_default_datatype":
                return "i"
            return NotImplemented
    for vl, stored, tag in itertools.product([0, 1, 2, 3], ["12", 12],
                                             [False, True]):
        ctx.instance(R)
        ln = Abs(line, label="line", vlevel=vl, _data={"xx": stored})
        out = eval_function(repo, f_fts, [ln, "xx"], {"tag": tag},
                            hooks=WH(repo))
        vals = [e[1] for e in out[2] if e[0] == "validate"]
        want_text = "12" if isinstance(stored, str) else "<encoded>"
        ok = out[0] == "return" and \
            (vals == [want_text] if vl >= 2 else vals == [])
        ctx.oblige(ok)
        if not ok:
            ctx.violation(R, f_fts.short,
                          "vlevel=%d,stored=%s,tag=%s" % (
                              vl, type(stored).__name__, tag),
                          "validated %r; expected %s" % (
                              vals, [want_text] if vl >= 2 else "nothing"))
    # every write validates what is stored *then*: write, assign through the
    # accessor (which calls _set_existing_field), write again
    f_sef = ctx.anchor("Line._set_existing_field",
                       line.find_method("_set_existing_field"))
    for vl, tag in itertools.product([2, 3], [False, True]):
        ctx.instance(R)
        ln = Abs(line, label="line", vlevel=vl, _data={"xx": "12"},
                 _datatype={"xx": "i"}, _gfa=None)
        seen = []
        for step, value in (("write", None), ("assign", "13"),
                            ("write", None), ("assign", "14"),
                            ("write", None)):
            if step == "write":
                out = eval_function(repo, f_fts, [ln, "xx"], {"tag": tag},
                                    hooks=WH(repo))
                seen.append([e[1] for e in out[2] if e[0] == "validate"])
            else:
                out = eval_function(repo, f_sef, [ln, "xx", value],
                                    hooks=WH(repo))
            if out[0] != "return":
                break
        ok = out[0] == "return" and seen == [["12"], ["13"], ["14"]]
        ctx.oblige(ok)
        if not ok:
            ctx.violation(R, f_fts.short,
                          "vlevel=%d,tag=%s,history=write/assign/write/"
                          "assign/write" % (vl, tag),
                          "the three writes validated %r, expected the value "
                          "stored at the time of each write (outcome %r)" % (
                              seen, out[0:2]))
    ctx.exhaustive[R] = True
