"""C10 -- read-only operations never modify anything.

Decided clause (EFFECT): no function of the enumerated read-only surface has,
in its transitive may-write summary, a write to tracked state reachable from
its receiver, its arguments or a module-level table -- other than the
individually justified whitelisted effects (lazy decoding, datatype cache,
empty-_refs normalisation, error-flag, the paired sequence swap).
A reachable store into receiver-reachable state IS a modification by a
read-only call, so the clause is necessary.  Not decided: that repeated queries
return equal values (follows for effect-free deterministic code but is not
separately proved); effects through objects the resolver cannot type are
over-approximated (name-based resolution).
"""
import ast

from .. import spec
from ..model import AnalysisError, FuncInfo, unparse
from .effects_common import program, tracked, WHITELIST, TRACKED_HEADS


def entry_points(ctx):
    repo = ctx.repo
    out = []
    missing = []
    for owner, names in spec.READ_ONLY.items():
        for name in names.split():
            f = repo.functions.get("gfapy.%s.%s" % (owner, name))
            if f is None:
                missing.append("%s.%s" % (owner, name))
            else:
                out.append(f)
    prog = program(repo)
    for m in prog.field_modules:
        for name in spec.READ_ONLY_CODEC:
            ent = repo.module_attr(m.name, name)
            if isinstance(ent, FuncInfo) and ent not in out:
                out.append(ent)
    return out, missing


def param_roots(f, names):
    pn = list(f.params)
    if f.has_self:
        pn = pn[1:]
    return {"p%d" % pn.index(n) for n in names if n in pn}


def run(ctx):
    repo = ctx.repo
    prog = program(repo)
    R = "C10.write"
    ctx.rule(R, "for every function of the read-only surface (spec.READ_ONLY + "
             "the codecs of every datatype module): the transitive write-effect "
             "summary contains no non-whitelisted write to tracked state "
             "rooted at the receiver, a parameter or a module-level table",
             floor=300)
    entries, missing = entry_points(ctx)
    for f in entries:
        ctx.instance(R)
    if len(missing) > len(entries) // 10:
        raise AnalysisError("anchors vanished: %d read-only functions not "
                            "found, e.g. %s" % (len(missing), missing[:5]))
    ctx.notes["read_only_functions"] = len(entries)
    ctx.notes["read_only_not_found"] = missing
    ctx.notes["effect_fixpoint_steps"] = prog.rounds
    ctx.notes["functions_with_direct_effects"] = sum(
        1 for d in prog.direct.values() if d)
    nsites = sum(len(v) for v in prog.sites.values())
    ctx.notes["call_sites_resolved"] = nsites
    ctx.notes["call_sites_unresolved"] = len(prog.unresolved)
    from .effects_common import _extra_heads, NOT_STATE
    ctx.notes["tracked_heads"] = sorted(TRACKED_HEADS | _extra_heads)
    ctx.notes["constructor_attributes_not_state"] = NOT_STATE
    ctx.notes["whitelist"] = [{"function": f, "head": h, "kind": k,
                               "reason": why} for (f, h, k, why) in WHITELIST]
    by_origin = {}
    clean = 0
    import collections
    queue = collections.deque()
    seen = set()
    n_bad_entries = 0
    for f in entries:
        acc = param_roots(f, spec.ACCUMULATOR_PARAMS.get(f.short, []))
        effs = [e for e in prog.summaries[f].effects
                if tracked(e) and e[0] not in acc]
        ctx.oblige(not effs)
        if not effs:
            clean += 1
            continue
        n_bad_entries += 1
        for e in sorted(effs, key=str):
            if (f, e) not in seen:
                seen.add((f, e))
                queue.append((f, e, (), f.short))
    # one multi-source breadth-first search over (function, effect) nodes:
    # every node is expanded once, so the cost is linear in the size of the
    # effect graph whatever the number of read-only functions affected
    while queue:
        f, e, chain, root = queue.popleft()
        for (de, org) in prog.direct.get(f, ()):
            if de != e or prog_whitelisted(prog, org):
                continue
            d = by_origin.setdefault((org[0], org[1], org[2]), {
                "entries": [], "chain": None, "effect": e})
            if root not in d["entries"]:
                d["entries"].append(root)
            if d["chain"] is None:
                d["chain"] = (root, list(chain))
        for (callee, ce, site) in sorted(
                prog._contrib_index(f).get(e, ()),
                key=lambda x: (x[0].qualname, str(x[1]), x[2])):
            if (callee, ce) not in seen:
                seen.add((callee, ce))
                queue.append((callee, ce, chain + ((f.short, site),), root))
    ctx.notes["read_only_functions_with_effects"] = n_bad_entries
    for (ofunc, construct, kind), d in sorted(by_origin.items()):
        entry, chain = d["chain"]
        path = " -> ".join("%s [%s]" % (c[0], c[1]) for c in chain)
        ctx.violation(
            R, ofunc, construct,
            "%s at this construct writes state (%s, head %r, depth %d) that is "
            "reachable from read-only function(s) such as %s (%d read-only "
            "functions have some effect); call chain: %s"
            % (kind, d["effect"][0], d["effect"][1], d["effect"][2],
               ", ".join(d["entries"][:6]), n_bad_entries,
               path or "(direct)"),
            {"entries": d["entries"], "chain": chain, "effect": list(d["effect"])})
    ctx.sample({"rule": R, "read_only_functions_clean": clean,
                "examples": [f.short for f in entries[:8]]})
    wl_seen = {}
    for f in entries:
        for e in prog.summaries[f].effects:
            if e[3]:
                wl_seen.setdefault((e[0], e[1]), 0)
                wl_seen[(e[0], e[1])] += 1
    ctx.sample({"rule": R, "whitelisted_effects_reaching_read_only_functions":
                sorted("%s.%s x%d" % (k[0], k[1], v)
                       for k, v in wl_seen.items())[:20]})

    # ------------------------------------------------------------------
    R2 = "C10.mutable_defaults"
    ctx.rule(R2, "no function of the library has a mutable default argument "
             "(list / dict / set literal or constructor call) that it, or a "
             "function it passes the argument to, writes into: such a "
             "default is shared by all calls, so asking twice gives "
             "different answers", floor=1)
    n_mut = 0
    for f in sorted(repo.functions.values(), key=lambda f: f.qualname):
        a = f.node.args
        names = [x.arg for x in a.posonlyargs + a.args]
        pairs = list(zip(names[len(names) - len(a.defaults):], a.defaults)) + \
            [(x.arg, d) for x, d in zip(a.kwonlyargs, a.kw_defaults)
             if d is not None]
        for pname, d in pairs:
            mutable = isinstance(d, (ast.List, ast.Dict, ast.Set)) or (
                isinstance(d, ast.Call) and isinstance(d.func, ast.Name) and
                d.func.id in ("list", "dict", "set", "defaultdict",
                              "bytearray"))
            if not mutable:
                continue
            n_mut += 1
            ctx.instance(R2)
            plain = [n for n in names if not (f.has_self and n == names[0])]
            root = "p%d" % plain.index(pname) if pname in plain else None
            # depth 0 = the default object itself is written (add, append,
            # item store, +=), not an object found inside it
            effs = [e for e in prog.summaries[f].effects
                    if root is not None and e[0] == root and e[2] == 0
                    and not e[3]]
            ok = not effs
            ctx.oblige(ok)
            if not ok:
                ctx.violation(R2, f.short, "%s=%s" % (pname, unparse(d)),
                              "the default value of %s is created once and "
                              "this function (or a callee) writes into it "
                              "(effect %r): state leaks from one call to the "
                              "next" % (pname, sorted(effs, key=str)[0][:3]))
    if n_mut == 0:
        ctx.instance(R2)
        ctx.oblige(True)
    ctx.exhaustive[R2] = True

    # ------------------------------------------------------------------
    R = "C10.swap_restore"
    ctx.rule(R, "WriterWoSequence.__str__: the sequence field is saved before "
             "it is overwritten and restored, in the same block and before "
             "the return, with no return/raise in between", floor=1)
    f = ctx.anchor("WriterWoSequence.__str__", repo.functions.get(
        "gfapy.line.segment.writer_wo_sequence.WriterWoSequence.__str__"))
    ctx.instance(R)
    ok, why = swap_paired(f)
    ctx.oblige(ok)
    if not ok:
        ctx.violation(R, f.short, "swap", why)
    ctx.assume("binary + on FieldArray/Placeholder/LastPos operands "
               "(operator overloads) is not resolved; no library code applies "
               "them to shared state")
    ctx.assume("attribute stores into self do not create aliases visible to "
               "later reads in the same summary (heap stores are recorded as "
               "effects, not tracked as points-to facts)")
    ctx.assume("a line constructor retains only the elements of its first "
               "argument (data); vlevel/virtual/version/dialect are scalars")


def prog_whitelisted(prog, org):
    fn, construct, kind, line = org
    for (f, h, k) in prog.whitelist:
        if f == fn and h == "*":
            return True
    return False


def swap_paired(f):
    """(ok, reason)"""
    stores = []
    for blk in blocks(f.node):
        for i, st in enumerate(blk):
            if isinstance(st, ast.Assign) and len(st.targets) == 1 and \
                    isinstance(st.targets[0], ast.Attribute) and \
                    isinstance(st.targets[0].value, ast.Name) and \
                    st.targets[0].value.id == "self":
                stores.append((blk, i, st))
    if not stores:
        return True, ""
    by_blk = {}
    for blk, i, st in stores:
        by_blk.setdefault(id(blk), (blk, []))[1].append((i, st))
    for blk, lst in by_blk.values():
        attrs = {st.targets[0].attr for _, st in lst}
        for attr in attrs:
            idx = [i for i, st in lst if st.targets[0].attr == attr]
            if len(idx) != 2:
                return False, "field %s is stored %d time(s); expected one " \
                    "overwrite and one restore" % (attr, len(idx))
            first, last = idx
            # saved = self.attr before the first store
            saved = None
            for st in blk[:first]:
                if isinstance(st, ast.Assign) and len(st.targets) == 1 and \
                        isinstance(st.targets[0], ast.Name) and \
                        unparse(st.value) == "self.%s" % attr:
                    saved = st.targets[0].id
            if saved is None:
                return False, "field %s is overwritten without being saved " \
                    "first" % attr
            if unparse(blk[last].value) != saved:
                return False, "field %s is not restored from the saved " \
                    "value" % attr
            for st in blk[first:last]:
                for n in ast.walk(st):
                    if isinstance(n, (ast.Return, ast.Raise)):
                        return False, "a return/raise between overwrite and " \
                            "restore of %s" % attr
            if any(isinstance(n, ast.Name) and n.id == saved and
                   isinstance(n.ctx, ast.Store)
                   for st in blk[first:last] for n in ast.walk(st)):
                return False, "the saved value of %s is overwritten before " \
                    "the restore" % attr
    return True, ""


def blocks(node):
    for n in ast.walk(node):
        for name in ("body", "orelse", "finalbody"):
            b = getattr(n, name, None)
            if isinstance(b, list) and b and isinstance(b[0], ast.stmt):
                yield b
