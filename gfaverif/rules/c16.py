"""C16 -- connected components and topology counts agree with the graph.

Decided clauses: (a) the counters read exactly the collections the C11
classifier files dovetails / containments / internals under, divide by the two
back-references every edge files (one per side), and count dead ends per
segment end; (b) the traversal follows dovetail collections only, continues
from both ends of every reached segment, cannot leave its neighbour loop early
(no return / break / raise inside it), shares one visited set, and
connected_components starts from every segment not yet visited; (c) these
functions are read-only (decided under C10).
Not decided: that the traversal computes the partition on concrete graphs.
"""
import ast
import itertools

from ..model import AnalysisError, unparse, walk_no_nested
from ..tables import Abs, eval_function
from ..linehooks import LineHooks


def has_call(node, attr):
    return any(isinstance(n, ast.Call) and isinstance(n.func, ast.Attribute)
               and n.func.attr == attr for n in ast.walk(node))


def both_ends_recursion(node, fname):
    """a loop over the constants {L, R} containing a call of `fname`"""
    for n in ast.walk(node):
        if isinstance(n, ast.For) and isinstance(n.iter, (ast.List, ast.Tuple)) \
                and all(isinstance(e, ast.Constant) for e in n.iter.elts) and \
                {e.value for e in n.iter.elts} == {"L", "R"} and \
                has_call(n, fname):
            return True
    return False


def run(ctx):
    repo = ctx.repo
    gfacls = repo.cls("Gfa")
    S = repo.cls("line.segment.GFA2")

    R = "C16.counters"
    ctx.rule(R, "n_dovetails = (sum over segments of |dovetails_L| + "
             "|dovetails_R|) // 2, n_containments likewise over "
             "edges_to_contained / edges_to_containers, n_internals over "
             "internals, n_dead_ends = number of segment ends without "
             "dovetail; evaluated on abstract segment populations", floor=12)
    pops = [
        [(2, 1, 0, 0, 0), (0, 1, 0, 0, 0), (0, 0, 0, 0, 0)],
        [(1, 1, 1, 1, 2), (1, 1, 1, 1, 2)],
        [(0, 0, 0, 0, 0)],
        [(3, 3, 2, 0, 4), (1, 0, 0, 2, 0), (0, 1, 0, 0, 0), (1, 1, 0, 0, 0)],
    ]
    for i, pop in enumerate(pops):
        segs = []
        for j, (dl, dr, ec, er, it) in enumerate(pop):
            segs.append(Abs(S, label="s%d" % j, dovetails_L=["d"] * dl,
                            dovetails_R=["d"] * dr,
                            edges_to_contained=["c"] * ec,
                            edges_to_containers=["c"] * er,
                            internals=["i"] * it))
        g = Abs(gfacls, label="gfa", segments=segs)
        want = {
            "n_dovetails": sum(p[0] + p[1] for p in pop) // 2,
            "n_containments": sum(p[2] + p[3] for p in pop) // 2,
            "n_internals": sum(p[4] for p in pop) // 2,
            "n_dead_ends": sum((p[0] == 0) + (p[1] == 0) for p in pop),
        }
        for name, w in want.items():
            ctx.instance(R)
            f = ctx.anchor("Gfa.%s" % name, gfacls.find_method(name))
            out = eval_function(repo, f, [g], hooks=LineHooks(repo))
            ok = out[0] == "return" and out[1] == w
            ctx.oblige(ok)
            if not ok:
                ctx.violation(R, f.short, "population=%d" % i,
                              "gives %r for segments with (|dovetails_L|, "
                              "|dovetails_R|, |to_contained|, |to_containers|,"
                              " |internals|) = %r; expected %d" % (
                                  out[1], pop, w))
    ctx.exhaustive[R] = True

    R = "C16.traversal_shape"
    ctx.rule(R, "Topology.__traverse_component: iterates "
             "dovetails_of_end(end) of the reached segment, takes the other "
             "end of each dovetail, skips visited segments with `continue`, "
             "marks and collects the segment, and recurses for both ends L "
             "and R; the neighbour loop contains no return, break or raise; "
             "segment_connected_component starts the traversal from both "
             "ends; connected_components calls it for every segment name not "
             "yet visited with one shared visited set; no containment or "
             "internal collection is read", floor=8)
    f_t = ctx.anchor("Topology.__traverse_component",
                     gfacls.find_method("__traverse_component"))
    f_c = ctx.anchor("Topology.segment_connected_component",
                     gfacls.find_method("segment_connected_component"))
    f_cc = ctx.anchor("Topology.connected_components",
                      gfacls.find_method("connected_components"))
    f_cl = ctx.anchor("Topology.is_cut_link", gfacls.find_method("is_cut_link"))
    f_cs = ctx.anchor("Topology.is_cut_segment",
                      gfacls.find_method("is_cut_segment"))
    # (1) neighbour loop of the traversal
    loops = [n for n in walk_no_nested(f_t.node) if isinstance(n, ast.For)]
    outer = [l for l in loops if "dovetails_of_end" in unparse(l.iter)]
    ctx.instance(R)
    ok = len(outer) == 1
    ctx.oblige(ok)
    if not ok:
        ctx.violation(R, f_t.short, "neighbour-loop",
                      "expected exactly one loop over dovetails_of_end(...)")
    else:
        loop = outer[0]
        ctx.instance(R)
        bad = [n for n in ast.walk(loop) if isinstance(
            n, (ast.Return, ast.Break, ast.Raise))]
        ok = not bad
        ctx.oblige(ok)
        if not ok:
            ctx.violation(R, f_t.short, "neighbour-loop-exit",
                          "the loop over the dovetails of an end can be left "
                          "early by `%s`: the remaining neighbours of that "
                          "end are never visited" % unparse(bad[0]))
        ctx.instance(R)
        params = set(f_t.params[1:])
        ok = has_call(loop, "other_end") and \
            both_ends_recursion(loop, f_t.name) and \
            len({n.func.value.id for n in ast.walk(loop)
                 if isinstance(n, ast.Call) and
                 isinstance(n.func, ast.Attribute) and n.func.attr == "add"
                 and isinstance(n.func.value, ast.Name) and
                 n.func.value.id in params}) == 2
        ctx.oblige(ok)
        if not ok:
            ctx.violation(R, f_t.short, "neighbour-loop-body",
                          "the traversal must take other_end(...) of each "
                          "dovetail, add the reached segment to both the "
                          "visited set and the component (its two set "
                          "parameters) and recurse from both ends L and R")
        # skip condition: `if sn in visited: continue`
        ctx.instance(R)
        ifs = [n for n in loop.body if isinstance(n, ast.If)]
        ok = any(isinstance(i.test, ast.Compare) and
                 len(i.test.ops) == 1 and
                 isinstance(i.test.ops[0], ast.In) and
                 isinstance(i.test.comparators[0], ast.Name) and
                 i.test.comparators[0].id in params and
                 len(i.body) == 1 and isinstance(i.body[0], ast.Continue)
                 for i in ifs)
        ctx.oblige(ok)
        if not ok:
            ctx.violation(R, f_t.short, "visited-skip",
                          "a visited neighbour must be skipped with "
                          "`continue` (and nothing else)")
    # (2) starts from both ends
    ctx.instance(R)
    ok = both_ends_recursion(f_c.node, f_t.name)
    ctx.oblige(ok)
    if not ok:
        ctx.violation(R, f_c.short, "both-ends",
                      "segment_connected_component must traverse from both "
                      "ends (L and R) of the segment")
    # (3) connected_components
    ctx.instance(R)

    class CH(LineHooks):
        def before_inline(self, ev, func, args, kwargs):
            if func.name == "segment_connected_component":
                ev.events.append(("scc", args[1], id(args[2])))
                # the component of x also contains x+"'"
                args[2].add(args[1])
                args[2].add(args[1] + "'")
                return [args[1]]
            return NotImplemented
    g = Abs(gfacls, label="gfa", segment_names=["a", "a'", "b", "c", "c'"])
    out = eval_function(repo, f_cc, [g], hooks=CH(repo))
    starts = [e[1] for e in out[2] if e[0] == "scc"]
    sets = {e[2] for e in out[2] if e[0] == "scc"}
    ok = out[0] == "return" and starts == ["a", "b", "c"] and len(sets) == 1 \
        and out[1] == [["a"], ["b"], ["c"]]
    ctx.oblige(ok)
    if not ok:
        ctx.violation(R, f_cc.short, "start-points",
                      "starts traversals from %r with %d visited set(s); "
                      "expected one traversal per segment not yet visited "
                      "(a, b, c) sharing one set" % (starts, len(sets)))
    # (4) only dovetail collections
    forbidden = {"edges_to_contained", "edges_to_containers", "internals",
                 "containments", "edges", "gaps", "gaps_L", "gaps_R",
                 "fragments", "contained", "containers"}
    for f in (f_t, f_c, f_cc, f_cl, f_cs):
        ctx.instance(R)
        reads = {n.attr for n in ast.walk(f.node)
                 if isinstance(n, ast.Attribute)} & forbidden
        ok = not reads
        ctx.oblige(ok)
        if not ok:
            ctx.violation(R, f.short, "collections",
                          "reads %s: containments and internal alignments do "
                          "not connect segments" % sorted(reads))
    ctx.exhaustive[R] = True

    R = "C16.edge_filed_per_side"
    ctx.rule(R, "the counters halve the number of back-references, so every "
             "edge must be filed once per side even when both sides are the "
             "same segment end (hairpin links/edges, internal "
             "self-alignments): _initialize_references with the real "
             "_add_reference leaves two entries in the collection", floor=3)
    from .refgraph import RefHooks
    E = repo.cls("line.edge.GFA2")
    Lk = repo.cls("line.edge.Link")
    OL = repo.cls("OrientedLine")
    LP = repo.cls("LastPos")
    S1c = repo.cls("line.segment.GFA1")

    class RealAddRef(RefHooks):
        """lookups return one shared abstract segment whose _refs are real
        dictionaries; _add_reference is the repository's own code"""

        def method(self, ev, base, name, args, kwargs, node):
            if name == "_add_reference":
                return NotImplemented
            if isinstance(base, Abs) and base.attrs.get("__gfa__") and \
                    name in ("segment", "line"):
                return base.attrs["the_segment"]
            return super().method(ev, base, name, args, kwargs, node)

    def ol(seg, o):
        return Abs(OL, label="a" + o, line="a", orient=o, name="a")
    last = Abs(LP, label="7$", value=7)
    cells = [
        ("E hairpin a+ a- (sfx/sfx)", E, dict(
            sid1=ol("a", "+"), sid2=ol("a", "-"), beg1=3, end1=last, beg2=3,
            end2=last), S, "dovetails_R"),
        ("E internal self-alignment", E, dict(
            sid1=ol("a", "+"), sid2=ol("a", "+"), beg1=1, end1=3, beg2=4,
            end2=6), S, "internals"),
        ("L hairpin a + a -", Lk, dict(
            from_segment="a", from_orient="+", to_segment="a",
            to_orient="-"), S1c, "dovetails_R"),
    ]
    for name, cls, fields, segcls, key in cells:
        ctx.instance(R)
        seg = Abs(segcls, label="obj:a", name="a", _refs={})
        g = Abs(None, label="gfa", __gfa__=True, default_cls=segcls,
                _segments_first_order=False, objects={"a": seg},
                the_segment=seg)
        ln = Abs(cls, label="line", _gfa=g, **fields)
        f = ctx.anchor("%s._initialize_references" % cls.name,
                       cls.find_method("_initialize_references"))
        out = eval_function(repo, f, [ln], hooks=RealAddRef(repo))
        refs = seg.attrs.get("_refs") or {}
        got = {k: len(v) for k, v in refs.items() if v}
        ok = out[0] == "return" and got == {key: 2}
        ctx.oblige(ok)
        if not ok:
            ctx.violation(R, f.short, name,
                          "outcome %s; the segment's collections hold %r, "
                          "expected two entries under %s (one per side of "
                          "the edge)" % (out[0], got, key))
    ctx.exhaustive[R] = True

    # the counts stay right after removals only if a removed segment takes all
    # its edges with it (quantifier: "before and after arbitrary mutation
    # histories"): same ITER clause as C02/C05
    from . import refgraph
    refgraph.rule_iter(ctx, "C16.removal_leaves_no_stale_edges")
