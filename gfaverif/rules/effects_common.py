"""Shared construction of the effect analysis with the reviewed whitelist."""
from ..effects import Program

# (function short name, head or None/'*', kind prefix or None, reason)
WHITELIST = [
    ("line.common.field_data.FieldData.get", "_data", "subscript-store",
     "lazy decoding: a string field is replaced by its equal-valued decoded "
     "object on first access (the property statement allows exactly this)"),
    ("line.common.field_datatype.FieldDatatype._field_or_default_datatype",
     "_datatype", "subscript-store",
     "cache of the datatype letter inferred for a tag whose datatype was not "
     "declared; the written form already uses that letter"),
    ("line.common.connection.Connection.all_references", "_refs", "attr-store",
     "normalises an empty/None _refs to an empty dict"),
    ("*", "__error__", None,
     "recursion guard flag used only while formatting an error message "
     "(any store to an attribute of this name)"),
    ("line.segment.writer_wo_sequence.WriterWoSequence.__str__", "*", None,
     "temporary swap of the sequence field, restored before returning; the "
     "pairing is checked separately (rule C10.swap_restore)"),
]

TRACKED_HEADS = {
    # Line
    "_data", "_datatype", "_refs", "_gfa", "_virtual", "_version", "_dialect",
    "vlevel", "_positional_fieldnames",
    # Gfa
    "_records", "_version_guess", "_line_queue", "_max_int_name", "_vlevel",
    "_default",
    # containers and value objects
    "[]", "code", "length", "value", "__line", "__orient", "__segment",
    "__end_type", "__editable",
}

_cache = {}

# attributes that are not document state although a constructor sets them
NOT_STATE = {
    "_progress": "the progress logger of a Gfa (counters and timestamps of "
                 "log messages; never read by any query)",
}
_extra_heads = set()


def constructor_attributes(repo):
    """attributes that some constructor of the library stores on its instance
    (the classes of the logger module excepted): whatever a Gfa, a line or a
    value object is given at construction is part of its state, so a cache
    attribute added to a constructor is tracked without being listed"""
    import ast
    out = set()
    for c in repo.classes.values():
        if c.module.name.split(".")[-1] == "logger":
            continue
        init = c.methods.get("__init__")
        if init is None:
            continue
        for n in ast.walk(init.node):
            if isinstance(n, ast.Attribute) and \
                    isinstance(n.ctx, ast.Store) and \
                    isinstance(n.value, ast.Name) and \
                    n.value.id == init.self_name and \
                    n.attr.startswith("_"):
                out.add(n.attr)
    return out - set(NOT_STATE)


def program(repo):
    key = id(repo)
    if key not in _cache:
        p = Program(repo, [(f, h, k) for (f, h, k, _) in WHITELIST])
        p.run()
        _cache[key] = p
    _extra_heads.clear()
    _extra_heads.update(constructor_attributes(repo))
    return _cache[key]


def tracked(eff):
    (r, h, d, w) = eff
    if w:
        return False
    if r == "glob":
        return True
    return h in TRACKED_HEADS or h in _extra_heads
