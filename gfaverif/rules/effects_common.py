"""Shared construction of the effect analysis with the reviewed whitelist."""
from ..effects import Program

# (function short name, head or None/'*', kind prefix or None, reason)
WHITELIST = [
    ("line.common.field_data.FieldData.get", "_data", "subscript-store",
     "lazy decoding: a string field is replaced by its equal-valued decoded "
     "object on first access (the property statement allows exactly this)"),
    ("line.common.field_datatype.FieldDatatype._field_or_default_datatype",
     "_datatype", "subscript-store",
     "cache of the datatype letter inferred for a tag whose datatype was not "
     "declared; the written form already uses that letter"),
    ("line.common.connection.Connection.all_references", "_refs", "attr-store",
     "normalises an empty/None _refs to an empty dict"),
    ("*", "__error__", None,
     "recursion guard flag used only while formatting an error message "
     "(any store to an attribute of this name)"),
    ("line.segment.writer_wo_sequence.WriterWoSequence.__str__", "*", None,
     "temporary swap of the sequence field, restored before returning; the "
     "pairing is checked separately (rule C10.swap_restore)"),
]

TRACKED_HEADS = {
    # Line
    "_data", "_datatype", "_refs", "_gfa", "_virtual", "_version", "_dialect",
    "vlevel", "_positional_fieldnames",
    # Gfa
    "_records", "_version_guess", "_line_queue", "_max_int_name", "_vlevel",
    "_default",
    # containers and value objects
    "[]", "code", "length", "value", "__line", "__orient", "__segment",
    "__end_type", "__editable",
}

_cache = {}


def program(repo):
    key = id(repo)
    if key not in _cache:
        p = Program(repo, [(f, h, k) for (f, h, k, _) in WHITELIST])
        p.run()
        _cache[key] = p
    return _cache[key]


def tracked(eff):
    (r, h, d, w) = eff
    if w:
        return False
    if r == "glob":
        return True
    return h in TRACKED_HEADS
