"""Rules about the reference graph, shared by C02, C03 and C05."""
import ast
import itertools

from .. import spec, iterlive
from ..model import (AnalysisError, record_classes, record_table, unparse,
                     walk_no_nested)
from ..tables import Abs, Evaluator, Unsupported, eval_function, Raised
from ..linehooks import LineHooks
from .effects_common import WHITELIST

_iter_cache = {}


def iter_instances(ctx):
    key = id(ctx.repo)
    if key not in _iter_cache:
        prog = iterlive.build_program(
            ctx.repo, [(f, h, k) for (f, h, k, _) in WHITELIST])
        _iter_cache[key] = (prog, iterlive.Iter(prog).analyse())
    return _iter_cache[key]


# --------------------------------------------------------------------------
def rule_iter(ctx, R):
    ctx.rule(R, "no loop or comprehension iterates a live back-reference list "
             "(X._refs[k], a generated reference getter, dovetails_of_end / "
             "gaps_of_end, a lazy view such as reversed()/enumerate() of "
             "those, or a name bound to one) while its body can change the "
             "length of a _refs list of the owner X or of a line found in the "
             "state of the loop element (such a line may be X) -- decided "
             "with interprocedural size-change summaries", floor=8)
    prog, insts = iter_instances(ctx)
    ctx.notes["iter_fixpoint_steps"] = prog.rounds
    for i in insts:
        ctx.instance(R)
        ok = not i["offending"]
        ctx.oblige(ok)
        if not ok:
            o = i["offending"][0]
            ctx.violation(
                R, i["function"], "for ... in %s" % i["iterable"],
                "%s; effect %r arrives through %s" % (
                    o["why"], o["effect"], "; ".join(o["via"]) or "the body"),
                {"offending": i["offending"][:6]})
        else:
            ctx.sample({"rule": R, "loop": "%s: for ... in %s" % (
                i["function"], i["iterable"]), "verdict": "body cannot "
                "resize the iterated list"}, limit=30)


# --------------------------------------------------------------------------
class RefHooks(LineHooks):
    """reference initialisation on an abstract Gfa where nothing is defined
    yet (so placeholders are created) or everything is"""

    def __init__(self, repo, defined=True):
        super().__init__(repo)
        self.defined = defined
        self.made = []

    def method(self, ev, base, name, args, kwargs, node):
        if isinstance(base, Abs) and base.attrs.get("__gfa__"):
            if name in ("segment", "line", "_search_link"):
                if not self.defined:
                    return None
                key = args[0]
                if isinstance(key, Abs) and "name" in key.attrs:
                    key = key.attrs["name"]
                if isinstance(key, Abs):
                    key = key.label
                store = base.attrs.setdefault("objects", {})
                if key not in store:
                    cls = base.attrs["default_cls"]
                    store[key] = Abs(cls, label="obj:%s" % key, name=key)
                return store[key]
            if name == "add_line":
                ev.events.append(("add_line", args[0].label))
                return None
        return super().method(ev, base, name, args, kwargs, node)

    def construct(self, ev, cls, args, kwargs):
        if self.repo.cls("Line") in cls.mro and kwargs.get("virtual"):
            data = args[0] if args else {}
            nm = data.get("name", data.get("sid", "?")) \
                if isinstance(data, dict) else "?"
            a = Abs(cls, label="virtual:%s:%s" % (cls.name, nm),
                    _virtual=True, name=nm)
            self.made.append(a)
            ev.events.append(("virtual", cls, nm))
            return a
        return super().construct(ev, cls, args, kwargs)


def producers(ctx):
    """{(target class name, refkey)} : back-reference keys that reference
    initialisation files on lines of each class -- from abstract evaluation of
    every _initialize_references and of _line_for_ref_symbol."""
    repo = ctx.repo
    out = {}        # (target class, key) -> set of producer descriptions
    S1 = repo.cls("line.segment.GFA1")
    S2 = repo.cls("line.segment.GFA2")
    OL = repo.cls("OrientedLine")
    LP = repo.cls("LastPos")

    def ol(name, o):
        return Abs(OL, label="%s%s" % (name, o), line=name, orient=o, name=name)

    def note(events, who, clsmap):
        for e in events:
            if e[0] == "addref":
                tgt = e[1]
                c = clsmap.get(tgt)
                if c is None:
                    raise AnalysisError("producer %s files a back-reference "
                                        "on an unexpected object %s" % (who, tgt))
                out.setdefault((c, e[2]), set()).add(who)

    def gfa(defcls):
        return Abs(None, label="gfa", __gfa__=True, default_cls=defcls,
                   _segments_first_order=False, objects={})

    # L, C
    for clsname in ("line.edge.Link", "line.edge.Containment"):
        c = repo.cls(clsname)
        f = c.find_method("_initialize_references")
        for o1, o2 in itertools.product("+-", "+-"):
            g = gfa(S1)
            ln = Abs(c, label="line", from_segment="a", from_orient=o1,
                     to_segment="b", to_orient=o2, _gfa=g)
            r = eval_function(repo, f, [ln], hooks=RefHooks(repo))
            note(r[2], c.name, {"obj:a": "segment.GFA1", "obj:b": "segment.GFA1"})
    # E over all interval kinds
    E = repo.cls("line.edge.GFA2")
    f = E.find_method("_initialize_references")
    pos = [0, 3, Abs(LP, label="7$", value=7)]
    for b1, e1, b2, e2 in itertools.product(pos, repeat=4):
        def v(p):
            return p.attrs["value"] if isinstance(p, Abs) else p
        if v(b1) > v(e1) or v(b2) > v(e2):
            continue
        for o1, o2 in itertools.product("+-", "+-"):
            g = gfa(S2)
            ln = Abs(E, label="line", sid1=ol("a", o1), sid2=ol("b", o2),
                     beg1=b1, end1=e1, beg2=b2, end2=e2, _gfa=g)
            try:
                r = eval_function(repo, f, [ln], hooks=RefHooks(repo))
            except Unsupported:
                raise
            if r[0] == "return":
                note(r[2], "edge.GFA2", {"obj:a": "segment.GFA2",
                                         "obj:b": "segment.GFA2"})
    # G
    G = repo.cls("line.Gap")
    f = G.find_method("_initialize_references")
    for o1, o2 in itertools.product("+-", "+-"):
        g = gfa(S2)
        ln = Abs(G, label="line", sid1=ol("a", o1), sid2=ol("b", o2), _gfa=g)
        r = eval_function(repo, f, [ln], hooks=RefHooks(repo))
        note(r[2], "Gap", {"obj:a": "segment.GFA2", "obj:b": "segment.GFA2"})
    # F
    F = repo.cls("line.Fragment")
    f = F.find_method("_initialize_references")
    g = gfa(S2)
    ln = Abs(F, label="line", sid="a", _gfa=g)
    r = eval_function(repo, f, [ln], hooks=RefHooks(repo))
    note(r[2], "Fragment", {"obj:a": "segment.GFA2"})
    # P: links and segments
    P = repo.cls("line.group.Path")
    L = repo.cls("line.edge.Link")
    f = P.find_method("_initialize_references")

    class PathHooks(RefHooks):
        def before_inline(self, ev, func, args, kwargs):
            if func.name == "_compute_required_links":
                return [[ol("a", "+"), ol("b", "+"), "ov"]]
            if func.name == "is_compatible_complement":
                return False
            return NotImplemented

        def method(self, ev, base, name, args, kwargs, node):
            if isinstance(base, Abs) and base.attrs.get("__gfa__") and \
                    name == "_search_link":
                # a stored link a+ -> b+ (its fields may be read by the
                # orientation test)
                return Abs(L, label="obj:link",
                           from_segment=Abs(S1, label="obj:a", name="a"),
                           from_orient="+",
                           to_segment=Abs(S1, label="obj:b", name="b"),
                           to_orient="+", overlap="ov")
            return super().method(ev, base, name, args, kwargs, node)
    g = gfa(S1)
    segs = [ol("a", "+"), ol("b", "+")]
    ln = Abs(P, label="line", _gfa=g, _refs={}, segment_names=segs)
    r = eval_function(repo, f, [ln], hooks=PathHooks(repo))
    note(r[2], "Path", {"obj:a": "segment.GFA1", "obj:b": "segment.GFA1",
                        "obj:link": "Link"})
    # O / U items: _line_for_ref_symbol files on whatever line has the name;
    # admissible item classes come from _check_ref_class
    for clsname in ("line.group.Ordered", "line.group.Unordered"):
        c = repo.cls(clsname)
        f = c.find_method("_line_for_ref_symbol")
        admitted = admitted_item_classes(ctx, c)
        for tcls in admitted:
            g = gfa(tcls)
            ln = Abs(c, label="line", _gfa=g)
            r = eval_function(repo, f, [ln, "x"], hooks=RefHooks(repo))
            note(r[2], c.name, {"obj:x": short_cls(tcls)})
        # item not yet defined: an Unknown placeholder receives the key
        g = gfa(None)
        ln = Abs(c, label="line", _gfa=g)
        rh = RefHooks(repo, defined=False)
        r = eval_function(repo, f, [ln, "x"], hooks=rh)
        for e in r[2]:
            if e[0] == "addref":
                out.setdefault(("Unknown", e[2]), set()).add(c.name)
    return out


def short_cls(c):
    n = c.short
    if n.startswith("line.segment."):
        return "segment." + c.name
    if n.startswith("line.edge.gfa2"):
        return "edge.GFA2"
    return c.name


def admitted_item_classes(ctx, groupcls):
    """classes _check_ref_class admits as items of the group class"""
    f = ctx.anchor("%s._check_ref_class" % groupcls.name,
                   groupcls.find_method("_check_ref_class"))
    lists = [n for n in ast.walk(f.node) if isinstance(n, ast.List)]
    if len(lists) != 1:
        raise AnalysisError("anchor changed: admission list of "
                            "_check_ref_class")
    out = []
    ev = Evaluator(ctx.repo, f.module, {"self": Abs(groupcls, label="g")})
    for e in lists[0].elts:
        v = ev.ev(e)
        if v not in out:
            out.append(v)
    return out


def rule_refkeys(ctx, R, known_only=None):
    ctx.rule(R, "every back-reference key that reference initialisation can "
             "file on a line of class X (from the tables of C11 and the item "
             "admission list of groups) is declared by X in DEPENDENT_LINES or "
             "OTHER_REFERENCES; otherwise neither the removal cascade nor the "
             "mention clean-up of disconnect() visits it", floor=20)
    repo = ctx.repo
    prod = producers(ctx)
    tabs = {}
    for c in record_classes(repo):
        tabs[short_cls(c)] = record_table(repo, c)
    for (tcls, key), who in sorted(prod.items()):
        ctx.instance(R)
        t = tabs.get(tcls)
        if t is None:
            raise AnalysisError("producer target class %s unknown" % tcls)
        ok = key in t.refkeys
        ctx.oblige(ok)
        if not ok:
            ctx.violation(R, "class %s" % tcls, "refkey=%s" % key,
                          "%s files the back-reference key %r on %s lines, "
                          "but %s declares neither in DEPENDENT_LINES nor in "
                          "OTHER_REFERENCES: after removing such a line the "
                          "referring line still mentions it" % (
                              ", ".join(sorted(who)), key, tcls, tcls))
        else:
            ctx.sample({"rule": R, "target": tcls, "key": key,
                        "filed_by": sorted(who)}, limit=40)
    return prod


# --------------------------------------------------------------------------
def rule_dependency_tables(ctx, R):
    ctx.rule(R, "DEPENDENT_LINES of every record class equals the documented "
             "removal cascade (segment: its links, containments, edges, gaps, "
             "fragments, paths, sets; link: paths; E line and O group: paths "
             "and sets; U group and unknown placeholder: sets (and paths); "
             "others none) and every other declared key is in "
             "OTHER_REFERENCES", floor=13)
    repo = ctx.repo
    for c in record_classes(repo):
        t = record_table(repo, c)
        if t.RECORD_TYPE is None:
            continue
        key = (t.RECORD_TYPE, t.VERSION if t.RECORD_TYPE == "S" else None)
        ctx.instance(R)
        want = spec.DEPENDENT_LINES.get(key)
        if want is None:
            ctx.oblige(False)
            ctx.violation(R, c.short, "record=%r" % (key,),
                          "record type missing from the reference cascade "
                          "table")
            continue
        got = set(t.DEPENDENT_LINES)
        ok = got == want and not (set(t.OTHER_REFERENCES) & got)
        ctx.oblige(ok)
        if not ok:
            ctx.violation(R, c.short, "DEPENDENT_LINES",
                          "is %s, the documented cascade is %s" % (
                              sorted(got), sorted(want)))
    ctx.exhaustive[R] = True


# --------------------------------------------------------------------------
class SeqHooks(LineHooks):
    """records calls of named collaborators in order"""

    def __init__(self, repo, stubs, returns=None):
        super().__init__(repo)
        self.stubs = set(stubs)
        self.returns = returns or {}

    def before_inline(self, ev, func, args, kwargs):
        if func.name in self.stubs:
            ev.events.append((func.name,) + tuple(
                a.label if isinstance(a, Abs) else a for a in args[1:]))
            r = self.returns.get(func.name)
            return r(args) if callable(r) else r
        return NotImplemented

    def method(self, ev, base, name, args, kwargs, node):
        if name in self.stubs and isinstance(base, Abs):
            ev.events.append((name,) + tuple(
                a.label if isinstance(a, Abs) else a for a in args))
            r = self.returns.get(name)
            return r([base] + list(args)) if callable(r) else r
        return super().method(ev, base, name, args, kwargs, node)

    def to_str(self, ev, v):
        return "<%s>" % v.label


def rule_connect_sequence(ctx, R):
    ctx.rule(R, "Connection.connect: refuses a connected line; searches a "
             "duplicate first; a virtual duplicate of the same record type "
             "(or of unknown type) is substituted, a real one or a "
             "placeholder of another record type "
             "goes to _process_not_unique, otherwise the owner is set, then "
             "references are initialised, then the line is registered -- in "
             "that order; Disconnection.disconnect removes field "
             "back-references, field references, dependants, non-field "
             "back-references, non-field references, unregisters, and only "
             "then clears the owner", floor=6)
    repo = ctx.repo
    line = repo.cls("line.edge.GFA2")
    f_c = ctx.anchor("Line.connect", repo.cls("Line").find_method("connect"))
    f_d = ctx.anchor("Line.disconnect",
                     repo.cls("Line").find_method("disconnect"))
    stubs = ["_search_duplicate", "_substitute_virtual_line",
             "_process_not_unique", "_initialize_references", "_register_line"]
    for prev in ("none", "virtual", "virtual-unknown", "virtual-other-type",
                 "real", "already-connected"):
        ctx.instance(R)
        gfa = Abs(repo.cls("Gfa"), label="gfa")
        p = None
        if prev == "virtual":
            p = Abs(line, label="prev", _virtual=True, virtual=True,
                    record_type="E")
        elif prev == "virtual-unknown":
            p = Abs(repo.cls("line.Unknown"), label="prev", _virtual=True,
                    virtual=True, record_type="\n")
        elif prev == "virtual-other-type":
            # e.g. the placeholder of a segment mentioned earlier, while the
            # new line is an edge carrying the same identifier
            p = Abs(repo.cls("line.segment.GFA2"), label="prev",
                    _virtual=True, virtual=True, record_type="S")
        elif prev == "real":
            p = Abs(line, label="prev", _virtual=False, virtual=False,
                    record_type="E")
        ln = Abs(line, label="line", record_type="E",
                 _gfa=gfa if prev == "already-connected" else None)
        h = SeqHooks(repo, stubs, {"_search_duplicate": p})
        out = eval_function(repo, f_c, [ln, gfa], hooks=h)
        seq = [e[0] for e in out[2] if e[0] != "store"]
        stores = [(e[2], e[3]) for e in out[2] if e[0] == "store"
                  and e[1] == "line"]
        if prev == "already-connected":
            ok = out[0] == "raise" and not seq
        elif prev in ("virtual", "virtual-unknown"):
            ok = out[0] == "return" and seq == [
                "_search_duplicate", "_substitute_virtual_line"]
        elif prev in ("real", "virtual-other-type"):
            ok = out[0] == "return" and seq == ["_search_duplicate",
                                                "_process_not_unique"]
        else:
            order = [e[0] if e[0] != "store" else "store:" + e[2]
                     for e in out[2] if e[0] != "store" or e[1] == "line"]
            ok = out[0] == "return" and order == [
                "_search_duplicate", "store:_gfa", "_initialize_references",
                "_register_line"] and stores == [("_gfa", gfa)]
        ctx.oblige(ok)
        if not ok:
            ctx.violation(R, f_c.short, "previous=%s" % prev,
                          "outcome %r, calls %r, stores %r" % (
                              out[0:2], seq, stores))
    stubs = ["_remove_field_backreferences", "_remove_field_references",
             "_disconnect_dependent_lines", "_remove_nonfield_backreferences",
             "_remove_nonfield_references", "_unregister_line"]
    for connected in (True, False):
        ctx.instance(R)
        gfa = Abs(repo.cls("Gfa"), label="gfa")
        ln = Abs(line, label="line", _gfa=gfa if connected else None)
        out = eval_function(repo, f_d, [ln], hooks=SeqHooks(repo, stubs))
        order = [e[0] if e[0] != "store" else "store:" + e[2]
                 for e in out[2] if e[0] != "store" or e[1] == "line"]
        if connected:
            ok = out[0] == "return" and order == stubs + ["store:_gfa"] and \
                ln.attrs["_gfa"] is None
        else:
            ok = out[0] == "raise" and not order
        ctx.oblige(ok)
        if not ok:
            ctx.violation(R, f_d.short, "connected=%s" % connected,
                          "outcome %r, sequence %r" % (out[0:2], order))
    ctx.exhaustive[R] = True


def rule_substitution_sequence(ctx, R):
    ctx.rule(R, "VirtualToReal._substitute_virtual_line: owner set, references "
             "of the placeholder imported, placeholder unregistered, real "
             "line registered, in that order; _import_references: an Unknown "
             "placeholder makes the line initialise its own references, any "
             "other placeholder hands over its field references and "
             "back-references; in both cases the placeholder's _refs are "
             "taken over and every referrer is re-pointed", floor=4)
    repo = ctx.repo
    E = repo.cls("line.edge.GFA2")
    f_s = ctx.anchor("Line._substitute_virtual_line",
                     repo.cls("Line").find_method("_substitute_virtual_line"))
    f_i = ctx.anchor("Line._import_references",
                     repo.cls("Line").find_method("_import_references"))
    ctx.instance(R)
    gfa = Abs(repo.cls("Gfa"), label="gfa")
    prev = Abs(E, label="prev", _gfa=gfa, _virtual=True)
    ln = Abs(E, label="line", _gfa=None)
    h = SeqHooks(repo, ["_import_references", "_unregister_line",
                        "_register_line"])
    out = eval_function(repo, f_s, [ln, prev], hooks=h)
    order = [(e[0], e[1]) if e[0] != "store" else ("store:" + e[2],)
             for e in out[2] if e[0] != "store" or e[1] == "line"]
    want = [("store:_gfa",), ("_import_references", "prev"),
            ("_unregister_line", "prev"), ("_register_line", "line")]
    ok = out[0] == "return" and order == want and ln.attrs["_gfa"] is gfa
    ctx.oblige(ok)
    if not ok:
        ctx.violation(R, f_s.short, "sequence",
                      "performs %r, expected %r" % (order, want))
    for kind in ("Unknown", "segment"):
        ctx.instance(R)
        pc = repo.cls("line.Unknown") if kind == "Unknown" else \
            repo.cls("line.segment.GFA2")
        prev = Abs(pc, label="prev")
        ln = Abs(E, label="line")
        stubs = ["_import_field_references", "_update_field_backreferences",
                 "_initialize_references", "_import_nonfield_references",
                 "_update_nonfield_backreferences"]
        out = eval_function(repo, f_i, [ln, prev], hooks=SeqHooks(repo, stubs))
        seq = [e[0] for e in out[2]]
        if kind == "Unknown":
            want = ["_initialize_references", "_import_nonfield_references",
                    "_update_nonfield_backreferences"]
        else:
            want = ["_import_field_references", "_update_field_backreferences",
                    "_import_nonfield_references",
                    "_update_nonfield_backreferences"]
        ok = out[0] == "return" and seq == want
        ctx.oblige(ok)
        if not ok:
            ctx.violation(R, f_i.short, "placeholder=%s" % kind,
                          "performs %r, expected %r" % (seq, want))
    # _update_nonfield_backreferences visits every key actually present
    f_u = ctx.anchor("Line._update_nonfield_backreferences", repo.cls(
        "Line").find_method("_update_nonfield_backreferences"))
    f_n = ctx.anchor("Line._import_nonfield_references", repo.cls(
        "Line").find_method("_import_nonfield_references"))
    for c in record_classes(repo):
        if record_table(repo, c).RECORD_TYPE is None:
            continue
        ctx.instance(R)
        prev = Abs(c, label="prev",
                   _refs={"paths": ["r1"], "sets": ["r2", "r3"],
                          "undeclared": ["r4"]})
        ln = Abs(c, label="line", _refs={})
        out = eval_function(repo, f_n, [ln, prev], hooks=LineHooks(repo))
        ok = out[0] == "return" and ln.attrs["_refs"] is prev.attrs["_refs"]
        out = eval_function(repo, f_u, [ln, prev], hooks=SeqHooks(
            repo, ["_update_backreference_in"]))
        got = sorted((e[1], e[3]) for e in out[2]
                     if e[0] == "_update_backreference_in")
        want = sorted([("r1", "paths"), ("r2", "sets"), ("r3", "sets"),
                       ("r4", "undeclared")])
        ok = ok and out[0] == "return" and got == want
        ctx.oblige(ok)
        if not ok:
            ctx.violation(R, f_u.short, "class=%s" % c.name,
                          "re-points %r; every back-reference the placeholder "
                          "had collected must be re-pointed: %r" % (got, want))
    ctx.exhaustive[R] = True


# --------------------------------------------------------------------------
def rule_backreference_keys(ctx, R, prod):
    ctx.rule(R, "for every record class R and every kind of line that can be "
             "stored in R -- in a reference field or under a back-reference "
             "key -- R._backreference_keys names that location, so that "
             "_update_references(old, new, k) finds and replaces it (a "
             "placeholder replaced by its definition, a removed line)",
             floor=40)
    repo = ctx.repo
    tabs = {short_cls(c): (c, record_table(repo, c))
            for c in record_classes(repo)}
    rt_of = {n: t.RECORD_TYPE for n, (c, t) in tabs.items()}
    # which classes can sit in which reference field of which class
    seg_fields = {"Link": ["from_segment", "to_segment"],
                  "Containment": ["from_segment", "to_segment"],
                  "edge.GFA2": ["sid1", "sid2"], "Gap": ["sid1", "sid2"],
                  "Fragment": ["sid"], "Path": ["segment_names"]}
    for n, (c, t) in sorted(tabs.items()):
        if t.RECORD_TYPE is None:
            continue
        f = c.find_method("_backreference_keys")
        if f is None:
            raise AnalysisError("anchor vanished: _backreference_keys")
        required = []      # (ref record type, key_in_ref, required location)
        # (1) lines referenced from a field of R
        for fld in seg_fields.get(n, []):
            if fld not in t.REFERENCE_FIELDS:
                raise AnalysisError("reference field %s.%s vanished" % (n, fld))
            for kir in relevant_keys(prod, "segment"):
                required.append(("S", kir, fld))
        if n in ("Ordered", "Unordered"):
            for rt in (["S", "E", "G", "O", "\n"] +
                       (["U"] if n == "Unordered" else [])):
                required.append((rt, "paths" if n == "Ordered" else "sets",
                                 "items"))
        # (2) lines filed under a back-reference key of R
        for (tcls, key), who in prod.items():
            if tcls != n:
                continue
            if key not in t.refkeys:
                continue    # undeclared key: reported by the refkey rule
            for w in who:
                wrt = rt_of.get(w if w in rt_of else
                                {"edge.GFA2": "edge.GFA2"}.get(w, w))
                if wrt is None:
                    continue
                for kir in tabs[w][1].REFERENCE_FIELDS or [None]:
                    required.append((wrt, kir, key))
        seen = set()
        if n.startswith("segment"):
            link_layout_cells(ctx, R, repo, c, f, n)
        for (rrt, kir, loc) in required:
            if (rrt, kir, loc) in seen:
                continue
            seen.add((rrt, kir, loc))
            if n.startswith("segment") and rrt == "L":
                continue        # decided per layout by link_layout_cells
            ctx.instance(R)
            ref = Abs(None, label="ref", record_type=rrt, name="r")
            # worst case: `ref` sits in every reference field of `me` at once
            # (a self-link / an edge of a segment with itself)
            attrs = {}
            OLc = repo.cls("OrientedLine")
            for fld in t.REFERENCE_FIELDS:
                dt = t.DATATYPE.get(fld, "")
                if "list" in dt:
                    attrs[fld] = [ref]
                elif dt.startswith("oriented"):
                    attrs[fld] = Abs(OLc, label="ol:ref", line=ref, orient="+",
                                     name="r")
                else:
                    attrs[fld] = ref
            me = Abs(c, label="me", from_name="r", to_name="r", **attrs)
            out = eval_function(repo, f, [me, ref, kir], hooks=LineHooks(repo))
            if out[0] == "raise":
                ok = False
                got = "!%s" % out[1]
            else:
                got = out[1]
                ok = got is not None and loc in got
            # C lines file one key per field: the other field's key need not
            # be returned for this field
            if not ok and n.startswith("segment") and rrt == "C":
                want_key = "edges_to_contained" if kir == "from_segment" \
                    else "edges_to_containers"
                if loc != want_key and got is not None and want_key in got:
                    ok = True
            ctx.oblige(ok)
            if not ok:
                ctx.violation(
                    R, f.short, "class=%s,ref=%s,key_in_ref=%s,location=%s" % (
                        n, "\\n" if rrt == "\n" else rrt, kir, loc),
                    "a %s line can be stored in %s.%s, but "
                    "_backreference_keys(ref, %r) returns %r: the location "
                    "would never be re-pointed" % (
                        "\\n" if rrt == "\n" else rrt, n, loc, kir, got))
    ctx.exhaustive[R] = True


def link_layout_cells(ctx, R, repo, c, f, n):
    """Links in the dovetail lists of a segment, per layout.  A link is
    filed under the end of the segment each of its sides attaches to (from:
    + -> R, - -> L; to: + -> L, - -> R; decided against the code by C11), so
    for every layout -- which sides name this segment, with which
    orientations -- the keys returned over the calls made for those sides
    (the removal and substitution loops call once per reference field) must
    together cover every list that holds the link.  A per-side answer is as
    good as the full answer; an answer that forgets a list is not."""
    SE = repo.cls("SegmentEnd")
    Lk = repo.cls("line.edge.Link")
    for sides, fo, to in itertools.product(
            (("from_segment",), ("to_segment",),
             ("from_segment", "to_segment")), "+-", "+-"):
        ctx.instance(R)
        me = Abs(c, label="me", name="m")
        other = Abs(c, label="other", name="o")
        fs = me if "from_segment" in sides else other
        ts = me if "to_segment" in sides else other
        fe = "R" if fo == "+" else "L"
        te = "L" if to == "+" else "R"
        ref = Abs(Lk, label="ref", record_type="L", name="r",
                  from_segment=fs, to_segment=ts, from_orient=fo,
                  to_orient=to, from_name=fs.attrs["name"],
                  to_name=ts.attrs["name"],
                  from_end=Abs(SE, label="from_end", segment=fs, end_type=fe,
                               name=fs.attrs["name"]),
                  to_end=Abs(SE, label="to_end", segment=ts, end_type=te,
                             name=ts.attrs["name"]))
        filed = set()
        if fs is me:
            filed.add("dovetails_" + fe)
        if ts is me:
            filed.add("dovetails_" + te)
        got, err = set(), None
        for kir in sides:
            out = eval_function(repo, f, [me, ref, kir], hooks=LineHooks(repo))
            if out[0] == "raise" or out[1] is None:
                err = out[0:2]
                break
            got |= set(out[1])
        ok = err is None and filed <= got
        ctx.oblige(ok)
        if not ok:
            ctx.violation(
                R, f.short, "class=%s,ref=L,sides=%s,orient=%s%s" % (
                    n, "+".join(sd.split("_")[0] for sd in sides), fo, to),
                "the link is filed under %s of the segment, but the calls "
                "for its side(s) return %s: a list would never be "
                "re-pointed" % (sorted(filed), sorted(got) if err is None
                                else err))


def relevant_keys(prod, what):
    ks = sorted({k for (tc, k) in prod if tc.startswith("segment")})
    return ks or [None]


# --------------------------------------------------------------------------
def rule_removal_helpers(ctx, R):
    ctx.rule(R, "decision tables of the removal helpers over the shapes a "
             "reference can take (a line, an oriented line around a line, a "
             "list of either, an identifier): _remove_field_references "
             "replaces every line by its identifier in place; "
             "_remove_backreference / _disconnect_dependent_line reach every "
             "line; __update_reference_in_list replaces or removes exactly "
             "the old line and flips the orientation of an oriented entry "
             "exactly when the new link is the complement of the old one",
             floor=20)
    repo = ctx.repo
    Line = repo.cls("Line")
    S2 = repo.cls("line.segment.GFA2")
    OL = repo.cls("OrientedLine")
    U = repo.cls("line.group.Unordered")
    O = repo.cls("line.group.Ordered")
    E = repo.cls("line.edge.GFA2")

    def seg(n):
        return Abs(S2, label="seg:" + n, name=n)

    def ol(x, o="+"):
        return Abs(OL, label="ol:%s%s" % (x.label if isinstance(x, Abs) else x,
                                          o), line=x, orient=o,
                   name=x.attrs["name"] if isinstance(x, Abs) else x)
    f_rfr = ctx.anchor("Line._remove_field_references",
                       Line.find_method("_remove_field_references"))

    class FH(LineHooks):
        def getattr(self, ev, base, attr):
            return NotImplemented
    # shapes
    shapes = {
        "line": lambda: seg("a"),
        "oriented line": lambda: ol(seg("a")),
        "list of lines": lambda: [seg("a"), seg("b")],
        "list of oriented lines": lambda: [ol(seg("a")), ol(seg("b"), "-")],
        "identifiers": lambda: ["a", "b"],
    }
    for shape, mk in shapes.items():
        ctx.instance(R)
        v = mk()
        cls = {"line": repo.cls("line.Fragment"), "oriented line": E,
               "list of lines": U, "list of oriented lines": O,
               "identifiers": U}[shape]
        field = record_table(repo, cls).REFERENCE_FIELDS[0]
        ln = Abs(cls, label="line", **{field: v})
        ln.attrs["_data"] = ln.attrs
        out = eval_function(repo, f_rfr, [ln], hooks=LineHooks(repo))
        after = ln.attrs[field]
        if shape == "line":
            ok = after == "a"
        elif shape == "oriented line":
            ok = isinstance(after, Abs) and after.attrs["line"] == "a"
        elif shape == "list of lines":
            ok = after is v and after == ["a", "b"]
        elif shape == "list of oriented lines":
            ok = after is v and [x.attrs["line"] for x in after] == ["a", "b"]
        else:
            ok = after == ["a", "b"]
        ok = ok and out[0] == "return"
        ctx.oblige(ok)
        if not ok:
            ctx.violation(R, f_rfr.short, "shape=%s" % shape,
                          "after the call the field holds %r; every line "
                          "must be replaced by its identifier" % (after,))
    for fname, call in (("_remove_backreference", "_update_references"),
                        ("_disconnect_dependent_line", "disconnect")):
        f = ctx.anchor("Line.%s" % fname, Line.find_method(fname))
        for shape, mk in shapes.items():
            ctx.instance(R)
            v = mk()
            me = Abs(E, label="me")
            args = [me, v, "k"] if fname == "_remove_backreference" else \
                [me, v]

            class CH(SeqHooks):
                def method(self, ev, base, name, args, kwargs, node):
                    if name == "is_connected":
                        return True
                    return super().method(ev, base, name, args, kwargs, node)
            out = eval_function(repo, f, args, hooks=CH(repo, [call]))
            n_calls = len([e for e in out[2] if e[0] == call])
            want = {"line": 1, "oriented line": 1, "list of lines": 2,
                    "list of oriented lines": 2, "identifiers": 0}[shape]
            ok = out[0] == "return" and n_calls == want
            ctx.oblige(ok)
            if not ok:
                ctx.violation(R, f.short, "shape=%s" % shape,
                              "%s is called %d time(s), expected %d" % (
                                  call, n_calls, want))
    # _remove_field_backreferences: one call per reference field, also when
    # two fields hold the same line (a self-link, a segment contained in
    # itself): the keys a referenced line clears can depend on the field
    # (Segment._backreference_keys for C lines), so a field skipped because
    # "that line was done already" leaves a stale back-reference
    f_rfb = ctx.anchor("Line._remove_field_backreferences",
                       Line.find_method("_remove_field_backreferences"))
    for c in record_classes(repo):
        t = record_table(repo, c)
        fields = list(t.REFERENCE_FIELDS or [])
        if t.RECORD_TYPE is None or len(fields) < 2:
            continue
        for same in (True, False):
            ctx.instance(R)
            shared = seg("a")
            vals = {}
            for i, fld in enumerate(fields):
                tgt = shared if same else seg("s%d" % i)
                dt = t.DATATYPE.get(fld, "")
                if "list" in dt:
                    vals[fld] = [tgt]
                elif dt.startswith("oriented"):
                    vals[fld] = ol(tgt)
                else:
                    vals[fld] = tgt
            ln = Abs(c, label="line", **vals)
            ln.attrs["_data"] = dict(vals)

            class BH(SeqHooks):
                def method(self, ev, base, name, args, kwargs, node):
                    if name == "get" and isinstance(base, Abs) and \
                            base.label == "line":
                        return base.attrs["_data"].get(args[0])
                    return super().method(ev, base, name, args, kwargs, node)
            out = eval_function(repo, f_rfb, [ln],
                                hooks=BH(repo, ["_remove_backreference"]))
            got = [e[2] for e in out[2] if e[0] == "_remove_backreference"]
            ok = out[0] == "return" and sorted(got) == sorted(fields)
            if not ok and out[0] == "return" and same and \
                    set(got) <= set(fields):
                # fewer calls are as good when the calls made clear every
                # location the skipped ones would have cleared
                f_bk = shared.cls.find_method("_backreference_keys")
                ln.attrs.setdefault("record_type", t.RECORD_TYPE)
                try:
                    def keys(ks):
                        acc = set()
                        for k in ks:
                            o = eval_function(repo, f_bk, [shared, ln, k],
                                              hooks=LineHooks(repo))
                            if o[0] != "return" or o[1] is None:
                                raise Unsupported("no keys")
                            acc |= set(o[1])
                        return acc
                    ok = keys(got) >= keys(fields)
                except Unsupported:
                    ok = False
            ctx.oblige(ok)
            if not ok:
                ctx.violation(R, f_rfb.short, "class=%s,%s" % (
                    short_cls(c), "all fields hold the same line" if same
                    else "distinct lines"),
                    "back-references are removed for the fields %r, "
                    "expected one call for each of %r" % (got, fields))
    # __update_reference_in_list
    from .c12 import OvHooks
    f_ul = ctx.anchor("Line.__update_reference_in_list",
                      Line.find_method("__update_reference_in_list"))
    L = repo.cls("line.edge.Link")
    S1 = repo.cls("line.segment.GFA1")
    segs = {"a": Abs(S1, label="seg:a", name="a"),
            "b": Abs(S1, label="seg:b", name="b")}
    descr = {
        "a+b+X": ("a", "+", "b", "+", ("X", False)),
        "b-a-X'": ("b", "-", "a", "-", ("X", True)),
        "b-a-X": ("b", "-", "a", "-", ("X", False)),
        "a+a-X": ("a", "+", "a", "-", ("X", False)),
        "a+a-X'": ("a", "+", "a", "-", ("X", True)),
        "a+a+X": ("a", "+", "a", "+", ("X", False)),
        "a-a-X'": ("a", "-", "a", "-", ("X", True)),
        "a+b+*": ("a", "+", "b", "+", ("*", False)),
        "b-a-*": ("b", "-", "a", "-", ("*", False)),
    }

    def compl(d):
        fs, fo, ts, to, (cid, c) = d
        return (ts, spec.INVERT[to], fs, spec.INVERT[fo],
                (cid, (not c) if cid != "*" else False))
    for elem_kind, oldk, newk in itertools.product(
            ["line", "oriented+", "oriented-"], sorted(descr),
            sorted(descr) + ["none"]):
        d_old = descr[oldk]
        d_new = descr.get(newk)
        if d_new is not None:
            # the placeholder a path creates may have an unspecified overlap:
            # the real link that replaces it is the same / the complement up
            # to that overlap (same test as Path._initialize_links uses when
            # the link comes first)
            def ovc(a, b):
                return a[0] == "*" or b[0] == "*" or a == b
            c_old = compl(d_old)
            is_c = d_new[:4] == c_old[:4] and (
                d_new[4] == c_old[4] or
                (d_old[4][0] == "*" and ovc(d_new[4], c_old[4])))
            is_s = d_new[:4] == d_old[:4] and (
                d_new[4] == d_old[4] or
                (d_old[4][0] == "*" and ovc(d_new[4], d_old[4])))
            if is_c and is_s:
                continue        # self-complementary: direction is ambiguous
            if not (is_c or is_s):
                continue        # a placeholder is only replaced by an
                                # equivalent link
        else:
            is_c = False
            if elem_kind != "line":
                # an oriented entry whose link is removed: unreachable, the
                # only oriented lists of links are the `links` of paths, and a
                # path is a dependant of its links (disconnected first)
                continue
        ctx.instance(R)

        class ContentEq(OvHooks):
            # Line.__eq__ compares content (decided by C19.equality): two
            # distinct links with the same fields are equal, never identical
            def eq(self, ev, a, b):
                if isinstance(a, Abs) and isinstance(b, Abs) and \
                        "content" in a.attrs and "content" in b.attrs:
                    return a.attrs["content"] == b.attrs["content"]
                return super().eq(ev, a, b)
        oh = ContentEq(repo)

        def mk(d, label):
            return Abs(L, label=label, from_segment=segs[d[0]],
                       from_orient=d[1], to_segment=segs[d[2]],
                       to_orient=d[3], overlap=oh.ov(*d[4]), content=d)
        old = mk(d_old, "old")
        # the other entries of the list are a distinct line with the very
        # same content (a parallel edge, a duplicate line)
        other = mk(d_old, "other")
        new = mk(d_new, "new") if d_new is not None else None

        def wrap(x):
            if elem_kind == "line":
                return x
            return Abs(OL, label="ol:" + x.label, line=x,
                       orient=elem_kind[-1], name=x.label)
        lst = [wrap(other), wrap(old), wrap(other), wrap(old)]
        me = Abs(E, label="me")
        out = eval_function(repo, f_ul, [me, lst, old, new], hooks=oh)
        if new is None and out[0] == "return" and \
                any(x is old for x in lst):
            # the removal loops call once per reference field of the removed
            # line, i.e. once per entry of a line listed twice
            out = eval_function(repo, f_ul, [me, lst, old, new], hooks=oh)

        def show(x):
            if isinstance(x, Abs) and x.cls is OL:
                return "%s%s" % (getattr(x.attrs["line"], "label", None),
                                 x.attrs["orient"])
            return getattr(x, "label", x)
        got = [show(x) for x in lst]
        want = None
        if elem_kind == "line":
            want = ["other", "new", "other", "new"] if new is not None \
                else ["other", "other"]
        else:
            o = elem_kind[-1]
            flip = spec.INVERT[o] if is_c else o
            if new is not None:
                want = ["other" + o, "new" + flip, "other" + o, "new" + flip]
        if want is not None:
            ok = out[0] == "return" and got == want
        else:
            # oriented entries whose line was removed: only the untouched
            # entries are compared (a removed link can only sit in a path,
            # which is a dependant and is disconnected with it)
            ok = out[0] == "return" and \
                got[0] == "other" + elem_kind[-1] and \
                got[2] == "other" + elem_kind[-1]
        ctx.oblige(ok)
        if not ok:
            ctx.violation(R, f_ul.short,
                          "entries=%s,old=%s,new=%s" % (elem_kind, oldk, newk),
                          "list becomes %r, expected %r (the orientation of "
                          "an entry flips exactly when the new link is the "
                          "complement of the old one)" % (got, want))
    ctx.exhaustive[R] = True


# --------------------------------------------------------------------------
def rule_identity_membership(ctx, R):
    """Lines are compared by content (Equivalence.__eq__): two distinct lines
    with the same text are equal.  Wherever the reference graph is built or
    taken apart, membership of a *line* in a *collection of lines* must
    therefore not be tested with `in` / `not in` (the tree's own idiom is
    `x is line` or `id(x) in seen`)."""
    import ast
    from ..model import unparse, walk_no_nested, record_classes, record_table
    ctx.rule(R, "in the functions that build or take apart the reference "
             "graph (connection, disconnection, update/virtual-to-real "
             "helpers, every `references` mixin, the destructors) no "
             "`in` / `not in` test has a line on the left (self, or the "
             "variable of a loop over a reference collection) and a "
             "collection of lines on the right (a reference getter, "
             "`_refs[...]`, `getattr(x, key)`, or a local list filled with "
             "such lines): Line.__eq__ compares content, so parallel edges "
             "or duplicate lines would be conflated", floor=3)
    repo = ctx.repo
    refkeys = set()
    for c in record_classes(repo):
        t = record_table(repo, c)
        refkeys.update(t.refkeys)

    def in_scope(f):
        m = f.module.name
        return m.endswith(".references") or m in (
            "gfapy.line.common.connection", "gfapy.line.common.disconnection",
            "gfapy.line.common.update_references",
            "gfapy.line.common.virtual_to_real", "gfapy.lines.destructors")

    def is_refcoll(e, accum):
        if isinstance(e, ast.Call) and isinstance(e.func, ast.Name) and \
                e.func.id in ("list", "reversed", "tuple", "sorted") and \
                e.args:
            return is_refcoll(e.args[0], accum)
        if isinstance(e, ast.Attribute) and e.attr in refkeys:
            return True
        if isinstance(e, ast.Subscript) and \
                isinstance(e.value, ast.Attribute) and e.value.attr == "_refs":
            return True
        if isinstance(e, ast.Call) and isinstance(e.func, ast.Attribute) and \
                e.func.attr == "get" and \
                isinstance(e.func.value, ast.Attribute) and \
                e.func.value.attr == "_refs":
            return True
        if isinstance(e, ast.Call) and isinstance(e.func, ast.Name) and \
                e.func.id == "getattr" and len(e.args) >= 2:
            return True
        if isinstance(e, ast.Name) and e.id in accum:
            return True
        return False

    n_funcs = 0
    for f in sorted(repo.functions.values(), key=lambda f: f.qualname):
        if not in_scope(f):
            continue
        n_funcs += 1
        # loop variables over reference collections, and accumulators
        linevars = set()
        if f.self_name:
            linevars.add(f.self_name)
        accum = set()
        for _ in range(3):
            for n in walk_no_nested(f.node):
                if isinstance(n, (ast.For, ast.comprehension)) and \
                        is_refcoll(n.iter, accum):
                    for t in ast.walk(n.target):
                        if isinstance(t, ast.Name):
                            linevars.add(t.id)
                if isinstance(n, ast.Call) and \
                        isinstance(n.func, ast.Attribute) and \
                        n.func.attr in ("append", "add", "insert") and \
                        isinstance(n.func.value, ast.Name) and n.args and \
                        isinstance(n.args[-1], ast.Name) and \
                        n.args[-1].id in linevars:
                    accum.add(n.func.value.id)
                if isinstance(n, ast.Assign) and len(n.targets) == 1 and \
                        isinstance(n.targets[0], ast.Name) and \
                        is_refcoll(n.value, accum):
                    accum.add(n.targets[0].id)
        for n in walk_no_nested(f.node):
            if isinstance(n, ast.Compare) and len(n.ops) == 1 and \
                    isinstance(n.ops[0], (ast.In, ast.NotIn)):
                ctx.instance(R)
                left, right = n.left, n.comparators[0]
                bad = isinstance(left, ast.Name) and left.id in linevars and \
                    is_refcoll(right, accum)
                ctx.oblige(not bad)
                if bad:
                    ctx.violation(
                        R, f.short, unparse(n)[:70],
                        "tests whether a line is in a collection of lines "
                        "with `in`, i.e. by content: a distinct line with "
                        "the same text (a parallel edge, a duplicate C/F "
                        "line, a second `*`-named edge) counts as present")
    ctx.notes["identity_membership_functions"] = n_funcs


# --------------------------------------------------------------------------
def rule_group_merge_mentions(ctx, R):
    """a second U/O line with the same identifier: every item it mentions has
    received a back-reference (sets/paths) from _initialize_references, so
    every mention must be kept in the merged item list"""
    import itertools
    ctx.rule(R, "SameID._process_not_unique: the items of the merged group "
             "are the items of the previous definition followed by all the "
             "items of the new line (each mention has its own back-reference; "
             "dropping a repeated mention leaves two back-references for one "
             "reference)", floor=2)
    repo = ctx.repo
    gfacls = repo.cls("Gfa")

    # what taking the place of a line consists of (the four steps of
    # VirtualToReal._substitute_virtual_line, whose own order and content
    # C03 decides): the references the previous definition makes, the
    # back-references to it from its items, and -- the previous definition
    # being a line others may mention -- the back-references it has received
    # (sets / paths it is an item of) and the mentions of it in those lines
    v2r = ctx.anchor("Line._substitute_virtual_line", repo.cls(
        "line.group.Unordered").find_method("_substitute_virtual_line"))
    grp = repo.cls("line.group.Unordered")

    def steps_of(f, seen):
        """leaf calls self.<step>(<the previous line>) reached from f"""
        pp = f.params[1] if len(f.params) > 1 else None
        out = []
        for n in ast.walk(f.node):
            if isinstance(n, ast.Call) and \
                    isinstance(n.func, ast.Attribute) and \
                    isinstance(n.func.value, ast.Name) and \
                    n.func.value.id == f.self_name and len(n.args) == 1 and \
                    isinstance(n.args[0], ast.Name) and n.args[0].id == pp:
                g = grp.find_method(n.func.attr)
                sub = steps_of(g, seen | {f}) if g is not None and \
                    g not in seen else []
                for x in (sub or [n.func.attr]):
                    if x not in out:
                        out.append(x)
        return out
    TAKEOVER = steps_of(v2r, frozenset())
    if len(TAKEOVER) < 4:
        raise AnalysisError("anchor vanished: the takeover steps "
                            "self.<step>(previous) of _substitute_virtual_line"
                            " (found %r)" % TAKEOVER)

    class MH(LineHooks):
        def before_inline(self, ev, func, args, kwargs):
            if func.name == "_initialize_references":
                return None
            if func.name == "_substitute_virtual_line":
                # the new line takes over the fields of the previous one
                args[0].attrs["_data"]["items"] = list(
                    args[1].attrs["_data"]["items"])
                args[0].attrs["_gfa"] = args[1].attrs["_gfa"]
                for step in TAKEOVER:
                    ev.events.append(("takeover", step))
                return None
            if func.name in TAKEOVER:
                # the steps of a substitution, when the merge spells them
                # out instead of calling _substitute_virtual_line
                if not args[0].attrs.get("__took_fields__"):
                    # (the data effect of the takeover as a whole, applied
                    # at its first step)
                    args[0].attrs["__took_fields__"] = True
                    args[0].attrs["_data"]["items"] = list(
                        args[1].attrs["_data"]["items"])
                ev.events.append(("takeover", func.name))
                return None
            if func.name in ("_set_existing_field", "set"):
                args[0].attrs["_data"][args[1]] = args[2]
                return None
            return NotImplemented

        def method(self, ev, base, name, args, kwargs, node):
            if isinstance(base, Abs) and name == "get" and \
                    "_data" in base.attrs:
                return base.attrs["_data"].get(args[0])
            if isinstance(base, Abs) and name in ("_set_existing_field",
                                                  "set") and \
                    "_data" in base.attrs:
                base.attrs["_data"][args[0]] = args[1]
                return None
            return super().method(ev, base, name, args, kwargs, node)

        def getattr(self, ev, base, attr):
            if isinstance(base, Abs) and attr == "tagnames" and \
                    "_data" in base.attrs:
                return [k for k in base.attrs["_data"] if k != "items"]
            if isinstance(base, Abs) and attr == "gfa":
                return base.attrs.get("_gfa")
            return super().getattr(ev, base, attr)
    for rt, clsname in (("U", "line.group.Unordered"),
                        ("O", "line.group.Ordered")):
        c = repo.cls(clsname)
        f = ctx.anchor("%s._process_not_unique" % c.name,
                       c.find_method("_process_not_unique"))
        ctx.instance(R)
        g = Abs(gfacls, label="gfa")
        prev = Abs(c, label="prev", _gfa=g, record_type=rt,
                   _data={"items": ["a", "b"]}, name="g1", _virtual=False)
        ln = Abs(c, label="line", _gfa=None, record_type=rt,
                 _data={"items": ["b", "c"]}, name="g1")
        out = eval_function(repo, f, [ln, prev], hooks=MH(repo))
        got = ln.attrs["_data"].get("items")
        ok = out[0] == "return" and got == ["a", "b", "b", "c"]
        ctx.oblige(ok)
        if not ok:
            ctx.violation(R, f.short, "record=%s,previous=a b,new=b c" % rt,
                          "outcome %s; merged items %r, expected "
                          "['a', 'b', 'b', 'c']" % (out[0], got))
        ctx.instance(R)
        steps = [e[1] for e in out[2] if e[0] == "takeover"]
        missing = [t for t in TAKEOVER if t not in steps]
        ctx.oblige(not missing)
        if missing:
            ctx.violation(R, f.short, "record=%s,takeover of the previous "
                          "definition" % rt,
                          "the merged line does not perform %s for the line "
                          "it replaces: groups that list the previous "
                          "definition keep pointing at a line that is no "
                          "longer in the Gfa" % ", ".join(missing))
    ctx.exhaustive[R] = True


# --------------------------------------------------------------------------
def rule_required_links(ctx, R):
    """shared by C01 and C03: which links a GFA1 path requires"""
    ctx.rule(R, "Path._compute_required_links: a path over n segments "
             "requires the n-1 links between consecutive segments (each with "
             "its overlap, or the placeholder when the overlaps are a single "
             "'*'), plus the link from the last to the first exactly when "
             "n > 1 overlaps close the circle; a one-segment path requires "
             "none; too few overlaps is an InconsistencyError", floor=9)
    repo = ctx.repo
    P = repo.cls("line.group.Path")
    f = ctx.anchor("Path._compute_required_links",
                   P.find_method("_compute_required_links"))
    PH = repo.cls("AlignmentPlaceholder")
    OLc = repo.cls("OrientedLine")

    class RH(LineHooks):
        def construct(self, ev, cls, args, kwargs):
            if cls is PH:
                return Abs(PH, label="*", __bool__=False)
            return super().construct(ev, cls, args, kwargs)

        def function(self, ev, node, args, kwargs):
            if unparse(node.func).endswith("is_placeholder") and \
                    len(args) == 1:
                a = args[0]
                return isinstance(a, Abs) and a.cls is PH
            return super().function(ev, node, args, kwargs)
    for n, ovs in ((1, ["*"]), (1, ["o0"]), (2, ["*"]), (2, ["o0"]),
                   (2, ["o0", "o1"]), (3, ["*"]), (3, ["o0", "o1"]),
                   (3, ["o0", "o1", "o2"]), (3, ["o0"]), (4, ["o0", "o1"])):
        ctx.instance(R)
        segs = [Abs(OLc, label="s%d+" % i, name="s%d" % i, orient="+")
                for i in range(n)]
        overlaps = [Abs(PH, label="*", __bool__=False) if o == "*" else
                    Abs(None, label=o) for o in ovs]
        p = Abs(P, label="path", segment_names=segs, overlaps=overlaps)
        out = eval_function(repo, f, [p], hooks=RH(repo))
        undef = ovs == ["*"]
        if n == 1:
            want = []
        elif undef:
            want = [(i, i + 1, "*") for i in range(n - 1)]
        elif len(ovs) < n - 1:
            want = "InconsistencyError"
        else:
            want = [(i, i + 1, ovs[i]) for i in range(n - 1)]
            if len(ovs) == n:
                want.append((n - 1, 0, ovs[n - 1]))
        if want == "InconsistencyError":
            ok = out[0] == "raise" and str(out[1]).endswith(want)
            got = out[0:2]
        elif out[0] != "return" or not isinstance(out[1], list):
            ok, got = False, out[0:2]
        else:
            got = []
            for item in out[1]:
                a, b, c = item
                got.append((segs.index(a) if a in segs else a,
                            segs.index(b) if b in segs else b,
                            c.label if isinstance(c, Abs) else c))
            ok = got == want
        ctx.oblige(ok)
        if not ok:
            ctx.violation(R, f.short, "segments=%d,overlaps=%s" % (
                n, ",".join(ovs)), "requires %r, expected %r" % (got, want))
    ctx.exhaustive[R] = True


# --------------------------------------------------------------------------
def rule_group_merge_tags(ctx, R):
    """shared by C03 and C20: the tags a later line of a multi-line group
    inherits from the earlier definition keep their datatype"""
    ctx.rule(R, "SameID._import_tags_of_previous_group_definition: a tag the "
             "new line of a group does not define is taken from the previous "
             "definition with its value *and* its datatype (a J list of "
             "integers does not become a B array, an f tag holding 3 does "
             "not become i), whichever of the two lines arrived first",
             floor=4)
    repo = ctx.repo
    U = repo.cls("line.group.Unordered")
    f = ctx.anchor("SameID._import_tags_of_previous_group_definition",
                   U.find_method("_import_tags_of_previous_group_definition"))

    class MH(LineHooks):
        def before_inline(self, ev, func, args, kwargs):
            if func.name == "_get_default_gfa_tag_datatype":
                v = args[0]
                return "B" if isinstance(v, list) else \
                    "i" if isinstance(v, int) else "Z"
            if func.name in ("_define_field_methods",):
                return None
            if func.name == "_is_valid_custom_tagname":
                return True
            if func.name == "_validate_gfa_field":
                return None
            return NotImplemented

        def method(self, ev, base, name, args, kwargs, node):
            # the field storage of the two lines is the real one
            if name in ("_set_existing_field", "get", "set"):
                return NotImplemented
            return super().method(ev, base, name, args, kwargs, node)
    for vl, (value, dt) in itertools.product(
            (0, 1, 3), (([1, 2], "J"), (3, "f"), ("txt", "Z"))):
        ctx.instance(R)
        prev = Abs(U, label="previous", vlevel=vl, _virtual=False,
                   virtual=False, _gfa=None,
                   _data={"uid": "u", "items": [], "xx": value},
                   _datatype={"xx": dt}, tagnames=["xx"])
        new = Abs(U, label="new", vlevel=vl, _virtual=False, virtual=False,
                  _gfa=None, _data={"uid": "u", "items": []}, _datatype={})
        try:
            out = eval_function(repo, f, [new, prev], hooks=MH(repo))
        except Unsupported as e:
            raise AnalysisError(str(e))
        got_v = new.attrs["_data"].get("xx")
        got_dt = new.attrs["_datatype"].get("xx")
        ok = out[0] in ("return", "fall") and got_dt == dt and \
            (got_v == value or got_v is value)
        ctx.oblige(ok)
        if not ok:
            ctx.violation(R, f.short, "tag xx:%s:%r,vlevel=%d" % (
                dt, value, vl), "the merged line holds %r with datatype %r "
                "(outcome %r)" % (got_v, got_dt, out[0:2]))
    ctx.exhaustive[R] = True
