"""Regular expressions applied inside a function, with their pattern text
resolved: a constant, a module-level name, a class-level attribute
(`cls.X`, `self.X`, `ClassName.X`) bound to a string or to
`re.compile("...")` without flags."""
import ast

from ..model import dotted

MODES = ("match", "search", "fullmatch")


def _const_text(v):
    if isinstance(v, ast.Constant) and isinstance(v.value, str):
        return v.value
    if isinstance(v, ast.Call) and dotted(v.func) == "re.compile" and \
            len(v.args) == 1 and not v.keywords:
        return _const_text(v.args[0])
    return None


def _binding(func, node):
    """value expression bound to the name / attribute `node` at module or
    class level, or None"""
    if isinstance(node, ast.Name):
        # a local assignment in the function itself comes first
        for n in ast.walk(func.node):
            if isinstance(n, ast.Assign) and len(n.targets) == 1 and \
                    isinstance(n.targets[0], ast.Name) and \
                    n.targets[0].id == node.id:
                return n.value
        body = func.module.tree.body
        name = node.id
    elif isinstance(node, ast.Attribute) and func.cls is not None:
        hit = func.cls.find_attr(node.attr)
        if hit is None:
            return None
        return hit[1]
    else:
        return None
    vals = [st.value for st in body
            if isinstance(st, ast.Assign) and len(st.targets) == 1 and
            isinstance(st.targets[0], ast.Name) and
            st.targets[0].id == name]
    return vals[0] if len(vals) == 1 else None


def regex_sites(func):
    """[(call node, pattern text or None, mode)] for every regex test in the
    function (re.match/search/fullmatch and <pattern object>.match/...)"""
    out = []
    for n in ast.walk(func.node):
        if not isinstance(n, ast.Call):
            continue
        d = dotted(n.func)
        if d in ("re.match", "re.search", "re.fullmatch") and n.args:
            pat = _const_text(n.args[0])
            if pat is None:
                b = _binding(func, n.args[0])
                pat = _const_text(b) if b is not None else None
            out.append((n, pat, d.split(".")[1]))
        elif isinstance(n.func, ast.Attribute) and n.func.attr in MODES and \
                len(n.args) == 1 and not (
                    isinstance(n.func.value, ast.Name) and
                    n.func.value.id == "re"):
            b = _binding(func, n.func.value)
            if b is None:
                continue
            pat = _const_text(b)
            if pat is not None or (isinstance(b, ast.Call) and
                                   dotted(b.func) == "re.compile"):
                out.append((n, pat, n.func.attr))
    return out
