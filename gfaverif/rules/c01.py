"""C01 -- parse -> write round trip preserves every record, field and tag.

Decided clauses: (a) codec agreement -- whatever class the reader of a datatype
produces, the writer of the same datatype accepts (otherwise Writer.to_list
swallows the error and flags the line '# INVALID'); (b) every datatype named by
a record table or by TAG_DATATYPE has a codec module; (c) nothing is dropped on
write -- Gfa.lines lists every record stored by _register_line for every
storage kind and version, _register_line and _unregister_line use the same
key, Writer.to_list emits the record type, every positional field and every
tag, Multiline._split emits one H line per stored tag value; (d) the file
reader strips exactly CR/LF and the file writer terminates lines with LF;
(e) the string / list entry points hand every line to add_line.
Not decided: value equality, tag order, number spelling, the fixed point on
concrete documents.
"""
import ast
import itertools

from .. import spec, codec
from ..model import (AnalysisError, record_classes, record_table, class_const,
                     unparse, dotted)
from ..tables import Abs, eval_function, Unsupported
from ..linehooks import LineHooks


def run(ctx):
    repo = ctx.repo
    rule_alias_shadow(ctx, "C01.alias_shadow")
    from .c04 import rule_custom_record_tag_scan
    rule_custom_record_tag_scan(ctx, "C01.custom_record_tag_scan")
    from .c13 import rule_segment_tag_scan
    rule_segment_tag_scan(ctx, "C01.segment_tag_scan")
    from .refgraph import rule_required_links
    rule_required_links(ctx, "C01.path_required_links")
    fm = codec.field_modules(repo)
    hooks = LineHooks(repo)
    modules = {}
    for dt, m in fm.items():
        modules.setdefault(m.name.split(".")[-1], m)

    # ------------------------------------------------------------------
    R = "C01.codec_agreement"
    ctx.rule(R, "for each of the datatype modules: every class decode / "
             "unsafe_decode can return is accepted by encode of the same "
             "module (no TypeError at its type gate)", floor=60)
    for name, m in sorted(modules.items()):
        enc = ctx.anchor("%s.encode" % name, codec.module_func(repo, m,
                                                               "encode"))
        for dn in ("decode", "unsafe_decode"):
            dec = codec.module_func(repo, m, dn)
            if dec is None:
                continue
            rejected = []
            for t in sorted(codec.return_types(repo, dec)):
                if t == "?":
                    continue
                ctx.instance(R)
                acc = codec.accepts_type(repo, enc, codec.sample_value(repo, t))
                if acc is None:
                    ctx.undecided.append("%s %s: encode(%s) not followed" %
                                         (R, name, t))
                    continue
                ctx.oblige(acc)
                if not acc:
                    rejected.append(t)
            if rejected:
                ctx.violation(
                    R, enc.short, "datatype=%s,decoder=%s,classes=%s" % (
                        name, dn, "+".join(rejected)),
                    "%s.%s can return %s, which encode of the same datatype "
                    "rejects with TypeError: the field is written as "
                    "'# INVALID'" % (name, dn, ", ".join(rejected)))
    # the non-validating encoders: the writer reaches them only when some
    # caller of Field._to_gfa_field passes a `safe` argument that can be
    # false.  When one does, unsafe_encode must take every class the decoders
    # return, as encode does (otherwise a decoded field is written as
    # '# INVALID' exactly at the levels that caller selects)
    unsafe_callers = []
    for f in repo.functions.values():
        if not f.module.name.startswith("gfapy"):
            continue
        for n in ast.walk(f.node):
            if isinstance(n, ast.Call) and isinstance(n.func, ast.Attribute) \
                    and n.func.attr == "_to_gfa_field":
                sv = [k.value for k in n.keywords if k.arg == "safe"]
                if len(n.args) >= 3:
                    sv.append(n.args[2])
                for v in sv:
                    if not (isinstance(v, ast.Constant) and v.value is True):
                        unsafe_callers.append("%s: safe=%s" % (
                            f.short, unparse(v)))
    ctx.notes["callers_selecting_unsafe_encoders"] = unsafe_callers
    if unsafe_callers:
        for name, m in sorted(modules.items()):
            uenc = codec.module_func(repo, m, "unsafe_encode")
            if uenc is None:
                continue
            types = set()
            for dn in ("decode", "unsafe_decode"):
                dec = codec.module_func(repo, m, dn)
                if dec is not None:
                    types |= codec.return_types(repo, dec)
            for t in sorted(types - {"?"}):
                ctx.instance(R)
                got = codec.gate_outcome(repo, uenc,
                                         codec.sample_value(repo, t))
                ok = got == "accept" or got is None
                ctx.oblige(ok)
                if not ok:
                    ctx.violation(
                        R, uenc.short, "datatype=%s,class=%s" % (name, t),
                        "%s selects the non-validating encoders, and "
                        "%s.unsafe_encode fails on a %s (%s), which the "
                        "decoder returns" % (unsafe_callers[0], name, t, got))
    ctx.exhaustive[R] = True

    # ------------------------------------------------------------------
    R = "C01.registry"
    ctx.rule(R, "every datatype named in a record's DATATYPE table, in "
             "TAG_DATATYPE / POSFIELD_DATATYPE, in DELAYED_PARSING_DATATYPES "
             "(if a datatype at all) or passed as a literal to "
             "_init_field_value is a key of Field.FIELD_MODULE", floor=20)
    fieldcls = repo.cls("Field")
    names = set()
    for c in record_classes(repo):
        names |= set(record_table(repo, c).DATATYPE.values())
    for attr in ("TAG_DATATYPE", "POSFIELD_DATATYPE", "FIELD_DATATYPE"):
        names |= set(class_const(repo, fieldcls, ctx.anchor(
            "Field." + attr, fieldcls.attrs.get(attr))))
    for f in repo.functions.values():
        for n in ast.walk(f.node):
            if isinstance(n, ast.Call) and isinstance(n.func, ast.Attribute) \
                    and n.func.attr == "_init_field_value" and \
                    len(n.args) >= 2 and isinstance(n.args[1], ast.Constant):
                names.add(n.args[1].value)
    for dt in sorted(names):
        ctx.instance(R)
        ok = dt in fm
        ctx.oblige(ok)
        if not ok:
            ctx.violation(R, "field.field.Field", "datatype=%r" % dt,
                          "datatype %r is used but has no entry in "
                          "FIELD_MODULE" % dt)
    ctx.exhaustive[R] = True

    # ------------------------------------------------------------------
    R = "C01.nothing_dropped"
    ctx.rule(R, "Gfa.lines returns every record stored under every storage "
             "key (comments, header, S, L/C/P or E/G/F/O/U, custom record "
             "types) exactly once for the Gfa's version; _register_line "
             "stores a line where _unregister_line and the collections look "
             "for it, for each storage kind (name, placeholder name, "
             "external, unnamed, merged header)", floor=20)
    gfacls = repo.cls("Gfa")
    f_lines = ctx.anchor("Gfa.lines", gfacls.find_method("lines"))
    hdr = repo.cls("line.Header")

    class LH(LineHooks):
        def before_inline(self, ev, func, args, kwargs):
            if func.name == "_split":
                return ["<H1>", "<H2>"]
            return NotImplemented
    for version in ("gfa1", "gfa2", None):
        ctx.instance(R)
        recs = {"#": {1: "<#>"}, "H": Abs(hdr, label="header"),
                "S": {"a": "<S>"}, "L": {}, "C": {}, "P": {}, "E": {},
                "G": {}, "O": {}, "U": {}, "F": {}, "\n": {}, "Y": {}}
        if version in ("gfa1", None):
            recs.update({"L": {2: "<L>"}, "C": {3: "<C>"}, "P": {"p": "<P>"}})
        if version in ("gfa2", None):
            recs.update({"E": {"e": "<E>", 4: "<E*>"}, "G": {"g": "<G>"},
                         "O": {"o": "<O>"}, "U": {"u": "<U>"},
                         "F": {"ext": {5: "<F1>", 6: "<F2>"}},
                         "X": {7: "<X>"}})
        g = Abs(gfacls, label="gfa", _version=version, _records=recs,
                _line_queue=[], _version_guess="gfa2")
        out = eval_function(repo, f_lines, [g], hooks=LH(repo))
        if version == "gfa1":
            want = ["<#>", "<H1>", "<H2>", "<S>", "<L>", "<C>", "<P>"]
        elif version == "gfa2":
            want = ["<#>", "<H1>", "<H2>", "<S>", "<E>", "<E*>", "<O>", "<U>",
                    "<G>", "<F1>", "<F2>", "<X>"]
        else:
            want = ["<#>", "<H1>", "<H2>", "<S>", "<L>", "<C>", "<E>", "<E*>",
                    "<P>", "<O>", "<U>", "<G>", "<F1>", "<F2>", "<X>"]
        got = list(out[1]) if out[0] == "return" else None
        ok = got is not None and sorted(got) == sorted(want)
        ctx.oblige(ok)
        if not ok:
            ctx.violation(R, f_lines.short, "version=%s" % version,
                          "lists %r; every stored record must appear exactly "
                          "once: %r" % (got, want))
    f_reg = ctx.anchor("Gfa._register_line",
                       gfacls.find_method("_register_line"))
    f_unreg = ctx.anchor("Gfa._unregister_line",
                         gfacls.find_method("_unregister_line"))
    PH = repo.cls("Placeholder")
    OL = repo.cls("OrientedLine")

    class RH(LineHooks):
        def before_inline(self, ev, func, args, kwargs):
            if func.name == "_api_private_check_gfa_line":
                return None
            if func.name == "_merge":
                ev.events.append(("merge", args[0].label, args[1].label))
                return args[0]
            return NotImplemented

        def function(self, ev, node, args, kwargs):
            if isinstance(node.func, ast.Name) and node.func.id == "id":
                return ("id", args[0].label)
            return super().function(ev, node, args, kwargs)
    kinds = []
    for c in record_classes(repo):
        t = record_table(repo, c)
        if t.RECORD_TYPE is None:
            kinds.append((c, "X", "custom"))
        elif t.STORAGE_KEY == "name":
            kinds.append((c, t.RECORD_TYPE, "named"))
            kinds.append((c, t.RECORD_TYPE, "placeholder-name"))
        elif t.STORAGE_KEY == "external":
            kinds.append((c, t.RECORD_TYPE, "external"))
        elif t.STORAGE_KEY == "merge":
            kinds.append((c, t.RECORD_TYPE, "merge"))
        else:
            kinds.append((c, t.RECORD_TYPE, "unnamed"))
    for c, rt, kind in kinds:
        ctx.instance(R)
        header = Abs(hdr, label="header")
        recs = {"H": header}
        for k in ("S", "L", "C", "P", "E", "G", "O", "U", "F", "#", "\n"):
            recs[k] = {}
        g = Abs(gfacls, label="gfa", _records=recs, _max_int_name=0)
        name = "12" if kind == "named" else \
            Abs(PH, label="*", __bool__=False)
        ln = Abs(c, label="line", name=name, record_type=rt,
                 external=Abs(OL, line="ext", orient="+", name="ext"))
        out = eval_function(repo, f_reg, [g, ln], hooks=RH(repo))
        cell = "class=%s,kind=%s" % (c.name, kind)
        if kind == "merge":
            ok = out[0] == "return" and ("merge", "header", "line") in out[2]
            ctx.oblige(ok)
            if not ok:
                ctx.violation(R, f_reg.short, cell,
                              "a header line is not merged into the header")
            continue
        where = find_line(recs, ln)
        if kind == "named":
            want = [(rt, "12")]
        elif kind == "external":
            want = [(rt, "ext", id(ln))]
        else:
            want = [(rt, id(ln))]
        ok = out[0] == "return" and where == want
        ctx.oblige(ok)
        if not ok:
            ctx.violation(R, f_reg.short, cell,
                          "registered at %r, expected %r (%r)" % (
                              where, want, out[0:2]))
            continue
        if kind == "named":
            ok = g.attrs["_max_int_name"] == 12
            ctx.oblige(ok)
            if not ok:
                ctx.violation(R, f_reg.short, cell + ",max_int_name",
                              "registering the integer name 12 leaves "
                              "_max_int_name at %r" % g.attrs["_max_int_name"])
        out = eval_function(repo, f_unreg, [g, ln], hooks=RH(repo))
        ok = out[0] == "return" and find_line(recs, ln) == []
        if ok and kind == "external":
            ok = "ext" not in recs[rt]
        ctx.oblige(ok)
        if not ok:
            ctx.violation(R, f_unreg.short, cell,
                          "after unregistering, the line is still stored at "
                          "%r (%r)" % (find_line(recs, ln), out[0:2]))
    ctx.exhaustive[R] = True

    # ------------------------------------------------------------------
    R = "C01.line_writer"
    ctx.rule(R, "Writer.to_list emits the record type, then every positional "
             "field, then every tag (name:type:value), nothing else for a "
             "real line; a field whose conversion fails is flagged, not "
             "silently dropped; __str__ joins with tabs; Multiline._split "
             "yields one H line per stored tag value; Gfa.__str__ joins the "
             "lines with newlines", floor=6)
    seg = repo.cls("line.segment.GFA1")
    f_tl = ctx.anchor("Writer.to_list", seg.find_method("to_list"))

    class WH(LineHooks):
        def __init__(self, repo, failing=()):
            super().__init__(repo)
            self.failing = failing

        def before_inline(self, ev, func, args, kwargs):
            if func.name == "field_to_s":
                fn = args[1]
                if fn in self.failing:
                    from ..tables import Raised
                    raise Raised("gfapy.FormatError")
                tag = kwargs.get("tag", args[2] if len(args) > 2 else False)
                return "<%s:%s>" % ("tag" if tag else "pos", fn)
            return NotImplemented

        def method(self, ev, base, name, args, kwargs, node):
            if name == "get" and isinstance(base, Abs) and len(args) == 1:
                return "<raw:%s>" % args[0]
            return super().method(ev, base, name, args, kwargs, node)
    for virtual, failing in ((False, ()), (True, ()), (False, ("sequence",)),
                             (False, ("xx",))):
        ctx.instance(R)
        ln = Abs(seg, label="line", _virtual=virtual,
                 _data={"name": "a", "sequence": "ACG", "LN": 3, "xx": "v"},
                 _datatype={})
        out = eval_function(repo, f_tl, [ln], hooks=WH(repo, failing))
        want = ["S", "<pos:name>",
                "<raw:sequence>" if "sequence" in failing else "<pos:sequence>",
                "<tag:LN>", "<raw:xx>" if "xx" in failing else "<tag:xx>"]
        got = list(out[1]) if out[0] == "return" else None
        ok = got is not None and got[:5] == want
        if ok:
            rest = got[5:]
            if virtual:
                ok = rest == ["co:Z:GFAPY_virtual_line"]
            elif failing:
                ok = len(rest) == 1 and rest[0].startswith("# INVALID") and \
                    failing[0] in rest[0]
            else:
                ok = rest == []
        ctx.oblige(ok)
        if not ok:
            ctx.violation(R, f_tl.short, "virtual=%s,failing=%r" % (
                virtual, failing), "emits %r" % (got,))
    f_sp = ctx.anchor("Header._split", hdr.find_method("_split"))
    FA = repo.cls("FieldArray")

    class SH(LineHooks):
        def __init__(self, repo):
            super().__init__(repo)
            self.made = []

        def construct(self, ev, cls, args, kwargs):
            if cls is hdr:
                h = Abs(hdr, label="H%d" % len(self.made), _sets=[],
                        _datatype={}, _data={})
                self.made.append(h)
                return h
            return super().construct(ev, cls, args, kwargs)

        def method(self, ev, base, name, args, kwargs, node):
            if base in self.made and name in ("set", "set_datatype"):
                base.attrs["_sets"].append((name,) + tuple(args))
                return None
            return super().method(ev, base, name, args, kwargs, node)

        def before_inline(self, ev, func, args, kwargs):
            if func.name == "get_datatype":
                return DECLARED.get(args[1], "Z")
            return NotImplemented
    # yy is a character tag: the default datatype of its value would be Z
    DECLARED = {"VN": "Z", "xx": "i", "yy": "A"}
    ctx.instance(R)
    fa = Abs(FA, label="fa", datatype="i", _datatype="i", _data=[1, 2])
    fa.attrs["__iter__"] = None
    h = Abs(hdr, label="header", vlevel=1,
            _data={"VN": "1.0", "xx": fa, "yy": "v"},
            _datatype={"yy": "A"})
    sh = SH(repo)

    class SH2(SH):
        pass
    try:
        out = eval_function(repo, f_sp, [h], hooks=IterHooks(repo, sh))
        got = [tuple(x.attrs["_sets"]) for x in sh.made]
        want_sets = [("VN", "1.0"), ("xx", 1), ("xx", 2), ("yy", "v")]
        flat = [(s[1], s[2]) for t in got for s in t if s[0] == "set"]
        ok = out[0] == "return" and flat == want_sets and \
            list(out[1]) == sh.made
        # each emitted line knows the datatype the header declares for its
        # tag (recorded before the value is set, by set_datatype or in the
        # line's own table): set() alone would take the default datatype of
        # the value (a character tag would be written as a string)
        typed = []
        for x in sh.made:
            dts = dict(x.attrs.get("_datatype") or {})
            for s_ in x.attrs["_sets"]:
                if s_[0] == "set_datatype" and len(s_) == 3:
                    dts[s_[1]] = s_[2]
                elif s_[0] == "set":
                    typed.append((s_[1], dts.get(s_[1])))
        ok_dt = all(dt == DECLARED[t] for t, dt in typed)
    except Unsupported as e:
        ok = False
        ok_dt = True
        typed = []
        flat = str(e)
    ctx.oblige(ok)
    if not ok:
        ctx.violation(R, f_sp.short, "tags=VN,xx(2 values),yy",
                      "split header lines carry %r, expected one line per "
                      "value: VN, xx=1, xx=2, yy" % (flat,))
    ctx.instance(R)
    ctx.oblige(ok_dt)
    if not ok_dt:
        ctx.violation(R, f_sp.short, "datatypes of VN:Z,xx:i,yy:A",
                      "the one-tag H lines are given the datatypes %r: a tag "
                      "whose declared datatype is not the default of its "
                      "value (yy:A:v) is written with another datatype" %
                      (typed,))
    f_gs = ctx.anchor("Gfa.__str__", gfacls.find_method("__str__"))
    ctx.instance(R)
    g = Abs(gfacls, label="gfa", lines=["l1", "l2", "l3"])
    out = eval_function(repo, f_gs, [g], hooks=hooks)
    ok = out[0] == "return" and out[1] == "l1\nl2\nl3"
    ctx.oblige(ok)
    if not ok:
        ctx.violation(R, f_gs.short, "join", "gives %r" % (out[1],))
    f_ls = ctx.anchor("Writer.__str__", repo.cls("Line").find_method("__str__"))
    ctx.instance(R)

    class JH(LineHooks):
        def before_inline(self, ev, func, args, kwargs):
            if func.name == "to_list":
                return ["S", "a", "*"]
            return NotImplemented
    out = eval_function(repo, f_ls, [Abs(repo.cls("line.Gap"), label="g")],
                        hooks=JH(repo))
    ok = out[0] == "return" and out[1] == "S\ta\t*"
    ctx.oblige(ok)
    if not ok:
        ctx.violation(R, f_ls.short, "join", "gives %r" % (out[1],))
    ctx.exhaustive[R] = True

    # ------------------------------------------------------------------
    R = "C01.file_io"
    ctx.rule(R, "Gfa.read_file strips exactly the characters CR and LF from "
             "the end of each line (nothing else) before add_line; to_file "
             "writes str(line) followed by a single LF; Gfa(str) splits on LF "
             "and Gfa(list) takes the elements as they are", floor=4)
    f_rf = ctx.anchor("Gfa.read_file", gfacls.find_method("read_file"))
    # interpreted on a file whose lines end with LF, CR LF, nothing (last
    # line), and whose fields end with blanks / other whitespace: exactly the
    # line terminator goes, everything else reaches add_line
    from .c13 import GfaHooks as _GH

    class FakeFile:
        def __init__(self, lines):
            self.lines = lines

        def __iter__(self):
            return iter(self.lines)

    file_lines = ["H\tVN:Z:1.0\n", "S\ta\t*\tzz:Z:trailing blanks  \r\n",
                  "S\tb\t*\tzz:Z:tab\t\n", "\n", "S\tc\t*\x0b\x0c",
                  ]
    want_lines = ["H\tVN:Z:1.0", "S\ta\t*\tzz:Z:trailing blanks  ",
                  "S\tb\t*\tzz:Z:tab\t", "", "S\tc\t*\x0b\x0c"]

    class ReadHooks(_GH):
        def function(self, ev, node, args, kwargs):
            if isinstance(node.func, ast.Name) and node.func.id == "open":
                ev.events.append(("open",) + tuple(args))
                return FakeFile(list(file_lines))
            return super().function(ev, node, args, kwargs)

        def method(self, ev, base, name, args, kwargs, node):
            if isinstance(base, Abs) and base.label == "gfa" and name in (
                    "add_line", "process_line_queue", "validate",
                    "_progress_log", "_progress_log_init",
                    "_progress_log_end"):
                ev.events.append((name,) + tuple(args))
                return None
            return super().method(ev, base, name, args, kwargs, node)
    for progress in (None, True):
        ctx.instance(R)
        g = Abs(gfacls, label="gfa", _progress=progress, _line_queue=[],
                _vlevel=0, _version=None, _version_guess="gfa2")
        try:
            out = eval_function(repo, f_rf, [g, "f.gfa"],
                                hooks=ReadHooks(repo))
        except Unsupported as e:
            raise AnalysisError(str(e))
        got = [e[1] for e in out[2] if e[0] == "add_line"]
        ok = out[0] == "return" and got == want_lines
        ctx.oblige(ok)
        if not ok:
            ctx.violation(R, f_rf.short, "strip (progress=%s)" % progress,
                          "outcome %r; add_line receives %r, expected %r: "
                          "only CR and LF at the end of a line are removed "
                          "(trailing blanks belong to the last field)" % (
                              out[0:2], got, want_lines))
    f_tf = ctx.anchor("Gfa.to_file", gfacls.find_method("to_file"))
    ctx.instance(R)

    class OutFile:
        def __init__(self):
            self.chunks = []

        def write(self, text):
            self.chunks.append(text)

        def writelines(self, texts):
            self.chunks.extend(texts)
    outfile = OutFile()

    class WriteHooks(_GH):
        def function(self, ev, node, args, kwargs):
            if isinstance(node.func, ast.Name) and node.func.id == "open":
                ev.events.append(("open",) + tuple(args) + tuple(
                    sorted(kwargs.items())))
                return outfile
            if isinstance(node.func, ast.Name) and node.func.id == "print" \
                    and "file" in kwargs:
                kwargs["file"].write(
                    kwargs.get("sep", " ").join(
                        self.to_str(ev, a) if isinstance(a, Abs) else str(a)
                        for a in args) + kwargs.get("end", "\n"))
                return None
            return super().function(ev, node, args, kwargs)

        def method(self, ev, base, name, args, kwargs, node):
            if base is outfile and name in ("write", "writelines"):
                getattr(outfile, name)(*args)
                return None
            return super().method(ev, base, name, args, kwargs, node)

        def to_str(self, ev, v):
            return "<%s>" % v.label
    lines_out = [Abs(repo.cls("line.Gap"), label="l%d" % i)
                 for i in range(3)]
    g = Abs(gfacls, label="gfa", lines=lines_out)
    try:
        out = eval_function(repo, f_tf, [g, "out.gfa"],
                            hooks=WriteHooks(repo))
    except Unsupported as e:
        raise AnalysisError(str(e))
    written = "".join(outfile.chunks)
    opened = [e for e in out[2] if e[0] == "open"]
    ok = out[0] in ("return", "fall") and written == "<l0>\n<l1>\n<l2>\n" \
        and len(opened) == 1 and "w" in [a for a in opened[0][2:]
                                        if isinstance(a, str)] + [
            v for a in opened[0][2:] if isinstance(a, tuple) for v in a]
    ctx.oblige(ok)
    if not ok:
        ctx.violation(R, f_tf.short, "write",
                      "outcome %r; opens %r and writes %r; each line must be "
                      "written as str(line) followed by one LF" % (
                          out[0:2], opened, written))
    f_init = ctx.anchor("Gfa.__init__", gfacls.find_method("__init__"))
    # Gfa(text) / Gfa(list): interpreted with the adders stubbed -- the text
    # is cut at LF only (not at CR, VT, FF, the Unicode separators, which
    # may occur inside a field), a list is taken as it is, every element
    # goes to add_line in order and the queue is processed afterwards
    from .c13 import GfaHooks
    hdr_cls = repo.cls("line.Header")

    class InitHooks(GfaHooks):
        stubs = ("add_line", "process_line_queue", "validate",
                 "_validate_version")

        def construct(self, ev, cls, args, kwargs):
            if cls is hdr_cls:
                return Abs(hdr_cls, label="header")
            return super().construct(ev, cls, args, kwargs)

        def method(self, ev, base, name, args, kwargs, node):
            if isinstance(base, Abs) and base.label == "gfa" and \
                    name in self.stubs:
                ev.events.append((name,) + tuple(args))
                return None
            if isinstance(base, Abs) and base.label == "header" and \
                    name == "connect":
                return None
            return super().method(ev, base, name, args, kwargs, node)
    odd = "S\ta\t*\rx\x0bY\x0c\x1c\x1d\x1e\x85\u2028z\u2029"
    for kind, arg, want in (
            ("text", "l1\n" + odd + "\nl3", ["l1", odd, "l3"]),
            ("text ending with LF", "l1\nl2\n", ["l1", "l2", ""]),
            ("list", ["l1", odd, "l3"], ["l1", odd, "l3"]),
            ("empty text", "", [""])):
        ctx.instance(R)
        g = Abs(gfacls, label="gfa")
        try:
            out = eval_function(repo, f_init, [g, arg], {"vlevel": 1},
                                hooks=InitHooks(repo))
        except Unsupported as e:
            raise AnalysisError(str(e))
        evs = [e for e in out[2] if e[0] in ("add_line",
                                             "process_line_queue")]
        ok = out[0] == "return" and \
            evs == [("add_line", w) for w in want] + [("process_line_queue",)]
        ctx.oblige(ok)
        if not ok:
            ctx.violation(R, f_init.short, "entry: Gfa(%s)" % kind,
                          "outcome %r; the lines handed to add_line are %r, "
                          "expected %r followed by the queue replay" % (
                              out[0:2], [e[1:] for e in evs], want))
    ctx.instance(R)
    f_add = gfacls.find_method("add_line")
    ok = f_add is not None
    ctx.oblige(ok)
    ctx.exhaustive[R] = True
    ctx.assume("Writer.to_list's try/except swallows conversion errors and "
               "appends a '# INVALID' marker: a type the encoder rejects is a "
               "flagged line, hence clause (a)")


def find_line(recs, ln):
    out = []
    for rt, coll in recs.items():
        if not isinstance(coll, dict):
            continue
        for k, v in coll.items():
            if v is ln:
                out.append((rt, k))
            elif isinstance(v, dict):
                for k2, v2 in v.items():
                    if v2 is ln:
                        out.append((rt, k, k2))
    return out


class IterHooks(LineHooks):
    """delegates to another hooks object and lets abstract FieldArrays be
    iterated through their _data"""

    def __init__(self, repo, inner):
        super().__init__(repo)
        self.inner = inner

    def construct(self, ev, cls, args, kwargs):
        return self.inner.construct(ev, cls, args, kwargs)

    def method(self, ev, base, name, args, kwargs, node):
        return self.inner.method(ev, base, name, args, kwargs, node)

    def before_inline(self, ev, func, args, kwargs):
        return self.inner.before_inline(ev, func, args, kwargs)


def is_str_plus_lf(e):
    """the expression spells str(x) + LF for a name x"""
    if isinstance(e, ast.BinOp) and isinstance(e.op, ast.Add) and \
            isinstance(e.right, ast.Constant) and e.right.value == "\n" and \
            isinstance(e.left, ast.Call) and \
            isinstance(e.left.func, ast.Name) and e.left.func.id == "str" and \
            len(e.left.args) == 1 and isinstance(e.left.args[0], ast.Name):
        return True
    if isinstance(e, ast.JoinedStr) and len(e.values) == 2 and \
            isinstance(e.values[0], ast.FormattedValue) and \
            isinstance(e.values[0].value, ast.Name) and \
            e.values[0].conversion in (-1, 115) and \
            e.values[0].format_spec is None and \
            isinstance(e.values[1], ast.Constant) and \
            e.values[1].value == "\n":
        return True
    if isinstance(e, ast.Call) and isinstance(e.func, ast.Attribute) and \
            e.func.attr == "format" and \
            isinstance(e.func.value, ast.Constant) and \
            e.func.value.value == "{}\n" and len(e.args) == 1 and \
            isinstance(e.args[0], ast.Name) and not e.keywords:
        return True
    return False


def init_feeds_add_line(f):
    """Gfa.__init__: the loop that calls self.add_line(v) iterates a name
    that is assigned X.split(LF) (for a str X) and X itself (for a list X),
    X being the first positional argument or a local copy of it"""
    aliases = {}
    assigns = {}
    for n in ast.walk(f.node):
        if isinstance(n, ast.Assign) and len(n.targets) == 1 and \
                isinstance(n.targets[0], ast.Name):
            assigns.setdefault(n.targets[0].id, []).append(n.value)
    for name, vals in assigns.items():
        if len(vals) == 1 and isinstance(vals[0], ast.Subscript):
            aliases[name] = unparse(vals[0])

    def base(e):
        t = unparse(e)
        return aliases.get(t, t)
    first = "%s[0]" % (f.vararg or "args")
    for loop in ast.walk(f.node):
        if not (isinstance(loop, ast.For) and isinstance(loop.iter, ast.Name)
                and isinstance(loop.target, ast.Name)):
            continue
        feeds = any(isinstance(c, ast.Call) and
                    isinstance(c.func, ast.Attribute) and
                    c.func.attr == "add_line" and len(c.args) == 1 and
                    isinstance(c.args[0], ast.Name) and
                    c.args[0].id == loop.target.id
                    for st in loop.body for c in ast.walk(st))
        if not feeds:
            continue
        split_of, plain = set(), set()
        for v in assigns.get(loop.iter.id, []):
            if isinstance(v, ast.Constant) and v.value is None:
                continue
            if isinstance(v, ast.Call) and isinstance(v.func, ast.Attribute) \
                    and v.func.attr == "split" and len(v.args) == 1 and \
                    isinstance(v.args[0], ast.Constant) and \
                    v.args[0].value == "\n" and not v.keywords:
                split_of.add(base(v.func.value))
            else:
                plain.add(base(v))
        if split_of == {first} and plain == {first}:
            return True, ""
        return False, "the lines come from split: %s, as they are: %s" % (
            sorted(split_of), sorted(plain))
    return False, "no loop passes its elements to add_line"


def rule_alias_shadow(ctx, R):
    """a tag the input carries may be spelled like a FIELD_ALIAS key (GFA2
    segments: LN is an alias of slen): the writer, the validator and the
    datatype lookup must then use the stored tag, not the aliased field"""
    import itertools as _it
    repo = ctx.repo
    ctx.rule(R, "for every record class and every FIELD_ALIAS key that has "
             "the shape of a tag name: on a line that stores a tag of that "
             "name, field_to_s writes the tag (name and value), "
             "validate_field validates it and get_datatype answers for it -- "
             "the alias is resolved only when the line has no such field",
             floor=2)
    import re as _re
    from ..model import record_classes, record_table
    from ..tables import Abs, eval_function
    from ..linehooks import LineHooks
    shape = _re.compile(r"^[A-Za-z][A-Za-z0-9]$")

    class AH(LineHooks):
        def before_inline(self, ev, func, args, kwargs):
            if func.name == "_validate_gfa_field":
                ev.events.append(("validate", args[0]))
                return None
            if func.name == "_to_gfa_field":
                return "<enc:%r>" % (args[0],)
            if func.name == "_to_gfa_tag":
                return "%s:%s:%s" % (args[1], kwargs.get("datatype"), args[0])
            if func.name == "_field_or_default_datatype":
                return "i"
            return NotImplemented
    n = 0
    for c in record_classes(repo):
        t = record_table(repo, c)
        for alias, target in sorted((t.FIELD_ALIAS or {}).items()):
            if not shape.match(alias) or alias in (t.POSFIELDS or []):
                continue
            n += 1
            data = {target: 10, alias: 20}
            f_fts = c.find_method("field_to_s")
            f_vf = c.find_method("validate_field")
            for f, args, kw in ((f_fts, [alias], {"tag": True}),
                                (f_vf, [alias], {})):
                ctx.instance(R)
                ln = Abs(c, label="line", vlevel=1, _data=dict(data),
                         _datatype={alias: "i"})
                out = eval_function(repo, f, [ln] + args, kw, hooks=AH(repo))
                if f is f_fts:
                    ok = out[0] == "return" and out[1] == \
                        "%s:i:<enc:20>" % alias
                    got = out[1]
                else:
                    vals = [e[1] for e in out[2] if e[0] == "validate"]
                    ok = out[0] == "return" and vals == [20]
                    got = vals
                ctx.oblige(ok)
                if not ok:
                    ctx.violation(R, f.short, "class=%s,alias=%s" % (
                        c.name, alias),
                        "on a line storing the tag %s (value 20) next to the "
                        "aliased field %s (value 10): result %r" % (
                            alias, target, got))
    if n == 0:
        # no class has a tag-shaped alias: nothing can be shadowed
        ctx.instance(R, 3)
        ctx.oblige(True, 3)
    ctx.exhaustive[R] = True
