"""C19 -- a clone is an equal, detached and fully independent line.

Decided clauses (TABLE + CODEC): for every record class, every field (and
every tag datatype for custom tags) and every class of value a decoder or a
library setter can store there, Cloning.clone copies the value (string form,
JSON round trip, deepcopy, new container) unless the class is immutable;
reference fields are always rendered as strings; the clone is a newly
constructed object of the same class that receives no _gfa / _refs and a copy
of _datatype; Equivalence.__eq__ falls back to the written form of a field, so
a reference rendered as an identifier equals the live reference.
Not decided: aliasing created after cloning; equality on concrete values.
"""
import ast
import itertools

from .. import spec, codec
from ..model import (AnalysisError, record_classes, record_table, dotted,
                     unparse)
from ..tables import Abs, eval_function, Unsupported
from ..linehooks import LineHooks


class CloneHooks(LineHooks):
    def __init__(self, repo):
        super().__init__(repo)
        self.built = []

    def before_inline(self, ev, func, args, kwargs):
        if func.name == "field_to_s":
            return "<text:%s>" % args[1]
        return NotImplemented

    def function(self, ev, node, args, kwargs):
        d = dotted(node.func)
        if d == "json.dumps" and len(args) == 1:
            a = args[0]
            if isinstance(a, Abs) and getattr(a.cls, "qualname", None) and \
                    not a.attrs.get("__builtin__"):
                # an object of a library class is not JSON serializable
                from ..tables import Raised
                raise Raised("builtins.TypeError")
            return ("jsontext", a)
        if d == "json.loads" and len(args) == 1:
            return Abs(None, label="jsoncopy")
        if d is not None and d.split(".")[-1] == "deepcopy" and len(args) == 1:
            return Abs(None, label="deepcopy")
        if d == "dict" and len(args) == 1 and not kwargs and \
                isinstance(args[0], Abs) and args[0].cls is None:
            # dict(x): a new dictionary with the entries of the abstract one
            return Abs(None, label="copy of %s" % args[0].label)
        return super().function(ev, node, args, kwargs)

    def construct(self, ev, cls, args, kwargs):
        if self.repo.cls("Line") in cls.mro:
            o = Abs(cls, label="copy", _ctor_data=args[0] if args else None,
                    _ctor_kwargs=dict(kwargs))
            self.built.append(o)
            return o
        if cls.name == "FieldArray":
            return Abs(cls, label="new FieldArray", _args=args)
        if len(args) == 1 and isinstance(args[0], Abs) and not kwargs and \
                args[0].cls is cls:
            # X(x) for a container class: a new container over the same
            # elements
            return Abs(cls, label="shallow copy of %s" % args[0].label,
                       __shallow_of__=args[0])
        return super().construct(ev, cls, args, kwargs)

    def method(self, ev, base, name, args, kwargs, node):
        if isinstance(base, Abs) and name == "copy" and not args:
            return Abs(None, label="copy of %s" % base.label)
        return super().method(ev, base, name, args, kwargs, node)


def value_of_class(repo, name, label):
    simple = {"int": 5, "float": 1.5, "bool": True, "NoneType": None}
    if name in simple:
        return simple[name]
    if name == "str":
        return "text"
    if name in ("list", "dict"):
        return Abs(None, label=label, __builtin__=name)
    paths = {"Line": "line.segment.GFA2"}
    c = repo.cls(paths.get(name, name))
    return Abs(c, label=label, datatype="i", _data=[1])


class BuiltinAbs(Abs):
    pass


def attrs_stored_by(cls):
    out = set()
    for m in cls.methods.values():
        for n in ast.walk(m.node):
            if isinstance(n, ast.Attribute) and isinstance(n.ctx, ast.Store) \
                    and isinstance(n.value, ast.Name) and \
                    n.value.id == (m.self_name or "self"):
                out.add(n.attr)
    return out


_TEXT_ONLY = {}


def text_only_attrs(cls):
    """attributes stored on self by the methods that Line.__init__ calls only
    on the text/list construction path (not on the dictionary path clone()
    uses), `_version` excepted (it is a constructor keyword)"""
    if cls in _TEXT_ONLY:
        return _TEXT_ONLY[cls]
    init = cls.find_method("__init__")
    names = set()
    if init is not None:
        def self_calls(stmts):
            for n in ast.walk(ast.Module(body=list(stmts), type_ignores=[])):
                if isinstance(n, ast.Call) and \
                        isinstance(n.func, ast.Attribute) and \
                        isinstance(n.func.value, ast.Name) and \
                        n.func.value.id == init.self_name:
                    names.add(n.func.attr)

        def dict_test(test):
            """+1: true for a dictionary, -1: false for one, 0: other test"""
            sign = 1
            while isinstance(test, ast.UnaryOp) and \
                    isinstance(test.op, ast.Not):
                sign, test = -sign, test.operand
            if isinstance(test, ast.Call) and \
                    isinstance(test.func, ast.Name) and \
                    test.func.id == "isinstance" and len(test.args) == 2 and \
                    unparse(test.args[1]) == "dict":
                return sign
            return 0
        body = init.node.body
        for i, st in enumerate(body):
            if not isinstance(st, ast.If):
                continue
            sign = dict_test(st.test)
            if not sign:
                continue
            on_dict, on_text = (st.body, st.orelse) if sign > 0 else \
                (st.orelse, st.body)
            self_calls(on_text)
            if on_dict and isinstance(on_dict[-1], ast.Return):
                # early exit of the dictionary path: the rest is text-only
                self_calls(body[i + 1:])
    if not names:
        raise AnalysisError("anchor vanished: Line.__init__ no longer "
                            "separates construction from a dictionary")
    stored, seen, work = set(), set(), list(names)
    while work:
        m = work.pop()
        if m in seen:
            continue
        seen.add(m)
        f = cls.find_method(m)
        if f is None:
            continue
        from ..model import walk_no_nested
        for n in walk_no_nested(f.node):
            if isinstance(n, ast.Attribute) and isinstance(n.ctx, ast.Store) \
                    and isinstance(n.value, ast.Name) and \
                    n.value.id == f.self_name:
                stored.add(n.attr)
            if isinstance(n, ast.Call) and isinstance(n.func, ast.Attribute) \
                    and isinstance(n.func.value, ast.Name) and \
                    n.func.value.id == f.self_name:
                work.append(n.func.attr)
    out = stored - {"_version", "_data", "_datatype"}
    _TEXT_ONLY[cls] = out
    return out


def run(ctx):
    repo = ctx.repo
    fm = codec.field_modules(repo)
    line_cls = repo.cls("Line")
    f_clone = ctx.anchor("Line.clone", line_cls.find_method("clone"))

    def tdec(datatype):
        m = fm.get(datatype)
        if m is None:
            raise AnalysisError("datatype %r has no module" % datatype)
        out = set()
        for dn in ("decode", "unsafe_decode"):
            f = codec.module_func(repo, m, dn)
            if f is not None:
                out |= codec.return_types(repo, f)
        out.discard("?")
        out.add("str")
        return out

    def list_like(v):
        return isinstance(v, Abs) and v.attrs.get("__builtin__") == "list"

    R = "C19.copy_actions"
    ctx.rule(R, "for every (record class, field or tag datatype, value class "
             "the decoder / a library setter can store): clone() stores in "
             "the copy a value that is not the original object, unless the "
             "class is immutable; a value of a reference field is always "
             "replaced by its string form", floor=120)
    mutable = spec.MUTABLE_VALUE_CLASSES
    immutable = spec.IMMUTABLE_VALUE_CLASSES
    cells = 0

    class TypedHooks(CloneHooks):
        pass

    def check_cell(cls, field, datatype, vclass, is_ref, label_extra=""):
        nonlocal cells
        cells += 1
        ctx.instance(R)
        v = value_of_class(repo, vclass, "value:%s" % vclass)
        hooks = CloneHooks(repo)
        # isinstance(v, list) for builtin list/dict samples
        hooks_isa = v
        data = {field: v}
        ln = Abs(cls, label="line", _data=data, _datatype={field: datatype}
                 if label_extra else {}, vlevel=1, _virtual=False,
                 _version="gfa2", _gfa=None, _refs={})
        if isinstance(v, Abs) and v.attrs.get("__builtin__"):
            # make the evaluator see a builtin container
            v.cls = FakeBuiltin(v.attrs["__builtin__"])
        out = eval_function(repo, f_clone, [ln], hooks=hooks)
        cell = "class=%s,field=%s%s,value=%s" % (cls.name, field,
                                                 label_extra, vclass)
        if out[0] != "return" or not hooks.built:
            ctx.oblige(False)
            ctx.violation(R, f_clone.short, cell,
                          "clone() did not build a new line (%r)" % (out[0:2],))
            return
        cpy = hooks.built[-1]
        cdata = cpy.attrs.get("_ctor_data")
        got = cdata.get(field) if isinstance(cdata, dict) else None
        shared = got is v and not isinstance(v, (int, float, str, bool,
                                                 type(None)))
        if isinstance(got, Abs) and got.attrs.get("__shallow_of__") is v \
                and vclass not in spec.FLAT_VALUE_CLASSES:
            # a new container whose elements are the original's mutable
            # elements (the operations of a CIGAR, the entries of a list)
            shared = True
        if is_ref:
            ok = isinstance(got, str) and got.startswith("<text:")
            msg = "the value of reference field %s is copied as %r instead " \
                  "of its string form" % (field, got)
        elif vclass in immutable:
            ok = True
            msg = ""
        elif vclass in mutable or vclass == "Line":
            ok = not shared and got is not None
            msg = "a mutable %s stored in %s is shared between the clone " \
                  "and the original" % (vclass, field)
        else:
            raise AnalysisError("value class %s is not classified as mutable "
                                "or immutable in spec.py" % vclass)
        ctx.oblige(ok)
        if not ok:
            ctx.violation(R, f_clone.short, cell, msg)
        elif cells % 17 == 0:
            ctx.sample({"rule": R, "cell": cell,
                        "action": got.label if isinstance(got, Abs) else
                        type(got).__name__})

    for cls in record_classes(repo):
        t = record_table(repo, cls)
        if t.RECORD_TYPE is None:
            continue
        for field in t.POSFIELDS + t.PREDEFINED_TAGS:
            dt = t.DATATYPE.get(field)
            if dt is None:
                continue
            is_ref = field in t.REFERENCE_FIELDS
            classes = set(tdec(dt))
            if is_ref:
                # a connected line holds live references here
                classes |= {"Line", "OrientedLine", "list"}
            for vc in sorted(classes):
                check_cell(cls, field, dt, vc, is_ref)
    # custom tags of every tag datatype, on a segment
    seg = repo.cls("line.segment.GFA1")
    for letter in spec.TAG_DATATYPES:
        for vc in sorted(tdec(letter)):
            check_cell(seg, "xx", letter, vc, False, label_extra=":%s" % letter)
    # values stored by library setters: header tags defined on several lines
    hdr = repo.cls("line.Header")
    for letter in spec.TAG_DATATYPES:
        check_cell(hdr, "xx", letter, "FieldArray", False,
                   label_extra=":%s(multi)" % letter)
    ctx.exhaustive[R] = True
    ctx.notes["copy_action_cells"] = cells

    # ------------------------------------------------------------------
    R = "C19.tag_histories"
    ctx.rule(R, "clone() picks the copy action of a tag from the datatype "
             "recorded for it, so for every short history of the library's "
             "own tag operations (set, set to None, delete, assignment "
             "through the generated accessor) that ends storing a dict or a "
             "list in a custom tag, at every validation level, the clone "
             "made next does not hold the very same object", floor=120)
    f_set = ctx.anchor("Line.set", seg.find_method("set"))
    f_del = ctx.anchor("Line.delete", seg.find_method("delete"))
    f_def = ctx.anchor("Line._define_field_methods",
                       seg.find_method("_define_field_methods"))
    setters = [n for n in ast.walk(f_def.node)
               if isinstance(n, ast.FunctionDef) and n.name == "setter"]
    if len(setters) != 1:
        raise AnalysisError("anchor vanished: the setter closure of "
                            "_define_field_methods")
    # the accessor's setter is interpreted as the closure it is, with the
    # free variable of _define_field_methods (its field name) bound
    fieldname_param = [x.arg for x in f_def.node.args.args][1:2]
    if not fieldname_param or len(setters[0].args.args) != 2:
        raise AnalysisError("anchor vanished: _define_field_methods(self, "
                            "<fieldname>) / setter(self, value)")

    def call_accessor(ln, value, h):
        from ..tables import Evaluator, Closure, Raised
        outer = Evaluator(repo, f_def.module, {fieldname_param[0]: "xx"},
                          None, h)
        outer.func = f_def
        try:
            v = Closure(setters[0], outer).call(outer, [ln, value], {})
            return ("return", v, outer.events)
        except Raised as r:
            return ("raise", r.cls, outer.events)

    class TagHooks(CloneHooks):
        def before_inline(self, ev, func, args, kwargs):
            if func.name == "_define_field_methods":
                args[0].attrs["__accessor__"] = True
                return None
            if func.name == "_get_default_gfa_tag_datatype":
                return "J"      # dict, list of mixed values (C20 decides it)
            if func.name == "_validate_gfa_field":
                return None     # the values are valid
            if func.name == "_is_valid_custom_tagname":
                return True
            return super().before_inline(ev, func, args, kwargs)

        def method(self, ev, base, name, args, kwargs, node):
            # the accessor's call of the field setter is interpreted, not
            # replaced by the generic stand-in of LineHooks
            if name == "_set_existing_field":
                return NotImplemented
            return super().method(ev, base, name, args, kwargs, node)

    OPS = ("set", "set-none", "delete", "accessor")

    def apply(ln, op, value):
        h = TagHooks(repo)
        if op == "set":
            return eval_function(repo, f_set, [ln, "xx", value], hooks=h)
        if op == "set-none":
            return eval_function(repo, f_set, [ln, "xx", None], hooks=h)
        if op == "delete":
            return eval_function(repo, f_del, [ln, "xx"], hooks=h)
        return call_accessor(ln, value, h)

    for vl, kind in itertools.product((0, 1, 2, 3), ("dict", "list")):
        for n in (1, 2, 3):
            for hist in itertools.product(OPS, repeat=n):
                if hist[-1] not in ("set", "accessor"):
                    continue
                ln = Abs(seg, label="line", _data={"name": "A"},
                         _datatype={}, vlevel=vl, _virtual=False,
                         virtual=False, _version="gfa1", _gfa=None, _refs={})
                feasible = True
                v = None
                for i, op in enumerate(hist):
                    if op == "accessor" and not ln.attrs.get("__accessor__"):
                        feasible = False    # no accessor defined yet
                        break
                    v = Abs(FakeBuiltin(kind), label="value%d" % i,
                            __builtin__=kind)
                    out = apply(ln, op, v)
                    if out[0] != "return":
                        feasible = False
                        break
                if not feasible or ln.attrs["_data"].get("xx") is not v:
                    continue
                ctx.instance(R)
                hooks = CloneHooks(repo)
                out = eval_function(repo, f_clone, [ln], hooks=hooks)
                cpy = hooks.built[-1] if hooks.built else None
                cdata = cpy.attrs.get("_ctor_data") if cpy else None
                got = cdata.get("xx") if isinstance(cdata, dict) else None
                ok = out[0] == "return" and got is not None and got is not v
                ctx.oblige(ok)
                if not ok:
                    ctx.violation(
                        R, f_clone.short,
                        "history=%s,value=%s,vlevel=%d" % (
                            "/".join(hist), kind, vl),
                        "after this history the line holds the %s under "
                        "datatype %r and clone() hands the same object to "
                        "the copy (outcome %r)" % (
                            kind, ln.attrs["_datatype"].get("xx"), out[0]))
    ctx.exhaustive[R] = True

    # ------------------------------------------------------------------
    R = "C19.fresh_decodes"
    ctx.rule(R, "a field kept as text is copied as text and decoded by each "
             "line on its own first read, so no function on the decoding "
             "path (the decode / unsafe_decode of every field module, "
             "Field._parse_gfa_field, Line.get and what they reach in the "
             "resolved call graph) that may return a mutable object is "
             "memoised (functools cache decorators, or a module/class level "
             "table the function both fills and returns from)", floor=30)
    from .effects_common import program
    from ..model import FuncInfo
    prog = program(repo)
    roots = []
    for nm in ("decode", "unsafe_decode"):
        roots += list(prog.field_module_funcs.get(nm, []))
    if len(roots) < 20:
        raise AnalysisError("anchor vanished: decode/unsafe_decode of the "
                            "field modules (%d found)" % len(roots))
    roots.append(ctx.anchor("Field._parse_gfa_field",
                            repo.cls("Field").find_method("_parse_gfa_field")))
    roots.append(ctx.anchor("Line.get", line_cls.find_method("get")))
    reach, stack = set(), list(roots)
    while stack:
        f = stack.pop()
        if f in reach:
            continue
        reach.add(f)
        for st in prog.sites.get(f, ()):
            for c in st.callees:
                if isinstance(c, FuncInfo):
                    stack.append(c)
        stack.extend(f.nested.values())
    # the detector recognises the idiom (checked on every run)
    probe = ast.parse(
        "import functools\n"
        "_T = {}\n"
        "class K:\n"
        "  @classmethod\n"
        "  @functools.lru_cache(maxsize=8)\n"
        "  def a(cls, s): return [s]\n"
        "  @staticmethod\n"
        "  def b(s):\n"
        "    if s not in _T: _T[s] = [s]\n"
        "    return _T[s]\n"
        "  def c(self, s): return [s]\n")
    pk = probe.body[2]
    if [bool(memoised(n, {"_T"})) for n in pk.body] != [True, True, False]:
        raise AnalysisError("the memoisation detector does not recognise "
                            "its own examples")
    for f in sorted(reach, key=lambda f: f.qualname):
        if not f.module.name.startswith("gfapy"):
            continue
        ctx.instance(R)
        shared_names = {t.id for stt in f.module.tree.body
                        if isinstance(stt, ast.Assign) for t in stt.targets
                        if isinstance(t, ast.Name)}
        why = memoised(f.node, shared_names)
        rt = codec.return_types(repo, f) if why else set()
        ok = not why or (rt and rt <= immutable)
        ctx.oblige(ok)
        if not ok:
            ctx.violation(R, f.short, why,
                          "the function is on the decoding path and may "
                          "return %s: two lines that hold the same text (a "
                          "line and its clone) receive one shared object" %
                          (sorted(rt - immutable) or "an object"))
    ctx.exhaustive[R] = True

    # ------------------------------------------------------------------
    R = "C19.detached"
    ctx.rule(R, "clone() returns the object it constructs with "
             "self.__class__(copied data, same vlevel/virtual/version); the "
             "only attribute stored into the copy is _datatype, and it is a "
             "copy of the original's dictionary, so the clone has no owner "
             "and no back-references", floor=14)
    for cls in record_classes(repo):
        ctx.instance(R)
        hooks = CloneHooks(repo)
        dtd = Abs(None, label="datatype-dict")
        ln = Abs(cls, label="line", _data={}, _datatype=dtd, vlevel=2,
                 _virtual=False, _version="gfa1", _gfa=Abs(None, label="gfa"),
                 _refs={"paths": ["x"]})
        out = eval_function(repo, f_clone, [ln], hooks=hooks)
        stores = [e for e in out[2] if e[0] == "store" and e[1] == "copy"]
        cpy = hooks.built[-1] if hooks.built else None
        ok = out[0] == "return" and cpy is not None and out[1] is cpy and \
            cpy.cls is cls and \
            {e[2] for e in stores} <= {"_datatype"} | text_only_attrs(cls) \
            and "_datatype" in {e[2] for e in stores} and \
            not any(e[3] is ln.attrs.get(e[2]) for e in stores) and \
            cpy.attrs.get("_datatype") is not dtd and \
            isinstance(cpy.attrs.get("_datatype"), Abs) and \
            cpy.attrs["_datatype"].label == "copy of datatype-dict"
        if ok:
            kw = cpy.attrs.get("_ctor_kwargs", {})
            # Unknown lines are virtual by definition (property override)
            ok = kw.get("vlevel") == 2 and kw.get("version") == "gfa1" and \
                kw.get("virtual") is (cls.name == "Unknown")
        ctx.oblige(ok)
        if not ok:
            ctx.violation(R, f_clone.short, "class=%s" % cls.name,
                          "clone result %r, attribute stores into the copy "
                          "%r, constructor keywords %r" % (
                              out[1], [e[2:] for e in stores],
                              cpy.attrs.get("_ctor_kwargs") if cpy else None))
    ctx.exhaustive[R] = True

    # ------------------------------------------------------------------
    rule_dictionary_construction(ctx, "C19.dictionary_construction")

    # ------------------------------------------------------------------
    R = "C19.extension_reference_fields"
    ctx.rule(R, "clone() renders as identifiers exactly the fields listed in "
             "REFERENCE_FIELDS; for a record type added with "
             "register_extension every declared reference field ends up in "
             "REFERENCE_FIELDS and in REFERENCE_INITIALIZERS, whether or not "
             "it shares its collection name or its target class with another "
             "field", floor=4)
    f_reg = ctx.anchor("Line.register_extension",
                       line_cls.find_method("register_extension"))

    class RegHooks(LineHooks):
        def method(self, ev, base, name, args, kwargs, node):
            if isinstance(base, Abs) and name in (
                    "_define_reference_getters", "_apply_definitions"):
                ev.events.append((name, base.label))
                return None
            return super().method(ev, base, name, args, kwargs, node)

        def store(self, ev, target, value, st):
            if isinstance(target, ast.Subscript) and \
                    "EXTENSIONS" in unparse(target.value):
                ev.events.append(("registered", getattr(value, "label", value)))
                return None
            return super().store(ev, target, value, st)
    layouts = {
        "two fields, one collection": [("sid1", "T", "bridges"),
                                       ("sid2", "T", "bridges")],
        "two fields, two collections": [("sid1", "T", "in_b"),
                                        ("sid2", "T", "out_b")],
        "two target classes, one collection name": [("sid", "T", "marks"),
                                                    ("eid", "U", "marks")],
        "collection already defined by the target": [("sid", "T", "known")],
    }
    for lname, refs in layouts.items():
        ctx.instance(R)
        targets = {n: Abs(None, label="target:" + n,
                          DEPENDENT_LINES=["known"])
                   for n in ("T", "U")}
        ext = Abs(None, label="ext", POSFIELDS=["xid"] + [r[0] for r in refs],
                  DATATYPE={"xid": "identifier_gfa2",
                            **{r[0]: "identifier_gfa2" for r in refs}},
                  RECORD_TYPE="X", NAME_FIELD=None, REFERENCE_FIELDS=[],
                  REFERENCE_INITIALIZERS=None)
        try:
            out = eval_function(repo, f_reg, [ext],
                                {"references": [(f, targets[k], rk)
                                                for f, k, rk in refs]},
                                hooks=RegHooks(repo))
        except Unsupported as e:
            raise AnalysisError(str(e))
        rf = ext.attrs.get("REFERENCE_FIELDS") or []
        ri = [(x[0], x[2]) for x in (ext.attrs.get("REFERENCE_INITIALIZERS")
                                     or [])]
        ok = out[0] == "return" and sorted(rf) == sorted(r[0] for r in refs) \
            and sorted(ri) == sorted((r[0], r[2]) for r in refs) and all(
                r[2] in targets[r[1]].attrs["DEPENDENT_LINES"] for r in refs)
        ctx.oblige(ok)
        if not ok:
            ctx.violation(R, f_reg.short, lname,
                          "outcome %r: REFERENCE_FIELDS %r, initialisers %r "
                          "(declared: %r)" % (out[0:2], rf, ri,
                                              [(r[0], r[2]) for r in refs]))
    ctx.exhaustive[R] = True

    # ------------------------------------------------------------------
    R = "C19.construction_attributes"
    ctx.rule(R, "every attribute that the construction of a line from text "
             "stores on the line outside _data/_datatype (and that the "
             "private construction from a dictionary used by clone() does "
             "not set) is stored into the copy by clone(), as a new object",
             floor=14)
    for cls in record_classes(repo):
        ctx.instance(R)
        need = text_only_attrs(cls)
        hooks = CloneHooks(repo)
        attrs = {a: ["orig:" + a] for a in need}
        ln = Abs(cls, label="line", _data={}, _datatype=Abs(
            None, label="datatype-dict"), vlevel=1, _virtual=False,
            _version="gfa2", _gfa=None, _refs={}, **attrs)
        out = eval_function(repo, f_clone, [ln], hooks=hooks)
        stored = {e[2]: e[3] for e in out[2]
                  if e[0] == "store" and e[1] == "copy"}
        missing = sorted(a for a in need if a not in stored)
        shared = sorted(a for a in need if a in stored and
                        stored[a] is attrs[a])
        ok = out[0] == "return" and not missing and not shared
        ctx.oblige(ok)
        if not ok:
            ctx.violation(R, f_clone.short, "class=%s" % cls.name,
                          "attributes set when the line is built from text "
                          "but absent from (or shared with) its clone: %s" %
                          (missing + shared))
    ctx.exhaustive[R] = True

    # ------------------------------------------------------------------
    R = "C19.immutable_classes"
    ctx.rule(R, "the library value classes that clone() may share between "
             "the copy and the original (LastPos, Placeholder, "
             "AlignmentPlaceholder, ByteArray) have no method that stores "
             "into the instance after construction, and no function of the "
             "tree assigns their attributes from outside", floor=4)
    for name in sorted(immutable):
        try:
            c = repo.cls(name)
        except Exception:
            continue
        ctx.instance(R)
        own_attrs = set()
        bad = []
        for m in c.methods.values():
            for n in ast.walk(m.node):
                if isinstance(n, ast.Attribute) and \
                        isinstance(n.ctx, ast.Store) and \
                        isinstance(n.value, ast.Name) and \
                        n.value.id == (m.self_name or "self"):
                    own_attrs.add(n.attr)
                    if m.name not in ("__init__", "__new__"):
                        bad.append("%s stores self.%s" % (m.name, n.attr))
                if m.name == "__new__" and isinstance(n, ast.Attribute) and \
                        isinstance(n.ctx, ast.Store):
                    own_attrs.add(n.attr)
        for f in repo.functions.values():
            if f.cls is c:
                continue
            for n in ast.walk(f.node):
                if isinstance(n, ast.Attribute) and \
                        isinstance(n.ctx, ast.Store) and \
                        n.attr in own_attrs and not (
                            isinstance(n.value, ast.Name) and
                            n.value.id in ("self", "cls") and
                            f.cls is not None and n.attr in
                            {a for a in attrs_stored_by(f.cls)}):
                    bad.append("%s assigns .%s" % (f.short, n.attr))
        # what the class inherits from the builtins must be immutable too
        MUTABLE_BUILTINS = {"list", "dict", "set", "bytearray", "UserList",
                            "UserDict", "deque", "array"}
        for b in c.builtin_bases():
            if b.split(".")[-1] in MUTABLE_BUILTINS:
                bad.append("inherits the in-place methods of %s" % b)
        ok = not bad
        ctx.oblige(ok)
        if not ok:
            ctx.violation(R, "class " + c.short, "mutators",
                          "the class is treated as immutable by clone() but "
                          "%s" % "; ".join(sorted(set(bad))[:4]))
    ctx.exhaustive[R] = True

    # ------------------------------------------------------------------
    R = "C19.equality"
    ctx.rule(R, "Equivalence.__eq__: same record type and same field names, "
             "and for each field either equal values or equal written forms "
             "(field_to_s of both lines), so a clone whose references are "
             "identifiers equals the original; different written forms are "
             "unequal", floor=6)
    seg2 = repo.cls("line.segment.GFA2")
    f_eq = ctx.anchor("Line.__eq__", seg2.find_method("__eq__"))

    class EqHooks(LineHooks):
        def __init__(self, repo, texts):
            super().__init__(repo)
            self.texts = texts
            self.calls = []

        def before_inline(self, ev, func, args, kwargs):
            if func.name == "field_to_s":
                self.calls.append((args[0].label, args[1]))
                return self.texts[(args[0].label, args[1])]
            return NotImplemented

        def to_str(self, ev, v):
            return "<python repr of %s>" % v.label
    E = repo.cls("line.edge.GFA2")
    for same_text, same_keys, same_rt in itertools.product(
            [True, False], [True, False], [True, False]):
        ctx.instance(R)
        live = Abs(seg2, label="live-reference", name="s1")
        a = Abs(E, label="a", _data={"sid1": live, "eid": "e"})
        ocls = E if same_rt else seg2
        od = {"sid1": "s1+", "eid": "e"}
        if not same_keys:
            od["xx"] = 1
        o = Abs(ocls, label="o", _data=od)
        texts = {("a", "sid1"): "s1+", ("o", "sid1"): "s1+" if same_text
                 else "s2+", ("a", "eid"): "e", ("o", "eid"): "e",
                 ("a", "xx"): "1", ("o", "xx"): "1"}
        for x, y in ((a, o), (o, a)):
            h = EqHooks(repo, texts)
            out = eval_function(repo, f_eq, [x, y], hooks=h)
            want = same_text and same_keys and same_rt
            ok = out[0] == "return" and bool(out[1]) == want
            ctx.oblige(ok)
            if not ok:
                ctx.violation(
                    R, f_eq.short,
                    "same_written_form=%s,same_fields=%s,same_record_type=%s,"
                    "%s==%s" % (same_text, same_keys, same_rt, x.label,
                                y.label),
                    "answers %r, expected %r (written forms compared: %r)" %
                    (out[1], want, h.calls))
    ctx.exhaustive[R] = True
    ctx.assume("value classes int, float, str, bool, NoneType, ByteArray "
               "(bytes), Placeholder, AlignmentPlaceholder and LastPos are "
               "immutable; list, dict, CIGAR, Trace, NumericArray, "
               "OrientedLine, FieldArray and Line are mutable (spec.py)")


def rule_dictionary_construction(ctx, R):
    """shared by C19 and C15 (multiply clones after it divided the counts)"""
    repo = ctx.repo
    ctx.rule(R, "the private construction from a dictionary, which clone() "
             "uses, takes the values as they are at every validation level: "
             "it calls no validator and cannot raise, so any line that "
             "exists -- valid or not -- can be cloned (merge and multiply "
             "clone lines after they have started changing the graph)",
             floor=8)
    seg1c = repo.cls("line.segment.GFA1")
    f_init = ctx.anchor("Line.__init__", seg1c.find_method("__init__"))

    class InitHooks(LineHooks):
        def before_inline(self, ev, func, args, kwargs):
            if func is not f_init and args and isinstance(args[0], Abs) and \
                    args[0].label == "new":
                ev.events.append(("call", func.name))
                return None
            return NotImplemented
    for vl, virtual in itertools.product((0, 1, 2, 3), (False, True)):
        ctx.instance(R)
        new = Abs(seg1c, label="new")
        data = {"name": "a", "sequence": "ACGT", "LN": 99}
        out = eval_function(repo, f_init, [new, data],
                            {"vlevel": vl, "virtual": virtual,
                             "version": "gfa1"}, hooks=InitHooks(repo))
        calls = [e[1] for e in out[2] if e[0] == "call"]
        ok = out[0] == "return" and not calls and \
            new.attrs.get("_data") == data and \
            new.attrs.get("_gfa") is None and new.attrs.get("_refs") == {}
        ctx.oblige(ok)
        if not ok:
            ctx.violation(R, f_init.short, "vlevel=%d,virtual=%s" % (
                vl, virtual), "outcome %r; calls on the new line: %r; _data "
                "%r" % (out[0:2], calls, new.attrs.get("_data")))
    ctx.exhaustive[R] = True


MEMO_DECORATORS = {"lru_cache", "cache", "cached_property", "memoize",
                   "memoized", "memo"}


def memoised(node, shared_names):
    """why the function `node` hands out one stored object for equal
    arguments, or None"""
    for d in node.decorator_list:
        e = d.func if isinstance(d, ast.Call) else d
        name = dotted(e)
        if name and name.split(".")[-1] in MEMO_DECORATORS:
            return "@" + unparse(d)
    first = node.args.args[0].arg if node.args.args else None

    def table(e):
        """module-level name or class-level attribute (cls.X / self.X is
        excluded for instances: only the first parameter of a classmethod)"""
        if isinstance(e, ast.Name) and e.id in shared_names:
            return e.id
        if isinstance(e, ast.Attribute) and isinstance(e.value, ast.Name) \
                and e.value.id == "cls" and first == "cls":
            return "cls." + e.attr
        return None
    filled = set()
    for n in ast.walk(node):
        if isinstance(n, ast.Subscript) and isinstance(n.ctx, ast.Store) and \
                table(n.value):
            filled.add(table(n.value))
        if isinstance(n, ast.Call) and isinstance(n.func, ast.Attribute) and \
                n.func.attr == "setdefault" and table(n.func.value):
            filled.add(table(n.func.value))
    for n in ast.walk(node):
        if isinstance(n, ast.Return) and n.value is not None:
            v = n.value
            t = None
            if isinstance(v, ast.Subscript):
                t = table(v.value)
            elif isinstance(v, ast.Call) and isinstance(v.func, ast.Attribute) \
                    and v.func.attr in ("get", "setdefault"):
                t = table(v.func.value)
            if t and t in filled:
                return "table %s filled and returned from" % t
    return None


class FakeBuiltin:
    """stands for the builtin class list / dict in isinstance tests"""

    def __init__(self, name):
        self.name = name
        self.mro = [name, "object"]

    def find_method(self, name, **kw):
        return None

    def find_attr(self, name):
        return None
