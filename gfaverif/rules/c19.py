"""C19 -- a clone is an equal, detached and fully independent line.

Decided clauses (TABLE + CODEC): for every record class, every field (and
every tag datatype for custom tags) and every class of value a decoder or a
library setter can store there, Cloning.clone copies the value (string form,
JSON round trip, deepcopy, new container) unless the class is immutable;
reference fields are always rendered as strings; the clone is a newly
constructed object of the same class that receives no _gfa / _refs and a copy
of _datatype; Equivalence.__eq__ falls back to the written form of a field, so
a reference rendered as an identifier equals the live reference.
Not decided: aliasing created after cloning; equality on concrete values.
"""
import ast
import itertools

from .. import spec, codec
from ..model import (AnalysisError, record_classes, record_table, dotted,
                     unparse)
from ..tables import Abs, eval_function, Unsupported
from ..linehooks import LineHooks


class CloneHooks(LineHooks):
    def __init__(self, repo):
        super().__init__(repo)
        self.built = []

    def before_inline(self, ev, func, args, kwargs):
        if func.name == "field_to_s":
            return "<text:%s>" % args[1]
        return NotImplemented

    def function(self, ev, node, args, kwargs):
        d = dotted(node.func)
        if d == "json.dumps" and len(args) == 1:
            a = args[0]
            if isinstance(a, Abs) and getattr(a.cls, "qualname", None) and \
                    not a.attrs.get("__builtin__"):
                # an object of a library class is not JSON serializable
                from ..tables import Raised
                raise Raised("builtins.TypeError")
            return ("jsontext", a)
        if d == "json.loads" and len(args) == 1:
            return Abs(None, label="jsoncopy")
        if d is not None and d.split(".")[-1] == "deepcopy" and len(args) == 1:
            return Abs(None, label="deepcopy")
        return super().function(ev, node, args, kwargs)

    def construct(self, ev, cls, args, kwargs):
        if self.repo.cls("Line") in cls.mro:
            o = Abs(cls, label="copy", _ctor_data=args[0] if args else None,
                    _ctor_kwargs=dict(kwargs))
            self.built.append(o)
            return o
        if cls.name == "FieldArray":
            return Abs(cls, label="new FieldArray", _args=args)
        return super().construct(ev, cls, args, kwargs)

    def method(self, ev, base, name, args, kwargs, node):
        if isinstance(base, Abs) and name == "copy" and not args:
            return Abs(None, label="copy of %s" % base.label)
        return super().method(ev, base, name, args, kwargs, node)


def value_of_class(repo, name, label):
    simple = {"int": 5, "float": 1.5, "bool": True, "NoneType": None}
    if name in simple:
        return simple[name]
    if name == "str":
        return "text"
    if name in ("list", "dict"):
        return Abs(None, label=label, __builtin__=name)
    paths = {"Line": "line.segment.GFA2"}
    c = repo.cls(paths.get(name, name))
    return Abs(c, label=label, datatype="i", _data=[1])


class BuiltinAbs(Abs):
    pass


def attrs_stored_by(cls):
    out = set()
    for m in cls.methods.values():
        for n in ast.walk(m.node):
            if isinstance(n, ast.Attribute) and isinstance(n.ctx, ast.Store) \
                    and isinstance(n.value, ast.Name) and \
                    n.value.id == (m.self_name or "self"):
                out.add(n.attr)
    return out


_TEXT_ONLY = {}


def text_only_attrs(cls):
    """attributes stored on self by the methods that Line.__init__ calls only
    on the text/list construction path (not on the dictionary path clone()
    uses), `_version` excepted (it is a constructor keyword)"""
    if cls in _TEXT_ONLY:
        return _TEXT_ONLY[cls]
    init = cls.find_method("__init__")
    names = set()
    if init is not None:
        for st in init.node.body:
            if isinstance(st, ast.If) and "isinstance(data, dict)" in \
                    unparse(st.test):
                for n in ast.walk(ast.Module(body=st.orelse,
                                             type_ignores=[])):
                    if isinstance(n, ast.Call) and \
                            isinstance(n.func, ast.Attribute) and \
                            isinstance(n.func.value, ast.Name) and \
                            n.func.value.id == init.self_name:
                        names.add(n.func.attr)
    if not names:
        raise AnalysisError("anchor vanished: Line.__init__ no longer "
                            "separates construction from a dictionary")
    stored, seen, work = set(), set(), list(names)
    while work:
        m = work.pop()
        if m in seen:
            continue
        seen.add(m)
        f = cls.find_method(m)
        if f is None:
            continue
        from ..model import walk_no_nested
        for n in walk_no_nested(f.node):
            if isinstance(n, ast.Attribute) and isinstance(n.ctx, ast.Store) \
                    and isinstance(n.value, ast.Name) and \
                    n.value.id == f.self_name:
                stored.add(n.attr)
            if isinstance(n, ast.Call) and isinstance(n.func, ast.Attribute) \
                    and isinstance(n.func.value, ast.Name) and \
                    n.func.value.id == f.self_name:
                work.append(n.func.attr)
    out = stored - {"_version", "_data", "_datatype"}
    _TEXT_ONLY[cls] = out
    return out


def run(ctx):
    repo = ctx.repo
    fm = codec.field_modules(repo)
    line_cls = repo.cls("Line")
    f_clone = ctx.anchor("Line.clone", line_cls.find_method("clone"))

    def tdec(datatype):
        m = fm.get(datatype)
        if m is None:
            raise AnalysisError("datatype %r has no module" % datatype)
        out = set()
        for dn in ("decode", "unsafe_decode"):
            f = codec.module_func(repo, m, dn)
            if f is not None:
                out |= codec.return_types(repo, f)
        out.discard("?")
        out.add("str")
        return out

    def list_like(v):
        return isinstance(v, Abs) and v.attrs.get("__builtin__") == "list"

    R = "C19.copy_actions"
    ctx.rule(R, "for every (record class, field or tag datatype, value class "
             "the decoder / a library setter can store): clone() stores in "
             "the copy a value that is not the original object, unless the "
             "class is immutable; a value of a reference field is always "
             "replaced by its string form", floor=120)
    mutable = spec.MUTABLE_VALUE_CLASSES
    immutable = spec.IMMUTABLE_VALUE_CLASSES
    cells = 0

    class TypedHooks(CloneHooks):
        pass

    def check_cell(cls, field, datatype, vclass, is_ref, label_extra=""):
        nonlocal cells
        cells += 1
        ctx.instance(R)
        v = value_of_class(repo, vclass, "value:%s" % vclass)
        hooks = CloneHooks(repo)
        # isinstance(v, list) for builtin list/dict samples
        hooks_isa = v
        data = {field: v}
        ln = Abs(cls, label="line", _data=data, _datatype={field: datatype}
                 if label_extra else {}, vlevel=1, _virtual=False,
                 _version="gfa2", _gfa=None, _refs={})
        if isinstance(v, Abs) and v.attrs.get("__builtin__"):
            # make the evaluator see a builtin container
            v.cls = FakeBuiltin(v.attrs["__builtin__"])
        out = eval_function(repo, f_clone, [ln], hooks=hooks)
        cell = "class=%s,field=%s%s,value=%s" % (cls.name, field,
                                                 label_extra, vclass)
        if out[0] != "return" or not hooks.built:
            ctx.oblige(False)
            ctx.violation(R, f_clone.short, cell,
                          "clone() did not build a new line (%r)" % (out[0:2],))
            return
        cpy = hooks.built[-1]
        cdata = cpy.attrs.get("_ctor_data")
        got = cdata.get(field) if isinstance(cdata, dict) else None
        shared = got is v and not isinstance(v, (int, float, str, bool,
                                                 type(None)))
        if is_ref:
            ok = isinstance(got, str) and got.startswith("<text:")
            msg = "the value of reference field %s is copied as %r instead " \
                  "of its string form" % (field, got)
        elif vclass in immutable:
            ok = True
            msg = ""
        elif vclass in mutable or vclass == "Line":
            ok = not shared and got is not None
            msg = "a mutable %s stored in %s is shared between the clone " \
                  "and the original" % (vclass, field)
        else:
            raise AnalysisError("value class %s is not classified as mutable "
                                "or immutable in spec.py" % vclass)
        ctx.oblige(ok)
        if not ok:
            ctx.violation(R, f_clone.short, cell, msg)
        elif cells % 17 == 0:
            ctx.sample({"rule": R, "cell": cell,
                        "action": got.label if isinstance(got, Abs) else
                        type(got).__name__})

    for cls in record_classes(repo):
        t = record_table(repo, cls)
        if t.RECORD_TYPE is None:
            continue
        for field in t.POSFIELDS + t.PREDEFINED_TAGS:
            dt = t.DATATYPE.get(field)
            if dt is None:
                continue
            is_ref = field in t.REFERENCE_FIELDS
            classes = set(tdec(dt))
            if is_ref:
                # a connected line holds live references here
                classes |= {"Line", "OrientedLine", "list"}
            for vc in sorted(classes):
                check_cell(cls, field, dt, vc, is_ref)
    # custom tags of every tag datatype, on a segment
    seg = repo.cls("line.segment.GFA1")
    for letter in spec.TAG_DATATYPES:
        for vc in sorted(tdec(letter)):
            check_cell(seg, "xx", letter, vc, False, label_extra=":%s" % letter)
    # values stored by library setters: header tags defined on several lines
    hdr = repo.cls("line.Header")
    for letter in spec.TAG_DATATYPES:
        check_cell(hdr, "xx", letter, "FieldArray", False,
                   label_extra=":%s(multi)" % letter)
    ctx.exhaustive[R] = True
    ctx.notes["copy_action_cells"] = cells

    # ------------------------------------------------------------------
    R = "C19.detached"
    ctx.rule(R, "clone() returns the object it constructs with "
             "self.__class__(copied data, same vlevel/virtual/version); the "
             "only attribute stored into the copy is _datatype, and it is a "
             "copy of the original's dictionary, so the clone has no owner "
             "and no back-references", floor=14)
    for cls in record_classes(repo):
        ctx.instance(R)
        hooks = CloneHooks(repo)
        dtd = Abs(None, label="datatype-dict")
        ln = Abs(cls, label="line", _data={}, _datatype=dtd, vlevel=2,
                 _virtual=False, _version="gfa1", _gfa=Abs(None, label="gfa"),
                 _refs={"paths": ["x"]})
        out = eval_function(repo, f_clone, [ln], hooks=hooks)
        stores = [e for e in out[2] if e[0] == "store" and e[1] == "copy"]
        cpy = hooks.built[-1] if hooks.built else None
        ok = out[0] == "return" and cpy is not None and out[1] is cpy and \
            cpy.cls is cls and \
            {e[2] for e in stores} <= {"_datatype"} | text_only_attrs(cls) \
            and "_datatype" in {e[2] for e in stores} and \
            not any(e[3] is ln.attrs.get(e[2]) for e in stores) and \
            cpy.attrs.get("_datatype") is not dtd and \
            isinstance(cpy.attrs.get("_datatype"), Abs) and \
            cpy.attrs["_datatype"].label == "copy of datatype-dict"
        if ok:
            kw = cpy.attrs.get("_ctor_kwargs", {})
            # Unknown lines are virtual by definition (property override)
            ok = kw.get("vlevel") == 2 and kw.get("version") == "gfa1" and \
                kw.get("virtual") is (cls.name == "Unknown")
        ctx.oblige(ok)
        if not ok:
            ctx.violation(R, f_clone.short, "class=%s" % cls.name,
                          "clone result %r, attribute stores into the copy "
                          "%r, constructor keywords %r" % (
                              out[1], [e[2:] for e in stores],
                              cpy.attrs.get("_ctor_kwargs") if cpy else None))
    ctx.exhaustive[R] = True

    # ------------------------------------------------------------------
    R = "C19.construction_attributes"
    ctx.rule(R, "every attribute that the construction of a line from text "
             "stores on the line outside _data/_datatype (and that the "
             "private construction from a dictionary used by clone() does "
             "not set) is stored into the copy by clone(), as a new object",
             floor=14)
    for cls in record_classes(repo):
        ctx.instance(R)
        need = text_only_attrs(cls)
        hooks = CloneHooks(repo)
        attrs = {a: ["orig:" + a] for a in need}
        ln = Abs(cls, label="line", _data={}, _datatype=Abs(
            None, label="datatype-dict"), vlevel=1, _virtual=False,
            _version="gfa2", _gfa=None, _refs={}, **attrs)
        out = eval_function(repo, f_clone, [ln], hooks=hooks)
        stored = {e[2]: e[3] for e in out[2]
                  if e[0] == "store" and e[1] == "copy"}
        missing = sorted(a for a in need if a not in stored)
        shared = sorted(a for a in need if a in stored and
                        stored[a] is attrs[a])
        ok = out[0] == "return" and not missing and not shared
        ctx.oblige(ok)
        if not ok:
            ctx.violation(R, f_clone.short, "class=%s" % cls.name,
                          "attributes set when the line is built from text "
                          "but absent from (or shared with) its clone: %s" %
                          (missing + shared))
    ctx.exhaustive[R] = True

    # ------------------------------------------------------------------
    R = "C19.immutable_classes"
    ctx.rule(R, "the library value classes that clone() may share between "
             "the copy and the original (LastPos, Placeholder, "
             "AlignmentPlaceholder, ByteArray) have no method that stores "
             "into the instance after construction, and no function of the "
             "tree assigns their attributes from outside", floor=4)
    for name in sorted(immutable):
        try:
            c = repo.cls(name)
        except Exception:
            continue
        ctx.instance(R)
        own_attrs = set()
        bad = []
        for m in c.methods.values():
            for n in ast.walk(m.node):
                if isinstance(n, ast.Attribute) and \
                        isinstance(n.ctx, ast.Store) and \
                        isinstance(n.value, ast.Name) and \
                        n.value.id == (m.self_name or "self"):
                    own_attrs.add(n.attr)
                    if m.name not in ("__init__", "__new__"):
                        bad.append("%s stores self.%s" % (m.name, n.attr))
                if m.name == "__new__" and isinstance(n, ast.Attribute) and \
                        isinstance(n.ctx, ast.Store):
                    own_attrs.add(n.attr)
        for f in repo.functions.values():
            if f.cls is c:
                continue
            for n in ast.walk(f.node):
                if isinstance(n, ast.Attribute) and \
                        isinstance(n.ctx, ast.Store) and \
                        n.attr in own_attrs and not (
                            isinstance(n.value, ast.Name) and
                            n.value.id in ("self", "cls") and
                            f.cls is not None and n.attr in
                            {a for a in attrs_stored_by(f.cls)}):
                    bad.append("%s assigns .%s" % (f.short, n.attr))
        ok = not bad
        ctx.oblige(ok)
        if not ok:
            ctx.violation(R, "class " + c.short, "mutators",
                          "the class is treated as immutable by clone() but "
                          "%s" % "; ".join(sorted(set(bad))[:4]))
    ctx.exhaustive[R] = True

    # ------------------------------------------------------------------
    R = "C19.equality"
    ctx.rule(R, "Equivalence.__eq__: same record type and same field names, "
             "and for each field either equal values or equal written forms "
             "(field_to_s of both lines), so a clone whose references are "
             "identifiers equals the original; different written forms are "
             "unequal", floor=6)
    seg2 = repo.cls("line.segment.GFA2")
    f_eq = ctx.anchor("Line.__eq__", seg2.find_method("__eq__"))

    class EqHooks(LineHooks):
        def __init__(self, repo, texts):
            super().__init__(repo)
            self.texts = texts
            self.calls = []

        def before_inline(self, ev, func, args, kwargs):
            if func.name == "field_to_s":
                self.calls.append((args[0].label, args[1]))
                return self.texts[(args[0].label, args[1])]
            return NotImplemented

        def to_str(self, ev, v):
            return "<python repr of %s>" % v.label
    E = repo.cls("line.edge.GFA2")
    for same_text, same_keys, same_rt in itertools.product(
            [True, False], [True, False], [True, False]):
        ctx.instance(R)
        live = Abs(seg2, label="live-reference", name="s1")
        a = Abs(E, label="a", _data={"sid1": live, "eid": "e"})
        ocls = E if same_rt else seg2
        od = {"sid1": "s1+", "eid": "e"}
        if not same_keys:
            od["xx"] = 1
        o = Abs(ocls, label="o", _data=od)
        texts = {("a", "sid1"): "s1+", ("o", "sid1"): "s1+" if same_text
                 else "s2+", ("a", "eid"): "e", ("o", "eid"): "e",
                 ("a", "xx"): "1", ("o", "xx"): "1"}
        for x, y in ((a, o), (o, a)):
            h = EqHooks(repo, texts)
            out = eval_function(repo, f_eq, [x, y], hooks=h)
            want = same_text and same_keys and same_rt
            ok = out[0] == "return" and bool(out[1]) == want
            ctx.oblige(ok)
            if not ok:
                ctx.violation(
                    R, f_eq.short,
                    "same_written_form=%s,same_fields=%s,same_record_type=%s,"
                    "%s==%s" % (same_text, same_keys, same_rt, x.label,
                                y.label),
                    "answers %r, expected %r (written forms compared: %r)" %
                    (out[1], want, h.calls))
    ctx.exhaustive[R] = True
    ctx.assume("value classes int, float, str, bool, NoneType, ByteArray "
               "(bytes), Placeholder, AlignmentPlaceholder and LastPos are "
               "immutable; list, dict, CIGAR, Trace, NumericArray, "
               "OrientedLine, FieldArray and Line are mutable (spec.py)")


class FakeBuiltin:
    """stands for the builtin class list / dict in isinstance tests"""

    def __init__(self, name):
        self.name = name
        self.mro = [name, "object"]

    def find_method(self, name, **kw):
        return None

    def find_attr(self, name):
        return None
