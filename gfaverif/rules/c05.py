"""C05 -- mutating a Gfa is equivalent to editing its text (exact removal
cascade).

Decided clauses: (a) the dependency tables equal the documented cascade;
(b) the cascade visits every dependant (no live list is iterated while it
shrinks); (c) a mention of a removed line can only be dropped for keys the
mentioned class declares; (d) the removal helpers reach every shape of
reference, and the registry forgets exactly the removed line.
Not decided: textual equality with the re-parsed model on concrete histories;
rename rewriting (mentions are object references, see C09).
"""
from . import refgraph


def run(ctx):
    refgraph.rule_dependency_tables(ctx, "C05.dependency_tables")
    refgraph.rule_iter(ctx, "C05.cascade_visits_all")
    refgraph.rule_identity_membership(ctx, "C05.identity_membership")
    prod = refgraph.rule_refkeys(ctx, "C05.refkey_declared")
    # a rename is written wherever the line is mentioned only if every mention
    # is the line object itself, i.e. every placeholder was re-pointed
    refgraph.rule_backreference_keys(ctx, "C05.mentions_are_objects", prod)
    refgraph.rule_connect_sequence(ctx, "C05.disconnect_order")
    refgraph.rule_removal_helpers(ctx, "C05.removal_helpers")
    # a group defined on several lines that another group lists: the merged
    # line must take over the mentions of the line it replaces, or removing /
    # renaming the group leaves the outer group as it was
    refgraph.rule_group_merge_mentions(ctx, "C05.group_merge_mentions")
