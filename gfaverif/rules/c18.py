"""C18 -- validation levels only change when errors surface, never the result.

Decided clauses (TABLE over vlevel 0..3): (a) thresholds are where the
documentation puts them -- construction parses every field with the validating
decoder at level >= 1 and, at level 0, decodes without validation only the
non-delayed datatypes; field_to_s validates the written text at level >= 2
(also for repeated header tags); _set_existing_field and get validate at
level >= 3; validate() / validate_field() validate at every level (level 0
additionally checks tag names and predefined tag types, which construction
skipped); (b) the level changes which checks run, not what is stored: for
every datatype the non-validating decoder returns the same classes as the
validating one; Multiline.add appends the value at every level and validates
it (or compares its datatype) at level >= 2; (c) every line the Gfa builds
from text inherits the Gfa's level, so a level cannot silently drop to the
default for some arrival orders.
Not decided: equality of the written text across levels on concrete
documents; monotonic acceptance on concrete inputs.
"""
import ast
import itertools

from .. import codec
from ..model import AnalysisError, class_const, unparse
from ..tables import Abs, eval_function
from ..linehooks import LineHooks
from .refgraph import SeqHooks
from .c13 import GfaHooks


def run(ctx):
    repo = ctx.repo
    Line = repo.cls("Line")
    seg = repo.cls("line.segment.GFA1")
    gfacls = repo.cls("Gfa")
    fm = codec.field_modules(repo)

    # ------------------------------------------------------------------
    R = "C18.construction_threshold"
    ctx.rule(R, "Construction._init_field_value: at vlevel >= 1 every field "
             "is parsed with safe=True; at vlevel 0 a field of a delayed "
             "datatype is stored as text and any other field is parsed with "
             "safe=False; the value is stored under the field name at every "
             "level", floor=16)
    cons = repo.cls("line.common.construction.Construction")
    delayed = class_const(repo, cons, ctx.anchor(
        "DELAYED_PARSING_DATATYPES",
        cons.attrs.get("DELAYED_PARSING_DATATYPES")))
    f_ifv = ctx.anchor("Line._init_field_value",
                       Line.find_method("_init_field_value"))

    class PH(LineHooks):
        def before_inline(self, ev, func, args, kwargs):
            if func.name == "_parse_gfa_field":
                ev.events.append(("parse", args[1], kwargs.get("safe")))
                return "<decoded>"
            return NotImplemented
    for vl, dt in itertools.product([0, 1, 2, 3], ["i", "Z", "B", "J",
                                                   "alignment_gfa1",
                                                   "position_gfa2"]):
        ctx.instance(R)
        ln = Abs(seg, label="line", vlevel=vl, _data={})
        out = eval_function(repo, f_ifv, [ln, "xx", dt, "text"],
                            hooks=PH(repo))
        parses = [e for e in out[2] if e[0] == "parse"]
        if vl >= 1:
            ok = parses == [("parse", dt, True)] and \
                ln.attrs["_data"].get("xx") == "<decoded>"
        elif dt in delayed:
            ok = parses == [] and ln.attrs["_data"].get("xx") == "text"
        else:
            ok = parses == [("parse", dt, False)] and \
                ln.attrs["_data"].get("xx") == "<decoded>"
        ok = ok and out[0] == "return"
        ctx.oblige(ok)
        if not ok:
            ctx.violation(R, f_ifv.short, "vlevel=%d,datatype=%s" % (vl, dt),
                          "parses %r and stores %r" % (
                              parses, ln.attrs["_data"].get("xx")))
    ctx.exhaustive[R] = True

    # ------------------------------------------------------------------
    R = "C18.access_thresholds"
    ctx.rule(R, "FieldData._set_existing_field validates the new value "
             "exactly at vlevel >= 3 and stores it at every level; "
             "FieldData.get validates an already decoded (or Z/seq text) "
             "value exactly at vlevel >= 3 and returns the same value at "
             "every level; Validate.validate_field validates at every level",
             floor=16)
    f_sef = ctx.anchor("Line._set_existing_field",
                       seg.find_method("_set_existing_field"))
    f_get = ctx.anchor("Line.get", seg.find_method("get"))
    f_set = ctx.anchor("Line.set", seg.find_method("set"))
    f_vf = ctx.anchor("Line.validate_field", seg.find_method("validate_field"))

    class VH(LineHooks):
        def before_inline(self, ev, func, args, kwargs):
            if func.name == "_validate_gfa_field":
                ev.events.append(("validate", args[0], args[1]))
                return None
            if func.name == "_parse_gfa_field":
                ev.events.append(("parse", kwargs.get("safe")))
                return "<decoded>"
            return NotImplemented
    for vl in (0, 1, 2, 3):
        ctx.instance(R)
        ln = Abs(seg, label="line", vlevel=vl, _gfa=None, _data={"xx": 1},
                 _datatype={"xx": "i"})
        out = eval_function(repo, f_sef, [ln, "xx", 7], hooks=VH(repo))
        vals = [e for e in out[2] if e[0] == "validate"]
        ok = out[0] == "return" and ln.attrs["_data"]["xx"] == 7 and \
            (vals == [("validate", 7, "i")] if vl >= 3 else vals == [])
        ctx.oblige(ok)
        if not ok:
            ctx.violation(R, f_sef.short, "vlevel=%d" % vl,
                          "validations %r, stored %r" % (
                              vals, ln.attrs["_data"].get("xx")))
        # a tag with no datatype on record (its accessor outlives a deleted
        # tag) is validated as the default datatype of the value, not as None
        ctx.instance(R)

        class VH0(VH):
            def before_inline(self, ev, func, args, kwargs):
                if func.name == "_get_default_gfa_tag_datatype":
                    return "i"
                return super().before_inline(ev, func, args, kwargs)
        ln = Abs(seg, label="line", vlevel=vl, _gfa=None, _data={},
                 _datatype={})
        out = eval_function(repo, f_sef, [ln, "xx", 7], hooks=VH0(repo))
        vals = [e for e in out[2] if e[0] == "validate"]
        ok = out[0] == "return" and ln.attrs["_data"].get("xx") == 7 and \
            (vals == [("validate", 7, "i")] if vl >= 3 else vals == [])
        ctx.oblige(ok)
        if not ok:
            ctx.violation(R, f_sef.short, "vlevel=%d,no datatype on record"
                          % vl, "validations %r, stored %r, outcome %r" % (
                              vals, ln.attrs["_data"].get("xx"), out[0:2]))
        # ... and so is a tag that does not exist yet, created with set()
        ctx.instance(R)

        class VH1(VH0):
            def before_inline(self, ev, func, args, kwargs):
                if func.name == "_define_field_methods":
                    return None
                if func.name == "_is_valid_custom_tagname":
                    return True
                return super().before_inline(ev, func, args, kwargs)
        ln = Abs(seg, label="line", vlevel=vl, _gfa=None, _data={},
                 _datatype={}, _virtual=False, virtual=False)
        out = eval_function(repo, f_set, [ln, "xx", 7], hooks=VH1(repo))
        vals = [e for e in out[2] if e[0] == "validate"]
        ok = out[0] == "return" and ln.attrs["_data"].get("xx") == 7 and \
            ln.attrs["_datatype"].get("xx") == "i" and \
            (vals == [("validate", 7, "i")] if vl >= 3 else vals == [])
        ctx.oblige(ok)
        if not ok:
            ctx.violation(R, f_set.short, "vlevel=%d,new tag" % vl,
                          "validations %r, stored %r, datatype %r, outcome "
                          "%r" % (vals, ln.attrs["_data"].get("xx"),
                                  ln.attrs["_datatype"].get("xx"), out[0:2]))
        for stored, dt in ((5, "i"), ("text", "Z"), ("12", "i")):
            ctx.instance(R)
            ln = Abs(seg, label="line", vlevel=vl, _data={"xx": stored},
                     _datatype={"xx": dt})
            out = eval_function(repo, f_get, [ln, "xx"], hooks=VH(repo))
            vals = [e for e in out[2] if e[0] == "validate"]
            parses = [e for e in out[2] if e[0] == "parse"]
            if stored == "12":
                # undecoded text: decoded lazily, validating iff level >= 1;
                # the decoded object replaces the text at every level (an
                # in-place edit of what get() returned is an edit of the
                # field: the E-line setters rely on it)
                ok = out[0] == "return" and out[1] == "<decoded>" and \
                    parses == [("parse", vl >= 1)] and \
                    ln.attrs["_data"].get("xx") == "<decoded>"
            else:
                ok = out[0] == "return" and out[1] == stored and \
                    (vals == [("validate", stored, dt)] if vl >= 3
                     else vals == [])
            ctx.oblige(ok)
            if not ok:
                ctx.violation(R, f_get.short,
                              "vlevel=%d,stored=%r,datatype=%s" % (
                                  vl, stored, dt),
                              "returns %r; validations %r, decodings %r" % (
                                  out[1], vals, parses))
        # explicit validation looks at what is stored: a decoded value, or
        # the text of a field that was not decoded yet (decoding it first
        # with the non-validating decoder of level 0 would lose the errors)
        for stored in (5, "12"):
            ctx.instance(R)
            ln = Abs(seg, label="line", vlevel=vl, _data={"xx": stored},
                     _datatype={"xx": "i"})
            class VH2(VH):
                # field reads inside validate_field run the real get()
                def method(self, ev, base, name, args, kwargs, node):
                    if name == "get" and isinstance(base, Abs) and \
                            base.label == "line":
                        return NotImplemented
                    return super().method(ev, base, name, args, kwargs, node)
            out = eval_function(repo, f_vf, [ln, "xx"], hooks=VH2(repo))
            vals = [e for e in out[2] if e[0] == "validate"]
            parses = [e for e in out[2] if e[0] == "parse"]
            ok = out[0] == "return" and \
                vals == [("validate", stored, "i")] and not parses and \
                ln.attrs["_data"]["xx"] == stored
            ctx.oblige(ok)
            if not ok:
                ctx.violation(R, f_vf.short,
                              "vlevel=%d,stored=%r" % (vl, stored),
                              "explicit validation runs %r (decodings %r, "
                              "stored afterwards %r); it must validate the "
                              "stored value itself" % (
                                  vals, parses, ln.attrs["_data"].get("xx")))
    ctx.exhaustive[R] = True

    # ------------------------------------------------------------------
    R = "C18.validator_dispatch"
    ctx.rule(R, "Field._validate_gfa_field hands every value to the "
             "validator of the datatype it is validated as: text to "
             "validate_encoded, any other object to validate_decoded (a "
             "FieldArray validates itself against the datatype); no class of "
             "value is accepted without asking the datatype, and a datatype "
             "without module is a TypeError", floor=20)
    V = repo.cls("field.validator.Validator")
    f_val = ctx.anchor("Validator._validate_gfa_field",
                       V.find_method("_validate_gfa_field"))
    asked = []
    modabs = Abs(None, label="module-of-datatype",
                 validate_decoded=("pyfunc", lambda o: asked.append(
                     ("validate_decoded", o))),
                 validate_encoded=("pyfunc", lambda o: asked.append(
                     ("validate_encoded", o))))

    class DH(LineHooks):
        def class_attr(self, ev, cls, attr):
            if attr == "FIELD_MODULE":
                return {"dt": modabs}
            return super().class_attr(ev, cls, attr)

        def method(self, ev, base, name, args, kwargs, node):
            if isinstance(base, Abs) and base.label == "value:FieldArray" \
                    and name == "_validate_gfa_field":
                ev.events.append(("array-validates-itself",
                                  args[0] if args else None))
                return None
            return super().method(ev, base, name, args, kwargs, node)
    from .c19 import value_of_class, FakeBuiltin
    from .. import spec
    vclasses = sorted(spec.MUTABLE_VALUE_CLASSES | spec.IMMUTABLE_VALUE_CLASSES
                      | {"Line"})
    for vc in vclasses:
        for dt in ("dt", "unknown"):
            ctx.instance(R)
            v = value_of_class(repo, vc, "value:%s" % vc)
            if isinstance(v, Abs) and v.attrs.get("__builtin__"):
                v.cls = FakeBuiltin(v.attrs["__builtin__"])
            del asked[:]
            out = eval_function(repo, f_val, [v, dt, "xx"], hooks=DH(repo))
            evs = [e for e in out[2] if e[0] != "store"] + list(asked)
            if vc == "FieldArray":
                ok = out[0] == "return" and \
                    evs == [("array-validates-itself", dt)]
            elif dt == "unknown":
                ok = out[0] == "raise" and str(out[1]).endswith("TypeError") \
                    and not evs
            else:
                want = "validate_encoded" if vc == "str" else \
                    "validate_decoded"
                ok = out[0] == "return" and len(evs) == 1 and \
                    evs[0][0] == want and (evs[0][1] is v or evs[0][1] == v)
            ctx.oblige(ok)
            if not ok:
                ctx.violation(R, f_val.short,
                              "value=%s,datatype=%s" % (
                                  vc, "known" if dt == "dt" else "unknown"),
                              "outcome %r, validators asked %r" % (
                                  out[0:2], [e[0] for e in evs]))
    ctx.exhaustive[R] = True

    # ------------------------------------------------------------------
    from .c20 import rule_write_time_validation
    rule_write_time_validation(ctx, "C18.write_threshold")

    # ------------------------------------------------------------------
    R = "C18.explicit_validate"
    ctx.rule(R, "Validate.validate validates every positional field and tag "
             "and the record-specific rules at every level; at level 0 it "
             "also checks tag names and predefined tag types", floor=4)
    f_v = ctx.anchor("Line.validate", seg.find_method("validate"))
    for vl in (0, 1, 2, 3):
        ctx.instance(R)
        ln = Abs(seg, label="line", vlevel=vl,
                 _data={"name": "a", "sequence": "*", "LN": 1, "xx": 2})
        stubs = ["validate_field", "_validate_record_type_specific_info",
                 "_validate_tagnames_and_types"]
        out = eval_function(repo, f_v, [ln], hooks=SeqHooks(repo, stubs))
        fields = [e[1] for e in out[2] if e[0] == "validate_field"]
        names = [e[0] for e in out[2]]
        ok = out[0] == "return" and \
            fields == ["name", "sequence", "LN", "xx"] and \
            "_validate_record_type_specific_info" in names and \
            (("_validate_tagnames_and_types" in names) == (vl == 0))
        ctx.oblige(ok)
        if not ok:
            ctx.violation(R, f_v.short, "vlevel=%d" % vl,
                          "validates fields %r, steps %r" % (fields, names))
    ctx.exhaustive[R] = True

    # ------------------------------------------------------------------
    R = "C18.same_classes_at_level_0"
    ctx.rule(R, "for every datatype the non-validating decoder "
             "(unsafe_decode, used at level 0) can return exactly the classes "
             "the validating decoder returns: the level does not change the "
             "kind of value stored", floor=20)
    seen = set()
    for dt, m in sorted(fm.items()):
        if m in seen:
            continue
        seen.add(m)
        d = codec.module_func(repo, m, "decode")
        u = codec.module_func(repo, m, "unsafe_decode")
        if d is None or u is None:
            continue
        ctx.instance(R)
        td = codec.return_types(repo, d) - {"?"}
        tu = codec.return_types(repo, u) - {"?"}
        ok = td == tu
        ctx.oblige(ok)
        if not ok:
            ctx.violation(R, u.short, "datatype=%s" % m.name.split(".")[-1],
                          "decode returns %s, unsafe_decode returns %s" % (
                              sorted(td), sorted(tu)))
    ctx.exhaustive[R] = True

    # ------------------------------------------------------------------
    R = "C18.header_add"
    ctx.rule(R, "Multiline.add on a tag that already has a value: the new "
             "value is appended to the (possibly newly created) FieldArray at "
             "every level; at vlevel >= 2 it is validated against the "
             "array's datatype when no datatype is given, or its datatype is "
             "compared with the array's when one is given", floor=12)
    hdr = repo.cls("line.Header")
    FA = repo.cls("FieldArray")
    f_add = ctx.anchor("Header.add", hdr.find_method("add"))

    class AH(LineHooks):
        def before_inline(self, ev, func, args, kwargs):
            if func.name == "_validate_gfa_field":
                ev.events.append(("validate", args[0], args[1]))
                return None
            if func.name == "get_datatype":
                return "i"
            if func.name == "_set_existing_field":
                args[0].attrs["_data"][args[1]] = args[2]
                return None
            return NotImplemented

        def construct(self, ev, cls, args, kwargs):
            if cls is FA:
                return Abs(FA, label="new-array", _datatype=args[0],
                           datatype=args[0], _data=list(args[1]))
            return super().construct(ev, cls, args, kwargs)

        def method(self, ev, base, name, args, kwargs, node):
            if isinstance(base, Abs) and base.cls is FA and name == "append":
                base.attrs["_data"].append(args[0])
                return None
            if isinstance(base, Abs) and name == "_set_existing_field":
                base.attrs["_data"][args[0]] = args[1]
                return None
            return super().method(ev, base, name, args, kwargs, node)
    for vl, prevkind, dt_arg in itertools.product(
            [0, 1, 2, 3], ["array", "scalar"], [None, "i", "Z"]):
        ctx.instance(R)
        arr = Abs(FA, label="array", _datatype="i", datatype="i",
                  _data=[1, 2])
        data = {"xx": arr if prevkind == "array" else 1}
        h = Abs(hdr, label="header", vlevel=vl, _data=data, _datatype={})
        out = eval_function(repo, f_add, [h, "xx", 9, dt_arg], hooks=AH(repo))
        cur = h.attrs["_data"]["xx"]
        vals = [e for e in out[2] if e[0] == "validate"]
        cell = "vlevel=%d,previous=%s,datatype_arg=%s" % (vl, prevkind, dt_arg)
        mismatch = vl >= 2 and dt_arg == "Z"
        if mismatch:
            ok = out[0] == "raise" and \
                str(out[1]).endswith("InconsistencyError")
        else:
            ok = out[0] == "return" and isinstance(cur, Abs) and \
                cur.cls is FA and cur.attrs["_data"][-1] == 9 and \
                len(cur.attrs["_data"]) == (3 if prevkind == "array" else 2)
            if ok and vl >= 2 and dt_arg is None:
                ok = vals == [("validate", 9, "i")]
            if ok and vl < 2:
                ok = vals == []
        ctx.oblige(ok)
        if not ok:
            ctx.violation(R, f_add.short, cell,
                          "outcome %r, array %r, validations %r" % (
                              out[0:2], cur.attrs.get("_data") if isinstance(
                                  cur, Abs) else cur, vals))
    ctx.exhaustive[R] = True

    # ------------------------------------------------------------------
    R = "C18.level_inherited"
    ctx.rule(R, "every line the three adders of Creators build from text is "
             "constructed with vlevel = the Gfa's level (comment lines, which "
             "have nothing to validate, excepted), for every record type and "
             "every state of the version", floor=25)
    from .. import spec

    def mk_gfa(version, vlevel):
        header = Abs(hdr, label="header")
        return Abs(gfacls, label="gfa", _version=version,
                   _version_guess="gfa2" if version is None else version,
                   _version_explanation=None, _vlevel=vlevel,
                   _dialect="standard", _line_queue=[],
                   _n_input_header_lines=0, _records={"H": header})
    for ver, fname in ((None, "__add_line_unknown_version"),
                       ("gfa1", "__add_line_GFA1"), ("gfa2", "__add_line_GFA2")):
        f = ctx.anchor("Creators.%s" % fname, gfacls.find_method(fname))
        for rt in ["H", "S", "L", "C", "P", "E", "F", "G", "O", "U", "X"]:
            made = {}

            def factory(text, kwargs, made=made, rt=rt):
                made.setdefault("kw", []).append(kwargs)
                c = repo.cls("line.CustomRecord")
                return Abs(c, label="line:%s" % rt, VN=None,
                           _version="gfa2", name="n", record_type=rt)

            class UH(GfaHooks):
                stubs = ("process_line_queue",)

                def getattr(self, ev, base, attr):
                    if attr in ("record_type", "version") and \
                            isinstance(base, Abs) and \
                            base.label.startswith("line:"):
                        return base.attrs.get(
                            attr, base.attrs.get("_" + attr))
                    return NotImplemented
            for vl in (0, 2, 3):
                g = mk_gfa(ver, vl)
                made.clear()
                out = eval_function(repo, f, [g, rt + "\tx"],
                                    hooks=UH(repo, factory))
                for kw in made.get("kw", []):
                    ctx.instance(R)
                    ok = kw.get("vlevel") == vl
                    ctx.oblige(ok)
                    if not ok:
                        ctx.violation(
                            R, f.short, "record=%s,gfa_vlevel=%d" % (rt, vl),
                            "the line is built with vlevel=%r (keywords %r): "
                            "the Gfa's validation level is not applied to "
                            "it" % (kw.get("vlevel", "default"), kw))
    ctx.exhaustive[R] = True
