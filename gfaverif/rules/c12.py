"""C12 -- a link and its complement are one edge.

Decided clauses (TABLE/SYM): the CIGAR complement code map is the reference
map, an involution on the claimed codes, exchanges the reference/query code
sets, reverses the order, keeps the lengths, builds new operations and stores
nothing into the receiver; Link.complement/make_complement realise the
reference field map; is_same/is_complement/is_eql/is_compatible* equal the
field-level reference relation on the whole finite domain of link pairs;
the duplicate-link handling (complement tolerated, anything else refused) and
the orientation recorded by a path for a link traversed in complement form.
Not decided: the laws on concrete CIGAR values beyond the code table, histories.
"""
import ast
import itertools

from .. import spec
from ..model import AnalysisError
from ..tables import Abs, Hooks, Unsupported, eval_function
from ..linehooks import LineHooks
from .common import is_library_error


class OvHooks(LineHooks):
    """Overlaps are opaque values: ('X', False) is an alignment, ('X', True)
    its complement; '*' the placeholder."""

    def __init__(self, repo):
        super().__init__(repo)
        self.OV = Abs  # marker
        self.cloned = []

    def ov(self, cid, comp=False):
        if cid == "*":
            return Abs(self.repo.cls("AlignmentPlaceholder"), label="ov:*",
                       cid="*", comp=False, __bool__=False)
        return Abs(self.repo.cls("CIGAR"),
                   label="ov:%s%s" % (cid, "'" if comp else ""),
                   cid=cid, comp=comp, __bool__=True)

    @staticmethod
    def is_ov(v):
        return isinstance(v, Abs) and "cid" in v.attrs

    def eq(self, ev, a, b):
        if self.is_ov(a) and self.is_ov(b):
            if a.attrs["cid"] == "*" or b.attrs["cid"] == "*":
                return a.attrs["cid"] == b.attrs["cid"]
            return (a.attrs["cid"], a.attrs["comp"]) == \
                (b.attrs["cid"], b.attrs["comp"])
        return super().eq(ev, a, b)

    def method(self, ev, base, name, args, kwargs, node):
        if self.is_ov(base) and name == "complement" and not args:
            ev.events.append(("ovcomp", base.label))
            if base.attrs["cid"] == "*":
                return base
            return self.ov(base.attrs["cid"], not base.attrs["comp"])
        if isinstance(base, Abs) and name == "clone" and not args:
            c = Abs(base.cls, label="clone(%s)" % base.label, **base.attrs)
            self.cloned.append(c)
            return c
        return super().method(ev, base, name, args, kwargs, node)

    def construct(self, ev, cls, args, kwargs):
        if cls.name == "Alignment" and args and self.is_ov(args[0]):
            return args[0]
        return super().construct(ev, cls, args, kwargs)


def run(ctx):
    repo = ctx.repo
    CIGAR = repo.cls("CIGAR")
    OP = repo.cls("CIGAR.Operation")

    # ------------------------------------------------------------------
    R = "C12.cigar_complement"
    ctx.rule(R, "CIGAR.complement: result = reversed operations, same lengths, "
             "codes mapped by {I->D, D->I, S->D, N->I, identity otherwise}; "
             "the map is an involution on {M,I,D,P,=,X,H}; the result consists "
             "of new Operation objects and nothing is stored into the "
             "receiver's operations", floor=9)
    f_c = ctx.anchor("CIGAR.complement", CIGAR.find_method("complement"))

    class CigHooks(Hooks):
        def construct(self, ev, cls, args, kwargs):
            if cls is OP and len(args) == 2:
                return Abs(OP, length=args[0], code=args[1])
            if cls is CIGAR:
                return CigarList(args[0] if args else [])
            return NotImplemented
    hooks = CigHooks()
    comp_map = {}
    for code in list(spec.CIGAR_COMPLEMENT):
        ctx.instance(R)
        ops = [Abs(OP, label="op1", length=1, code=code),
               Abs(OP, label="op2", length=2, code="M"),
               Abs(OP, label="op3", length=3, code="P")]
        out = eval_function(repo, f_c, [ops], hooks=hooks)
        cell = "code=%s" % code
        stores = [e for e in out[2] if e[0] == "store"
                  and e[1] in ("op1", "op2", "op3")]
        ok = not stores and [o.attrs["code"] for o in ops] == [code, "M", "P"]
        ctx.oblige(ok)
        if not ok:
            ctx.violation(R, f_c.short, cell + ",receiver",
                          "complement() stores into the operations of its "
                          "receiver (%r)" % (stores,))
        res = out[1]
        ok = out[0] == "return" and isinstance(res, CigarList) and \
            len(res) == 3 and \
            all(isinstance(o, Abs) and o.cls is OP for o in res)
        if ok:
            got = [(o.attrs["length"], o.attrs["code"]) for o in res]
            comp_map[code] = got[2][1]
            want = [(3, "P"), (2, "M"), (1, spec.CIGAR_COMPLEMENT[code])]
            ok = got == want
            msg = "complement of 1%s2M3P is %s, the specification says %s" % (
                code, "".join("%s%s" % x for x in got),
                "".join("%s%s" % x for x in want))
        else:
            msg = "complement() does not return a CIGAR of Operations (%r)" % (
                res,)
        ctx.oblige(ok)
        if not ok:
            ctx.violation(R, f_c.short, cell, msg)
        if out[0] == "return" and isinstance(res, CigarList):
            fresh = all(not any(o is i for i in ops) for o in res)
            ctx.oblige(fresh)
            if not fresh:
                ctx.violation(R, f_c.short, cell + ",fresh",
                              "the complement shares Operation objects with "
                              "the receiver")
    # alignments of other lengths: empty, one operation, two operations
    for n_ops, code in itertools.product((0, 1, 2),
                                         list(spec.CIGAR_COMPLEMENT)):
        if n_ops == 0 and code != "M":
            continue
        ctx.instance(R)
        ops = [Abs(OP, label="op%d" % i, length=i + 1, code=code)
               for i in range(n_ops)]
        out = eval_function(repo, f_c, [CigarList(ops)], hooks=hooks)
        res = out[1]
        want = [(i + 1, spec.CIGAR_COMPLEMENT[code])
                for i in reversed(range(n_ops))]
        got = [(o.attrs["length"], o.attrs["code"]) for o in res] \
            if out[0] == "return" and isinstance(res, list) and all(
                isinstance(o, Abs) for o in res) else res
        ok = got == want and not any(o is i for o in (
            res if isinstance(res, list) else []) for i in ops)
        ctx.oblige(ok)
        if not ok:
            ctx.violation(R, f_c.short, "operations=%d,code=%s" % (n_ops, code),
                          "complement of %s is %r, the specification says %r "
                          "(as new Operation objects)" % (
                              "".join("%d%s" % (i + 1, code)
                                      for i in range(n_ops)) or "''",
                              got, want))
    for code in spec.CIGAR_CODES_CLAIM:
        ctx.instance(R)
        ok = comp_map.get(comp_map.get(code)) == code
        ctx.oblige(ok)
        if not ok:
            ctx.violation(R, f_c.short, "involution,code=%s" % code,
                          "complement of complement of %s is %s" %
                          (code, comp_map.get(comp_map.get(code))))
    ctx.exhaustive[R] = True
    ctx.sample({"rule": R, "code_map": comp_map})

    # reference/query code sets
    R = "C12.cigar_lengths"
    ctx.rule(R, "length_on_reference counts {M,=,X,D,N}, length_on_query counts "
             "{M,=,X,I,S}; for every claimed code c: c consumes the reference "
             "iff complement(c) consumes the query and vice versa", floor=18)
    f_r = ctx.anchor("CIGAR.length_on_reference",
                     CIGAR.find_method("length_on_reference"))
    f_q = ctx.anchor("CIGAR.length_on_query",
                     CIGAR.find_method("length_on_query"))
    sets = {}
    for f, name, want in ((f_r, "reference", spec.CIGAR_REFERENCE_CODES),
                          (f_q, "query", spec.CIGAR_QUERY_CODES)):
        got = set()
        for code in list(spec.CIGAR_COMPLEMENT):
            ctx.instance(R)
            ops = [Abs(OP, length=5, code=code), Abs(OP, length=7, code=code)]
            out = eval_function(repo, f, [ops], hooks=hooks)
            if out[0] != "return" or out[1] not in (0, 12):
                ctx.oblige(False)
                ctx.violation(R, f.short, "code=%s" % code,
                              "length of 5%s7%s on %s is %r (expected 0 or 12)"
                              % (code, code, name, out[1]))
                continue
            if out[1] == 12:
                got.add(code)
            ok = (code in want) == (out[1] == 12)
            ctx.oblige(ok)
            if not ok:
                ctx.violation(R, f.short, "code=%s" % code,
                              "operation %s %s the %s, the SAM/GFA "
                              "specification says the opposite" %
                              (code, "consumes" if out[1] else
                               "does not consume", name))
        sets[name] = got
    for code in spec.CIGAR_CODES_CLAIM:
        c2 = comp_map.get(code)
        ok = ((code in sets["reference"]) == (c2 in sets["query"])) and \
            ((code in sets["query"]) == (c2 in sets["reference"]))
        ctx.oblige(ok)
        if not ok:
            ctx.violation(R, f_c.short, "exchange,code=%s" % code,
                          "complement(%s)=%s does not exchange reference and "
                          "query consumption" % (code, c2))
    ctx.exhaustive[R] = True
    ctx.sample({"rule": R, "reference": sorted(sets["reference"]),
                "query": sorted(sets["query"])})

    # ------------------------------------------------------------------
    link = repo.cls("line.edge.Link")
    S1 = repo.cls("line.segment.GFA1")

    def mk_link(oh, fs, fo, ts, to, ov, label="link", **kw):
        return Abs(link, label=label, from_segment=fs, from_orient=fo,
                   to_segment=ts, to_orient=to, overlap=ov, **kw)

    R = "C12.link_complement"
    ctx.rule(R, "Link.complement (on a clone) and make_complement (in place): "
             "from_segment <- to_segment, to_segment <- from_segment, "
             "from_orient <- invert(to_orient), to_orient <- "
             "invert(from_orient), overlap <- overlap.complement(); all "
             "orientation pairs, distinct segments and self-links, specified "
             "and placeholder overlaps; complement() leaves the receiver's "
             "fields unchanged", floor=32)
    f_comp = ctx.anchor("Link.complement", link.find_method("complement"))
    f_mk = ctx.anchor("Link.make_complement",
                      link.find_method("make_complement"))
    for o1, o2, same, cid in itertools.product(spec.ORIENTS, spec.ORIENTS,
                                               [False, True], ["X", "*"]):
        for f, inplace in ((f_comp, False), (f_mk, True)):
            ctx.instance(R)
            oh = OvHooks(repo)
            fs, ts = "a", ("a" if same else "b")
            ov = oh.ov(cid)
            l = mk_link(oh, fs, o1, ts, o2, ov)
            before = dict(l.attrs)
            out = eval_function(repo, f, [l], hooks=oh)
            cell = "%s,orient=%s%s,%s,overlap=%s" % (
                "make_complement" if inplace else "complement", o1, o2,
                "self-link" if same else "a->b", cid)
            res = out[1] if out[0] == "return" else None
            ok = isinstance(res, Abs)
            if ok:
                want_ov = ov if cid == "*" else oh.ov(cid, True)
                ok = res.attrs.get("from_segment") == ts and \
                    res.attrs.get("to_segment") == fs and \
                    res.attrs.get("from_orient") == spec.INVERT[o2] and \
                    res.attrs.get("to_orient") == spec.INVERT[o1] and \
                    oh.eq(None, res.attrs.get("overlap"), want_ov) is True
            if ok and inplace:
                ok = res is l
            if ok and not inplace:
                ok = res is not l and all(l.attrs[k] is before[k] or
                                          l.attrs[k] == before[k]
                                          for k in before)
            ctx.oblige(ok)
            if not ok:
                ctx.violation(R, f.short, cell,
                              "result fields %r do not realise the complement "
                              "of (%s%s -> %s%s, %s)" % (
                                  res.attrs if isinstance(res, Abs) else res,
                                  fs, o1, ts, o2, cid))
    ctx.exhaustive[R] = True

    # ------------------------------------------------------------------
    R = "C12.equivalence"
    ctx.rule(R, "is_same(l1,l2) <=> fields equal; is_complement(l1,l2) <=> l1 "
             "equals the field-wise complement of l2; is_eql = either; on all "
             "pairs over segments {a,b}, orientations, overlaps "
             "{X, X', Y, *}; the tests are symmetric and store nothing",
             floor=3000)
    fs_ = {n: ctx.anchor("Link.%s" % n, link.find_method(n))
           for n in ("is_same", "is_complement", "is_eql")}
    oh = OvHooks(repo)
    segs = {"a": Abs(S1, label="seg:a", name="a"),
            "b": Abs(S1, label="seg:b", name="b")}
    segnames = "ab"
    if ctx.tier == "thorough":
        segs["c"] = Abs(S1, label="seg:c", name="c")
        segnames = "abc"
    ovs = [("X", False), ("X", True), ("Y", False), ("*", False)]
    descr = list(itertools.product(segnames, spec.ORIENTS, segnames,
                                   spec.ORIENTS, ovs))

    def fields(d):
        return d

    def comp_fields(d):
        fs, fo, ts, to, (cid, c) = d
        return (ts, spec.INVERT[to], fs, spec.INVERT[fo],
                (cid, (not c) if cid != "*" else False))

    n_pairs = 0
    asym = 0
    for d1 in descr:
        l1 = mk_link(oh, segs[d1[0]], d1[1], segs[d1[2]], d1[3],
                     oh.ov(*d1[4]), label="l1")
        for d2 in descr:
            l2 = mk_link(oh, segs[d2[0]], d2[1], segs[d2[2]], d2[3],
                         oh.ov(*d2[4]), label="l2")
            n_pairs += 1
            want = {"is_same": d1 == d2, "is_complement": d1 == comp_fields(d2)}
            want["is_eql"] = want["is_same"] or want["is_complement"]
            for name, f in fs_.items():
                ctx.instance(R)
                out = eval_function(repo, f, [l1, l2], hooks=oh)
                stores = [e for e in out[2] if e[0] in ("store", "set")]
                ok = out[0] == "return" and bool(out[1]) == want[name] \
                    and not stores
                ctx.oblige(ok)
                if not ok:
                    ctx.violation(
                        R, f.short, "%s(%s | %s)" % (name, fmt_link(d1),
                                                     fmt_link(d2)),
                        "answers %r, the specification says %r%s" % (
                            out[1], want[name],
                            "; it also stores %r" % stores if stores else ""))
    ctx.exhaustive[R] = True
    ctx.sample({"rule": R, "pairs": n_pairs,
                "example": "is_complement(a+ b+ X | b- a- X') = True"})

    # ------------------------------------------------------------------
    R = "C12.compatibility"
    ctx.rule(R, "is_compatible_direct(from,to,ov): oriented segments equal and "
             "(either overlap unspecified or equal); "
             "is_compatible_complement(from,to,ov): the same for the "
             "complement of the link; is_compatible = direct or (complement "
             "if allowed); all links x all queries", floor=3000)
    OL = repo.cls("OrientedLine")
    fd = ctx.anchor("Link.is_compatible_direct",
                    link.find_method("is_compatible_direct"))
    fc = ctx.anchor("Link.is_compatible_complement",
                    link.find_method("is_compatible_complement"))
    fa = ctx.anchor("Link.is_compatible", link.find_method("is_compatible"))

    def ol(seg, o):
        return Abs(OL, label="%s%s" % (seg.attrs["name"], o), line=seg,
                   orient=o, name=seg.attrs["name"])

    def ov_compatible(a, b):
        if a[0] == "*" or b[0] == "*":
            return True
        return a == b
    for d1 in descr:
        l1 = mk_link(oh, segs[d1[0]], d1[1], segs[d1[2]], d1[3],
                     oh.ov(*d1[4]), label="l1")
        c1 = comp_fields(d1)
        for q in descr:
            qf, qt = ol(segs[q[0]], q[1]), ol(segs[q[2]], q[3])
            qov = oh.ov(*q[4])
            direct = d1[:4] == q[:4] and ov_compatible(d1[4], q[4])
            compl = c1[:4] == q[:4] and ov_compatible(c1[4], q[4])
            for f, want, extra in ((fd, direct, []), (fc, compl, []),
                                   (fa, direct or compl, [True]),
                                   (fa, direct, [False])):
                ctx.instance(R)
                out = eval_function(repo, f, [l1, qf, qt, qov] + extra,
                                    hooks=oh)
                ok = out[0] == "return" and bool(out[1]) == want
                ctx.oblige(ok)
                if not ok:
                    ctx.violation(
                        R, f.short, "%s%s(link %s | query %s)" % (
                            f.name, extra and "[allow_complement=%s]" % extra[0]
                            or "", fmt_link(d1), fmt_link(q)),
                        "answers %r, the specification says %r" %
                        (out[1], want))
    ctx.exhaustive[R] = True

    # ------------------------------------------------------------------
    R = "C12.duplicate_handling"
    ctx.rule(R, "adding a link that is the complement of the stored one "
             "returns without raising; any other clash raises NotUniqueError; "
             "the duplicate search for an L line goes through _search_link "
             "with the complement allowed", floor=3)
    f_pnu = ctx.anchor("Link._process_not_unique",
                       link.find_method("_process_not_unique"))

    class AtomHooks(LineHooks):
        def __init__(self, repo, answer):
            super().__init__(repo)
            self.answer = answer
            self.calls = []

        def before_inline(self, ev, func, args, kwargs):
            if func.name in ("is_complement", "is_eql", "is_same"):
                self.calls.append((func.name, args))
                return self.answer.get(func.name, False)
            if func.name == "is_compatible":
                self.calls.append((func.name, args, kwargs))
                return self.answer.get(func.name, False)
            return NotImplemented

        def to_str(self, ev, v):
            return "<%s>" % v.label
    for ans in (True, False):
        ctx.instance(R)
        ah = AtomHooks(repo, {"is_complement": ans})
        l1 = Abs(link, label="new")
        l2 = Abs(link, label="previous")
        out = eval_function(repo, f_pnu, [l1, l2], hooks=ah)
        if ans:
            ok = out[0] == "return"
            msg = "the complement of a stored link is refused (%r)" % (out[1],)
        else:
            ok = out[0] == "raise" and str(out[1]).endswith("NotUniqueError") \
                and is_library_error(repo, repo.modules[
                    "gfapy.line.common.connection"], out[1])
            msg = "a clashing link that is not the complement is not refused " \
                  "with NotUniqueError (%r)" % (out[1],)
        used = [c for c in ah.calls if c[0] == "is_complement"]
        ok = ok and len(used) == 1 and used[0][1][0] is l1 and \
            used[0][1][1] is l2
        ctx.oblige(ok)
        if not ok:
            ctx.violation(R, f_pnu.short, "is_complement=%s" % ans, msg)
    gfacls = repo.cls("Gfa")
    f_sd = ctx.anchor("Finders._search_duplicate",
                      gfacls.find_method("_search_duplicate"))
    ctx.instance(R)
    ah = AtomHooks(repo, {"is_compatible": True})
    oh2 = OvHooks(repo)
    cand = Abs(link, label="stored")
    sa = Abs(S1, label="seg:a", name="a", dovetails=[cand])
    sb = Abs(S1, label="seg:b", name="b")
    gfa = Abs(gfacls, label="gfa", __gfa__=True, segments={"a": sa, "b": sb})
    newl = Abs(link, label="new", from_segment="a", from_orient="+",
               to_segment="b", to_orient="+", overlap=oh2.ov("X"))
    # route field reads of the new link through its attrs
    ah.ov = oh2.ov

    class SDHooks(AtomHooks):
        def method(self, ev, base, name, args, kwargs, node):
            if base is gfa and name == "segment":
                key = self.name_of(args[0].attrs.get("line", args[0])
                                   if isinstance(args[0], Abs) else args[0])
                return {"a": sa, "b": sb}.get(key)
            return super().method(ev, base, name, args, kwargs, node)
    sh = SDHooks(repo, {"is_compatible": True})
    out = eval_function(repo, f_sd, [gfa, newl], hooks=sh)
    calls = [c for c in sh.calls if c[0] == "is_compatible"]
    ok = out[0] == "return" and out[1] is cand and len(calls) == 1
    if ok:
        a = calls[0][1]
        kw = calls[0][2]
        allow = a[4] if len(a) > 4 else kw.get("allow_complement", True)
        ok = a[0] is cand and allow is True and \
            isinstance(a[1], Abs) and a[1].attrs.get("orient") == "+" and \
            a[1].attrs.get("name") == "a" and a[2].attrs.get("name") == "b"
    ctx.oblige(ok)
    if not ok:
        ctx.violation(R, f_sd.short, "record_type=L",
                      "the duplicate search of an L line does not reach "
                      "is_compatible(oriented_from, oriented_to, overlap, "
                      "allow_complement=True) on the links of the from "
                      "segment (result %r, calls %r)" % (out[1], calls))
    ctx.exhaustive[R] = True

    # ------------------------------------------------------------------
    R = "C12.path_orientation"
    ctx.rule(R, "Path._initialize_links records the stored link with "
             "orientation '-' exactly when it matches the required "
             "(from, to, overlap) in complement form, '+' otherwise, and "
             "files the path under the link's 'paths'; every stored link of "
             "the domain x both ways the path can require it", floor=100)
    P = repo.cls("line.group.Path")
    f_il = ctx.anchor("Path._initialize_links",
                      P.find_method("_initialize_links"))
    for d in descr:
        for form in ("direct", "complement"):
            q = d if form == "direct" else comp_fields(d)
            c1 = comp_fields(d)
            want_compl = c1[:4] == q[:4] and ov_compatible(c1[4], q[4])
            ctx.instance(R)
            stored = mk_link(oh, segs[d[0]], d[1], segs[d[2]], d[3],
                             oh.ov(*d[4]), label="stored")

            class PH(OvHooks):
                def before_inline(self, ev, func, args, kwargs, q=q):
                    if func.name == "_compute_required_links":
                        return [[ol(segs[q[0]], q[1]), ol(segs[q[2]], q[3]),
                                 self.ov(*q[4])]]
                    return NotImplemented

                def method(self, ev, base, name, args, kwargs, node,
                           stored=stored):
                    if isinstance(base, Abs) and base.attrs.get("__gfa__"):
                        if name == "segment":
                            return segs.get(self.name_of(args[0]))
                        if name == "_search_link":
                            return stored
                    return super().method(ev, base, name, args, kwargs, node)
            gfa = Abs(None, label="gfa", __gfa__=True, segments=segs,
                      _segments_first_order=False)
            p = Abs(P, label="path", _gfa=gfa, _refs={})
            out = eval_function(repo, f_il, [p], hooks=PH(repo))
            links = p.attrs["_refs"].get("links") \
                if out[0] == "return" else None
            got = links[0].attrs.get("orient") if isinstance(links, list) \
                and len(links) == 1 and isinstance(links[0], Abs) else None
            ok = got == ("-" if want_compl else "+") and \
                links[0].attrs.get("line") is stored and \
                ("addref", "stored", "paths", "path") in out[2]
            ctx.oblige(ok)
            if not ok:
                ctx.violation(
                    R, f_il.short, "stored=%s,required=%s" % (
                        fmt_link(d), fmt_link(q)),
                    "the path records orientation %r for the stored link "
                    "(outcome %r); the link matches the required one in "
                    "complement form: %s, so the orientation must be %s" % (
                        got, out[0:2], want_compl,
                        "-" if want_compl else "+"))
    # a link between the same oriented segments whose overlap is another
    # alignment is another edge: the path does not adopt it (it waits for
    # its own link with a placeholder), whichever of the two arrives first
    Lk = repo.cls("line.edge.Link")
    for d in descr:
        if d[4][0] == "*":
            continue
        for form in ("direct", "complement"):
            base_q = d if form == "direct" else comp_fields(d)
            q = base_q[:4] + (("Z", False),)
            ctx.instance(R)
            stored = mk_link(oh, segs[d[0]], d[1], segs[d[2]], d[3],
                             oh.ov(*d[4]), label="stored")
            made = []

            class PH2(OvHooks):
                def before_inline(self, ev, func, args, kwargs, q=q):
                    if func.name == "_compute_required_links":
                        return [[ol(segs[q[0]], q[1]), ol(segs[q[2]], q[3]),
                                 self.ov(*q[4])]]
                    return NotImplemented

                def method(self, ev, base, name, args, kwargs, node,
                           stored=stored, d=d):
                    if isinstance(base, Abs) and base.attrs.get("__gfa__"):
                        if name == "segment":
                            return segs.get(self.name_of(args[0]))
                        if name == "_search_link":
                            # Finders._search_link: the link between the two
                            # oriented segments whose overlap is compatible
                            # with the one asked for (None / '*' asks for any)
                            c = args[2] if len(args) > 2 else None
                            if c is None or not self.is_ov(c) or \
                                    c.attrs["cid"] == "*" or \
                                    c.attrs["cid"] == d[4][0]:
                                return stored
                            return None
                    if isinstance(base, Abs) and name == "connect" and \
                            base.label == "virtual link":
                        ev.events.append(("connect", base.label))
                        return None
                    return super().method(ev, base, name, args, kwargs, node)

                def construct(self, ev, cls, args, kwargs):
                    if cls is Lk:
                        v = Abs(Lk, label="virtual link", _refs={},
                                **(args[0] if args and
                                   isinstance(args[0], dict) else {}))
                        made.append(v)
                        return v
                    return super().construct(ev, cls, args, kwargs)
            gfa = Abs(None, label="gfa", __gfa__=True, segments=segs,
                      _segments_first_order=False)
            p = Abs(P, label="path", _gfa=gfa, _refs={})
            out = eval_function(repo, f_il, [p], hooks=PH2(repo))
            links = p.attrs["_refs"].get("links") \
                if out[0] == "return" else None
            ok = isinstance(links, list) and len(links) == 1 and \
                isinstance(links[0], Abs) and len(made) == 1 and \
                links[0].attrs.get("line") is made[0]
            ctx.oblige(ok)
            if not ok:
                ctx.violation(
                    R, f_il.short, "stored=%s,required=%s" % (
                        fmt_link(d), fmt_link(q)),
                    "outcome %r: the path must create a placeholder for the "
                    "link it names (overlap Z) and not adopt the stored "
                    "link, which has another overlap" % (out[0:2],))
    ctx.exhaustive[R] = True

    # ------------------------------------------------------------------
    R = "C12.segment_end_equality"
    ctx.rule(R, "two segment ends are the same end when they name the same "
             "segment and the same side, whatever stands for the segment: "
             "the line, a placeholder created by a forward reference, a line "
             "of another Gfa, or the bare identifier (is_eql / is_complement "
             "/ the duplicate search compare the ends of links built at "
             "different moments)", floor=12)
    SE = repo.cls("SegmentEnd")
    S1c = repo.cls("line.segment.GFA1")
    f_seq = ctx.anchor("SegmentEnd.__eq__", SE.find_method("__eq__"))

    class EH(LineHooks):
        def eq(self, ev, a, b):
            # Line.__eq__: content (a string equals a line of that name)
            if isinstance(a, Abs) and isinstance(b, Abs) and \
                    "content" in a.attrs and "content" in b.attrs:
                return a.attrs["content"] == b.attrs["content"]
            for x, y in ((a, b), (b, a)):
                if isinstance(x, Abs) and "content" in x.attrs and \
                        isinstance(y, str):
                    return x.attrs["name"] == y
            return super().eq(ev, a, b)

        def construct(self, ev, cls, args, kwargs):
            if cls is SE and len(args) == 1:
                v = args[0]
                if isinstance(v, str):
                    return end(v[:-1], v[-1:])
                if isinstance(v, list) and len(v) == 2:
                    return end(v[0], v[1])
            return super().construct(ev, cls, args, kwargs)

    def sg(name, content):
        return Abs(S1c, label="S:%s/%s" % (name, content), name=name,
                   content=(name, content))

    def end(seg_, et):
        # (the evaluator keeps private names as written)
        return Abs(SE, label="end", **{"__segment": seg_, "__end_type": et})
    real, virt, other_gfa = sg("A", "real"), sg("A", "virtual"), \
        sg("A", "tagged")
    forms = {"line": real, "placeholder": virt, "line of another Gfa":
             other_gfa, "identifier": "A"}
    for (n1, s1), (n2, s2), e2, as_ in itertools.product(
            forms.items(), forms.items(), "RL", ("end", "str", "list")):
        if as_ != "end" and n2 != "identifier":
            continue
        ctx.instance(R)
        a = end(s1, "R")
        b = end(s2, e2) if as_ == "end" else \
            ("A" + e2 if as_ == "str" else ["A", e2])
        out = eval_function(repo, f_seq, [a, b], hooks=EH(repo))
        want = e2 == "R"
        ok = out[0] == "return" and bool(out[1]) == want
        ctx.oblige(ok)
        if not ok:
            ctx.violation(R, f_seq.short, "A:R (%s) == A:%s (%s, as %s)" % (
                n1, e2, n2, as_), "answers %r, expected %r" % (out[1], want))
    for s2, e2 in ((sg("B", "real"), "R"), ("B", "R")):
        ctx.instance(R)
        out = eval_function(repo, f_seq, [end(real, "R"), end(s2, e2)],
                            hooks=EH(repo))
        ok = out[0] == "return" and not out[1]
        ctx.oblige(ok)
        if not ok:
            ctx.violation(R, f_seq.short, "A:R == B:R", "answers %r" %
                          (out[1],))
    ctx.exhaustive[R] = True
    ctx.notes["domain"] = ("CIGAR codes MIDNSHPX=; links over segments {a,b}, "
                           "orientations {+,-}, overlaps {X, X', Y, *}")
    ctx.assume("overlap values are opaque: X' is the complement of X, '*' is "
               "the placeholder and equals only '*' (Placeholder.__eq__); the "
               "CIGAR code table is decided separately by C12.cigar_complement")


class CigarList(list):
    """model of a CIGAR built by the analysed code"""


def fmt_link(d):
    fs, fo, ts, to, (cid, c) = d
    return "%s%s %s%s %s%s" % (fs, fo, ts, to, cid, "'" if c else "")
