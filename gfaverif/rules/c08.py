"""C08 -- a failed mutation leaves the Gfa unchanged.

Technique: fault scripts over the abstract interpreter (TABLE).  Each mutation
entry point is evaluated, statement by statement, on abstract Gfa / line
objects.  The collaborators that can refuse the operation (line construction
from text, header merge, connect, version validation, reference checks, the
duplicate search ...) are scripted: in each run at most one of them raises, at
its k-th call, for every collaborator and every k that occurs; the explicit
raises of the function under analysis fire according to the scenario cell.
When the outcome is an exception, a structural snapshot of every persistent
abstract object (the Gfa, its header, the registered lines) taken before the
call must equal the snapshot after it.  The collaborators that commit
(_register_line, _merge, connect, _add_reference, ...) write into the abstract
state, so a commit before the failure point shows up as a difference.

What is decided is the ordering clause: on no path of the listed functions
does a write to persistent state precede a point where the operation can still
be refused.  Observational equality on concrete graphs is not decided.
"""
import ast
import itertools
import re

from ..model import AnalysisError, unparse
from ..tables import Abs, Raised, eval_function
from ..linehooks import LineHooks
from .c13 import GfaHooks

IGNORED = {"_n_input_header_lines", "_max_int_name", "_version_explanation"}


def snapshot(roots, ignore=IGNORED):
    seen = {}

    def snap(v):
        if isinstance(v, Abs):
            if id(v) in seen:
                return ("ref", v.label)
            seen[id(v)] = True
            return ("abs", v.label, tuple(sorted(
                (k, snap(x)) for k, x in v.attrs.items() if k not in ignore)))
        if isinstance(v, dict):
            return ("dict", tuple(sorted((repr(k), snap(x))
                                         for k, x in v.items())))
        if isinstance(v, (list, tuple)):
            return ("list", tuple(snap(x) for x in v))
        if isinstance(v, (set, frozenset)):
            return ("set", tuple(sorted(repr(snap(x)) for x in v)))
        return repr(v)
    return tuple(snap(r) for r in roots)


def diff(a, b, path=""):
    """first difference between two snapshots, as text"""
    if a == b:
        return None
    if isinstance(a, tuple) and isinstance(b, tuple) and a and b and \
            a[0] == b[0] and a[0] in ("abs", "dict", "list"):
        if a[0] == "abs":
            da, db = dict(a[2]), dict(b[2])
            for k in sorted(set(da) | set(db)):
                if da.get(k) != db.get(k):
                    here = "%s.%s" % (path if path else a[1], k)
                    return diff(da.get(k), db.get(k), here) or here
        if a[0] == "dict":
            da, db = dict(a[1]), dict(b[1])
            for k in sorted(set(da) | set(db)):
                if da.get(k) != db.get(k):
                    return diff(da.get(k), db.get(k), "%s[%s]" % (path, k)) \
                        or "%s[%s]" % (path, k)
        if a[0] == "list":
            if len(a[1]) != len(b[1]):
                return "%s: %d -> %d element(s)" % (path, len(a[1]),
                                                    len(b[1]))
            for i, (x, y) in enumerate(zip(a[1], b[1])):
                if x != y:
                    return diff(x, y, "%s[%d]" % (path, i))
    if isinstance(a, tuple) and isinstance(b, tuple) and len(a) == len(b) \
            and (not a or a[0] not in ("abs", "dict", "list", "set", "ref")):
        for x, y in zip(a, b):
            if x != y:
                return diff(x, y, path)
    return "%s: %s -> %s" % (path, str(a)[:60], str(b)[:60])


class Script:
    """which scripted collaborator fails: (name, k, error class) or None;
    counts the calls so that the enumeration knows every (name, k)"""

    def __init__(self, fail=None):
        self.fail = fail
        self.counts = {}
        self.fired = False

    def call(self, name, default_error="gfapy.FormatError"):
        k = self.counts.get(name, 0)
        self.counts[name] = k + 1
        if self.fail is not None and self.fail[0] == name and \
                self.fail[1] == k:
            self.fired = True
            raise Raised(self.fail[2] if len(self.fail) > 2 and self.fail[2]
                         else default_error)


def enumerate_faults(run_once, raisers):
    """run_once(script) -> (outcome, before, after, events).  First a
    fault-free run to learn how often each collaborator is called, then one
    run per (collaborator, k)."""
    base = Script()
    results = [(None, run_once(base))]
    for name in raisers:
        for k in range(base.counts.get(name, 0)):
            s = Script((name, k, raisers[name]))
            r = run_once(s)
            if s.fired:
                results.append(((name, k), r))
    return results


def run(ctx):
    repo = ctx.repo
    gfacls = repo.cls("Gfa")
    Line = repo.cls("Line")
    hdr = repo.cls("line.Header")
    custom = repo.cls("line.CustomRecord")

    groups = {}

    def judge(R, func, cell, results):
        """one obligation per run that ends in an exception; violations are
        grouped by (failure point, first changed attribute)"""
        for fault, (out, before, after, events) in results:
            if out[0] != "raise":
                continue
            ctx.instance(R)
            ok = before == after
            ctx.oblige(ok)
            if not ok:
                d = diff(before, after) or "?"
                # the attribute path without subscripts names the kind of
                # state that changed
                what = re.sub(r"\[[^\]]*\]", "", d.split(":")[0]).strip()
                key = (R, func, "fails=%s,changes=%s" % (
                    fault[0] if fault else "own-raise:" + str(out[1]), what))
                groups.setdefault(key, []).append((cell, d))

    def flush():
        for (R, func, construct), items in sorted(
                groups.items(), key=lambda kv: (kv[0][0], kv[0][1].short,
                                                kv[0][2])):
            cells = sorted({c for c, _ in items})
            ctx.violation(R, func.short, construct,
                          "the call raises after persistent state changed "
                          "(%s) in %d cell(s): %s" % (
                              items[0][1], len(cells), "; ".join(cells[:6]) +
                              (" ..." if len(cells) > 6 else "")))
        groups.clear()

    # ------------------------------------------------------------------
    R = "C08.adders"
    ctx.rule(R, "Creators.__add_line_unknown_version / __add_line_GFA1 / "
             "__add_line_GFA2: for every record type, input kind (text or "
             "line), version cell and every single failure point (line "
             "construction, header merge, version validation, queue replay, "
             "connect, own VersionError checks) the Gfa's version, version "
             "guess, queue, header and registry are the same after the "
             "exception as before", floor=60)

    def mk_gfa(version, vlevel, queue):
        header = Abs(hdr, label="header", _log=[])
        return Abs(gfacls, label="gfa", _version=version,
                   _version_guess="gfa2" if version is None else version,
                   _version_explanation=None, _vlevel=vlevel,
                   _dialect="standard", _line_queue=list(queue),
                   _n_input_header_lines=0, _records={"H": header},
                   _log=[], _segments_first_order=False)

    class AH(GfaHooks):
        def __init__(self, repo, factory, script):
            super().__init__(repo, factory)
            self.script = script

        def construct(self, ev, cls, args, kwargs):
            if cls is self.Line:
                self.script.call("Line()", "gfapy.FormatError")
            return super().construct(ev, cls, args, kwargs)

        def before_inline(self, ev, func, args, kwargs):
            if func.name == "_merge":
                self.script.call("_merge", "gfapy.InconsistencyError")
                args[0].attrs["_log"].append(("merge", args[1].label))
                return args[0]
            if func.name == "connect":
                self.script.call("connect", "gfapy.NotUniqueError")
                args[1].attrs["_log"].append(("connect", args[0].label))
                return None
            if func.name == "process_line_queue":
                self.script.call("process_line_queue", "gfapy.FormatError")
                g = args[0]
                if g.attrs["_version"] is None:
                    g.attrs["_version"] = g.attrs["_version_guess"]
                g.attrs["_log"].append(("replay", len(g.attrs["_line_queue"])))
                g.attrs["_line_queue"] = []
                return None
            if func.name == "validate_positions":
                return None
            return NotImplemented

        def method(self, ev, base, name, args, kwargs, node):
            if name == "connect" and isinstance(base, Abs):
                self.script.call("connect", "gfapy.NotUniqueError")
                args[0].attrs["_log"].append(("connect", base.label))
                return None
            return super().method(ev, base, name, args, kwargs, node)

        def getattr(self, ev, base, attr):
            if isinstance(base, Abs) and base.label.startswith("line:"):
                if attr in ("record_type", "version", "VN", "name"):
                    return base.attrs.get(attr, base.attrs.get("_" + attr))
            if isinstance(base, Abs) and base.label == "gfa":
                if attr == "header":
                    return base.attrs["_records"]["H"]
                if attr == "version":
                    return base.attrs["_version"]
                if attr in ("edges", "fragments"):
                    return []
            return super().getattr(ev, base, attr)
    raisers = {"Line()": "gfapy.FormatError",
               "_merge": "gfapy.InconsistencyError",
               "connect": "gfapy.NotUniqueError",
               "process_line_queue": "gfapy.FormatError"}
    spec_cls = {"L": "line.edge.Link", "C": "line.edge.Containment",
                "P": "line.group.Path", "E": "line.edge.GFA2",
                "F": "line.Fragment", "G": "line.Gap",
                "O": "line.group.Ordered", "U": "line.group.Unordered",
                "H": "line.Header", "#": "line.Comment",
                "X": "line.CustomRecord"}
    for ver, fname in ((None, "__add_line_unknown_version"),
                       ("gfa1", "__add_line_GFA1"),
                       ("gfa2", "__add_line_GFA2")):
        f = ctx.anchor("Creators.%s" % fname, gfacls.find_method(fname))
        cells = []
        for rt in ["H", "S", "L", "C", "P", "E", "F", "G", "O", "U", "X", "#"]:
            if rt == "H":
                for vn in (None, "1.0", "2.0", "9.9"):
                    cells.append((rt, dict(VN=vn)))
            elif rt == "S":
                for lv in ("gfa1", "gfa2"):
                    cells.append((rt, dict(_version=lv)))
            else:
                cells.append((rt, {}))
        for (rt, extra), kind, vl in itertools.product(cells, ("text", "line"),
                                                       (0, 1)):
            if rt == "S":
                cname = "line.segment.GFA1" if extra["_version"] == "gfa1" \
                    else "line.segment.GFA2"
            else:
                cname = spec_cls[rt]
            lcls = repo.cls(cname)

            def factory(text, kwargs, lcls=lcls, rt=rt, extra=extra):
                attrs = dict(VN=None, _version="gfa2", name="n",
                             record_type=rt)
                attrs.update(extra)
                return Abs(lcls, label="line:%s" % rt, **attrs)

            def run_once(script, f=f, ver=ver, vl=vl, kind=kind, rt=rt,
                         factory=factory):
                g = mk_gfa(ver, vl, ["L\tqueued"] if ver is None else [])
                arg = (rt + "\tx") if kind == "text" else factory(None, {})
                before = snapshot([g])
                out = eval_function(repo, f, [g, arg],
                                    hooks=AH(repo, factory, script))
                return out, before, snapshot([g]), out[2]
            cell = "record=%s%s,input=%s,vlevel=%d" % (
                rt, "".join(",%s=%s" % kv for kv in sorted(extra.items())),
                kind, vl)
            judge(R, f, cell, enumerate_faults(run_once, raisers))
    flush()
    ctx.exhaustive[R] = True

    # ------------------------------------------------------------------
    R = "C08.reference_initialisation"
    ctx.rule(R, "_initialize_references of every record class with "
             "references: for every subset of the referenced names that is "
             "not yet defined and every single failure point (the connect of "
             "a placeholder refused because the name belongs to a line of "
             "another kind, the interval checks of an E line, ...) nothing "
             "has been written to the Gfa or to a registered line when the "
             "exception is raised", floor=25)
    ctx.assume("Gfa._segments_first_order is False: it is assigned only in "
               "Gfa.__init__ and no public API sets it")
    from .refgraph import RefHooks
    from ..tables import Unsupported
    S1 = repo.cls("line.segment.GFA1")
    S2 = repo.cls("line.segment.GFA2")
    OL = repo.cls("OrientedLine")
    LP = repo.cls("LastPos")

    def ol(name, o):
        return Abs(OL, label="%s%s" % (name, o), line=name, orient=o,
                   name=name)

    class IH(RefHooks):
        """lookups answer per name; placeholder registration and
        back-references are written into the abstract Gfa"""

        def __init__(self, repo, script, undefined):
            super().__init__(repo)
            self.script = script
            self.undefined = set(undefined)

        def key_of(self, key):
            if isinstance(key, Abs) and "name" in key.attrs:
                key = key.attrs["name"]
            if isinstance(key, Abs):
                key = key.label
            return key

        def method(self, ev, base, name, args, kwargs, node):
            if isinstance(base, Abs) and base.attrs.get("__gfa__"):
                if name in ("segment", "line"):
                    k = self.key_of(args[0])
                    store = base.attrs["objects"]
                    if k in self.undefined and ("placeholder", k) not in \
                            base.attrs["_log"]:
                        return None
                    if k not in store:
                        store[k] = Abs(base.attrs["default_cls"],
                                       label="obj:%s" % k, name=k, _backrefs=[])
                    return store[k]
                if name == "_search_link":
                    return None
                if name in ("_register_line", "_unregister_line"):
                    base.attrs["_log"].append((name, args[0].label))
                    return None
                if name == "add_line":
                    # the Unknown placeholder of a group item: created only
                    # when no line at all has the name, so it cannot clash
                    ln = args[0]
                    base.attrs["_log"].append(("placeholder",
                                               ln.attrs.get("name")))
                    base.attrs["objects"][ln.attrs.get("name")] = ln
                    return None
            if isinstance(base, Abs) and name == "connect":
                # a segment placeholder is created for a name that is not a
                # segment: the name may belong to a line of another kind
                # (NotUniqueError).  A virtual link has no name; its connect
                # can only fail through the placeholders of its own segments
                feasible = True
                if base.cls is not None and base.cls.name == "Link":
                    feasible = bool(self.undefined)
                if feasible:
                    self.script.call("connect", "gfapy.NotUniqueError")
                g = args[0]
                g.attrs["_log"].append(("placeholder", base.attrs.get("name")))
                g.attrs["objects"][base.attrs.get("name")] = base
                if base.cls is not None and base.cls.name == "Link":
                    # connecting the virtual link creates the placeholders
                    # of its undefined segments
                    for n in sorted(self.undefined):
                        if ("placeholder", n) not in g.attrs["_log"]:
                            g.attrs["_log"].append(("placeholder", n))
                            g.attrs["objects"][n] = Abs(
                                g.attrs["default_cls"], label="virtual:%s" % n,
                                name=n, _virtual=True, _backrefs=[])
                return None
            if isinstance(base, Abs) and name == "_add_reference":
                base.attrs.setdefault("_backrefs", []).append(
                    (args[1], args[0].label if isinstance(args[0], Abs)
                     else args[0]))
                return None
            return super().method(ev, base, name, args, kwargs, node)

        def construct(self, ev, cls, args, kwargs):
            r = super().construct(ev, cls, args, kwargs)
            if isinstance(r, Abs) and r.attrs.get("_virtual"):
                r.attrs["_backrefs"] = []
            return r

    def mk_refgfa(defcls):
        return Abs(None, label="gfa", __gfa__=True, default_cls=defcls,
                   _segments_first_order=False, objects={}, _log=[])
    raisers_ref = {"connect": "gfapy.NotUniqueError"}

    def drive(R, func, cellname, make, names):
        for k in range(len(names) + 1):
            for undefined in itertools.combinations(names, k):
                def run_once(script, undefined=undefined):
                    g, ln, hooks_cls = make()
                    for n in names:
                        if n not in undefined:
                            g.attrs["objects"][n] = Abs(
                                g.attrs["default_cls"], label="obj:%s" % n,
                                name=n, _backrefs=[])
                    before = snapshot([g])
                    h = (hooks_cls or IH)(repo, script, undefined)
                    out = eval_function(repo, func, [ln], hooks=h)
                    return out, before, snapshot([g]), out[2]
                judge(R, func, "%s,undefined=%s" % (
                    cellname, "+".join(undefined) or "none"),
                    enumerate_faults(run_once, raisers_ref))

    for clsname in ("line.edge.Link", "line.edge.Containment"):
        c = repo.cls(clsname)
        f = ctx.anchor(clsname + "._initialize_references",
                       c.find_method("_initialize_references"))
        for o1, o2 in (("+", "+"), ("-", "+")):
            def make(c=c, o1=o1, o2=o2):
                g = mk_refgfa(S1)
                return g, Abs(c, label="line", from_segment="a",
                              from_orient=o1, to_segment="b", to_orient=o2,
                              _gfa=g), None
            drive(R, f, "%s,orient=%s%s" % (c.name, o1, o2), make, ["a", "b"])
    E = repo.cls("line.edge.GFA2")
    f = ctx.anchor("edge.GFA2._initialize_references",
                   E.find_method("_initialize_references"))
    last = Abs(LP, label="7$", value=7)
    for (b1, e1, b2, e2) in ((0, 3, 3, last), (0, last, 0, last),
                             (3, 0, 0, 3), (0, 3, last, 3)):
        def make(b1=b1, e1=e1, b2=b2, e2=e2):
            g = mk_refgfa(S2)
            return g, Abs(E, label="line", sid1=ol("a", "+"),
                          sid2=ol("b", "+"), beg1=b1, end1=e1, beg2=b2,
                          end2=e2, _gfa=g), None
        drive(R, f, "edge.GFA2,interval=%s" % ",".join(
            x.label if isinstance(x, Abs) else str(x)
            for x in (b1, e1, b2, e2)), make, ["a", "b"])
    G = repo.cls("line.Gap")
    f = ctx.anchor("Gap._initialize_references",
                   G.find_method("_initialize_references"))

    def make():
        g = mk_refgfa(S2)
        return g, Abs(G, label="line", sid1=ol("a", "+"), sid2=ol("b", "-"),
                      _gfa=g), None
    drive(R, f, "Gap", make, ["a", "b"])
    F = repo.cls("line.Fragment")
    f = ctx.anchor("Fragment._initialize_references",
                   F.find_method("_initialize_references"))

    def make():
        g = mk_refgfa(S2)
        return g, Abs(F, label="line", sid="a", _gfa=g), None
    drive(R, f, "Fragment", make, ["a"])
    P = repo.cls("line.group.Path")
    f = ctx.anchor("Path._initialize_references",
                   P.find_method("_initialize_references"))

    class PH(IH):
        def before_inline(self, ev, func, args, kwargs):
            if func.name == "_compute_required_links":
                return [[ol("a", "+"), ol("b", "+"), "ov"]]
            return super().before_inline(ev, func, args, kwargs)

    def make():
        g = mk_refgfa(S1)
        return g, Abs(P, label="line", _gfa=g, _refs={},
                      segment_names=[ol("a", "+"), ol("b", "+")]), PH
    drive(R, f, "Path", make, ["a", "b"])
    for clsname in ("line.group.Ordered", "line.group.Unordered"):
        c = repo.cls(clsname)
        f = ctx.anchor(clsname + "._initialize_references",
                       c.find_method("_initialize_references"))

        def make(c=c):
            g = mk_refgfa(S2)
            items = [ol("a", "+"), ol("b", "+")] if c.name == "Ordered" \
                else ["a", "b"]
            return g, Abs(c, label="line", _gfa=g, items=items,
                          record_type="O" if c.name == "Ordered" else "U"), \
                None
        drive(R, f, c.name, make, ["a", "b"])

        # a group that lists its own identifier after other items (accepted
        # today; a refusal placed in the per-item loop would come after the
        # earlier items were filed)
        def make_self(c=c):
            g = mk_refgfa(S2)
            items = [ol("a", "+"), ol("grp", "+")] if c.name == "Ordered" \
                else ["a", "grp"]
            return g, Abs(c, label="line", _gfa=g, items=items, name="grp",
                          record_type="O" if c.name == "Ordered" else "U"), \
                None
        drive(R, f, c.name + ",lists itself", make_self, ["a", "grp"])
    flush()
    ctx.exhaustive[R] = True

    # ------------------------------------------------------------------
    R = "C08.substitution"
    ctx.rule(R, "VirtualToReal._substitute_virtual_line: the import of the "
             "placeholder's references (which initialises the references of "
             "the new line when the placeholder is an Unknown, and can "
             "refuse the line) happens before the placeholder is taken out "
             "of the registry and before the new line is put in", floor=1)
    from .refgraph import SeqHooks
    f_s = ctx.anchor("Line._substitute_virtual_line",
                     Line.find_method("_substitute_virtual_line"))
    E2 = repo.cls("line.edge.GFA2")

    class SH(LineHooks):
        def __init__(self, repo, script):
            super().__init__(repo)
            self.script = script

        def before_inline(self, ev, func, args, kwargs):
            if func.name == "_import_references":
                self.script.call("_import_references", "gfapy.ValueError")
                return None
            return NotImplemented

        def method(self, ev, base, name, args, kwargs, node):
            if isinstance(base, Abs) and base.label == "gfa":
                if name == "_unregister_line":
                    base.attrs["registry"].remove(args[0].label)
                    return None
                if name == "_register_line":
                    base.attrs["registry"].append(args[0].label)
                    return None
            return super().method(ev, base, name, args, kwargs, node)

    def run_once(script):
        g = Abs(gfacls, label="gfa", registry=["prev"])
        prev = Abs(E2, label="prev", _gfa=g, gfa=g, _virtual=True)
        ln = Abs(E2, label="line", _gfa=None)
        before = snapshot([g])
        out = eval_function(repo, f_s, [ln, prev], hooks=SH(repo, script))
        return out, before, snapshot([g]), out[2]
    judge(R, f_s, "placeholder", enumerate_faults(
        run_once, {"_import_references": "gfapy.ValueError"}))
    flush()
    ctx.exhaustive[R] = True

    # ------------------------------------------------------------------
    R = "C08.group_merge"
    ctx.rule(R, "SameID._process_not_unique: a second U/O line with the "
             "identifier of a previous one is refused (tag defined "
             "differently, or previous line of another record type) before "
             "the previous definition is replaced or any item or tag is "
             "merged", floor=4)
    U = repo.cls("line.group.Unordered")
    f_p = ctx.anchor("Unordered._process_not_unique",
                     U.find_method("_process_not_unique"))

    class MH(LineHooks):
        def before_inline(self, ev, func, args, kwargs):
            if func.name == "_initialize_references":
                return None
            if func.name == "_substitute_virtual_line":
                g = args[1].attrs["_gfa"]
                g.attrs["registry"].remove(args[1].label)
                g.attrs["registry"].append(args[0].label)
                args[0].attrs["_gfa"] = g
                return None
            if func.name == "_set_existing_field":
                args[0].attrs["_data"][args[1]] = args[2]
                return None
            if func.name == "set":
                args[0].attrs["_data"][args[1]] = args[2]
                return None
            if func.name == "set_datatype":
                args[0].attrs.setdefault("_datatype", {})[args[1]] = args[2]
                return None
            if func.name == "get_datatype":
                return args[0].attrs.get("_datatype", {}).get(args[1], "i")
            return NotImplemented

        def method(self, ev, base, name, args, kwargs, node):
            if isinstance(base, Abs) and name == "get" and \
                    "_data" in base.attrs:
                return base.attrs["_data"].get(args[0])
            return super().method(ev, base, name, args, kwargs, node)

        def getattr(self, ev, base, attr):
            if isinstance(base, Abs) and attr == "tagnames" and \
                    "_data" in base.attrs:
                return [k for k in base.attrs["_data"] if k != "items"]
            if isinstance(base, Abs) and attr in ("gfa",):
                return base.attrs.get("_gfa")
            return super().getattr(ev, base, attr)
    for prev_rt, prev_tags, new_tags in itertools.product(
            ("U", "O", "S"), ({"xx": 1}, {"xx": 0}, {}),
            ({"xx": 2}, {"xx": 1}, {"yy": 3}, {}, {"xx": 0}, {"xx": ""})):
        ctx.instance(R)
        g = Abs(gfacls, label="gfa", registry=["prev"])
        pd = dict(prev_tags)
        pd["items"] = ["a"]
        nd = dict(new_tags)
        nd["items"] = ["b"]
        prev = Abs({"U": U, "O": repo.cls("line.group.Ordered"),
                    "S": repo.cls("line.segment.GFA2")}[prev_rt],
                   label="prev", _gfa=g, record_type=prev_rt, _data=pd,
                   name="g1", _virtual=False)
        ln = Abs(U, label="line", _gfa=None, record_type="U", _data=nd,
                 name="g1")
        before = snapshot([g, prev])
        out = eval_function(repo, f_p, [ln, prev], hooks=MH(repo))
        after = snapshot([g, prev])
        cell = "previous=%s,previous_tags=%s,new_tags=%s" % (
            prev_rt, sorted(prev_tags.items()), sorted(new_tags.items()))
        conflict = prev_rt != "U" or (
            "xx" in prev_tags and "xx" in new_tags and
            prev_tags["xx"] != new_tags["xx"])
        # (whether a tag holding 0 or an empty string counts as defined is
        # not decided here: only that a refusal comes before any change)
        falsy = any(not v for v in list(prev_tags.values()) +
                    list(new_tags.values()))
        ok = ((out[0] == "raise") == conflict or
              (falsy and prev_rt == "U")) and (
            out[0] != "raise" or before == after)
        ctx.oblige(ok)
        if not ok:
            ctx.violation(R, f_p.short, cell,
                          "outcome %r; state change on failure: %s" % (
                              out[0:2], diff(before, after)))
    ctx.exhaustive[R] = True

    # ------------------------------------------------------------------
    R = "C08.field_edit"
    ctx.rule(R, "FieldData._set_existing_field on a connected line, for "
             "every kind of field (reference field, name, other), vlevel and "
             "single failure point (duplicate name, level-3 validation): "
             "when it raises the line is still registered under its old name "
             "and its data are unchanged", floor=4)
    f_sef = ctx.anchor("Line._set_existing_field",
                       Line.find_method("_set_existing_field"))
    SEG = repo.cls("line.segment.GFA2")

    class FH(LineHooks):
        def __init__(self, repo, script, other):
            super().__init__(repo)
            self.script = script
            self.other = other

        def before_inline(self, ev, func, args, kwargs):
            if func.name == "_validate_gfa_field":
                self.script.call("_validate_gfa_field", "gfapy.FormatError")
                self.validated = True
                return None
            if func.name in ("_field_or_default_datatype", "_field_datatype"):
                return "Z"
            if func.name == "_set_existing_field" and args[0].label != "line":
                return NotImplemented
            return NotImplemented
        validated = False

        def method(self, ev, base, name, args, kwargs, node):
            if isinstance(base, Abs) and base.label == "gfa":
                if name == "line":
                    return self.other if args[0] == "taken" else None
                if name == "_unregister_line":
                    base.attrs["registry"].remove(args[0].label)
                    return None
                if name == "_register_line":
                    ln = args[0]
                    # the registry reads the identifier of the line: a value
                    # given as text is parsed then, with the validating
                    # decoder at vlevel >= 1 -- unless it was validated
                    nm = ln.attrs["_data"].get("sid")
                    if ln.attrs["vlevel"] >= 1 and isinstance(nm, str) and \
                            nm != "old" and not self.validated:
                        self.script.call("parse-name-on-register",
                                         "gfapy.FormatError")
                    base.attrs["registry"].append(ln.label)
                    return None
            if isinstance(base, Abs) and name == "_set_existing_field":
                return NotImplemented
            return NotImplemented
    # the validation level of a line is its own: a line built at one level
    # may sit in a Gfa of another (Line instances added to Gfa(vlevel=0),
    # gfa.vlevel assigned later), so both are cells
    for field, value, (vl, gvl) in itertools.product(
            ("sid", "slen", "xx"), ("new", "taken", None),
            ((0, 0), (1, 1), (2, 2), (3, 3), (1, 0), (3, 0), (0, 3))):
        def run_once(script, field=field, value=value, vl=vl, gvl=gvl):
            g = Abs(gfacls, label="gfa", registry=["line", "other"],
                    vlevel=gvl)
            other = Abs(SEG, label="other", _gfa=g, _virtual=False,
                        virtual=False)
            ln = Abs(SEG, label="line", _gfa=g, vlevel=vl,
                     _data={"sid": "old", "slen": 1, "xx": "v"},
                     _datatype={})
            before = snapshot([g, ln])
            out = eval_function(repo, f_sef, [ln, field, value],
                                hooks=FH(repo, script, other))
            return out, before, snapshot([g, ln]), out[2]
        judge(R, f_sef, "field=%s,value=%s,vlevel=%d,gfa.vlevel=%d" % (
                  field, value, vl, gvl),
              enumerate_faults(run_once,
                               {"_validate_gfa_field": "gfapy.FormatError",
                                "parse-name-on-register":
                                    "gfapy.FormatError"}))
    flush()
    ctx.exhaustive[R] = True

    # ------------------------------------------------------------------
    R = "C08.header_merge"
    ctx.rule(R, "Multiline._merge / Multiline.add: when a tag of the header "
             "line being merged is refused (inconsistent single-definition "
             "tag, datatype mismatch at vlevel >= 2) no earlier tag of that "
             "line has been merged and no value has been converted to a "
             "FieldArray", floor=8)
    f_merge = ctx.anchor("Header._merge", hdr.find_method("_merge"))
    f_add = ctx.anchor("Header.add", hdr.find_method("add"))
    FA = repo.cls("FieldArray")

    class AH2(LineHooks):
        def before_inline(self, ev, func, args, kwargs):
            if func.name == "_validate_gfa_field":
                return None
            if func.name == "get_datatype":
                dt = args[0].attrs.get("_datatype", {}).get(args[1])
                if dt:
                    return dt
                v = args[0].attrs["_data"].get(args[1])
                if isinstance(v, Abs) and v.cls is FA:
                    return v.attrs["datatype"]
                return "Z" if isinstance(v, str) else "i"
            if func.name == "set_datatype":
                args[0].attrs.setdefault("_datatype", {})[args[1]] = args[2]
                return None
            if func.name in ("_set_existing_field", "set"):
                args[0].attrs["_data"][args[1]] = args[2]
                return None
            if func.name == "field_to_s":
                return str(args[0].attrs["_data"][args[1]])
            if func.name == "_to_gfa_field":
                return str(args[0])
            return NotImplemented

        def getattr(self, ev, base, attr):
            if isinstance(base, Abs) and attr == "tagnames" and \
                    "_data" in base.attrs:
                return list(base.attrs["_data"])
            return super().getattr(ev, base, attr)

        def construct(self, ev, cls, args, kwargs):
            if cls is FA:
                return Abs(FA, label="new-array", _datatype=args[0],
                           datatype=args[0], _data=list(args[1]))
            return super().construct(ev, cls, args, kwargs)

        def method(self, ev, base, name, args, kwargs, node):
            if isinstance(base, Abs) and base.cls is FA and name == "append":
                base.attrs["_data"].append(args[0])
                return None
            if isinstance(base, Abs) and name in ("_set_existing_field",
                                                  "set"):
                base.attrs["_data"][args[0]] = args[1]
                return None
            return super().method(ev, base, name, args, kwargs, node)
    # a header line with three tags, the middle one in conflict with what
    # the header holds (single-definition tag / datatype at vlevel >= 2)
    for vl, (have, dts), (new, ndts) in itertools.product(
            (0, 2),
            (({"TS": 1}, {"TS": "i"}), ({"yy": 1}, {"yy": "i"})),
            (({"xx": 5, "TS": 2, "zz": 6}, {"xx": "i", "TS": "i", "zz": "i"}),
             ({"xx": 5, "yy": "s", "zz": 6}, {"xx": "i", "yy": "Z",
                                              "zz": "i"}),
             ({"xx": 5, "zz": 6}, {"xx": "i", "zz": "i"}))):
        h = Abs(hdr, label="header", _data=dict(have), _datatype=dict(dts),
                vlevel=vl)
        ln = Abs(hdr, label="line:H", _data=dict(new), _datatype=dict(ndts),
                 vlevel=vl)
        before = snapshot([h])
        out = eval_function(repo, f_merge, [h, ln], hooks=AH2(repo))
        cell = "vlevel=%d,header=%s,line=%s" % (vl, sorted(have), sorted(new))
        judge(R, f_merge, cell, [(None, (out, before, snapshot([h]),
                                         out[2]))])
        ctx.instance(R)
        ctx.oblige(True)
    # a tag the header does not have yet is added with set_datatype + set:
    # set_datatype (interpreted, not stubbed) refuses a predefined tag
    # declared with another datatype, and must do so before any earlier tag
    # of the line was merged
    class RealDatatype(AH2):
        def before_inline(self, ev, func, args, kwargs):
            if func.name in ("set_datatype", "get_datatype",
                             "_check_datatype_settable"):
                return NotImplemented
            if func.name == "_field_or_default_datatype":
                a = args[0]
                t = a.attrs.get("_datatype", {}).get(args[1])
                if t is None:
                    t = {"VN": "Z", "TS": "i"}.get(args[1])
                return t or ("Z" if isinstance(args[2], str) else "i")
            if func.name == "_is_predefined_tag":
                return args[1] in ("VN", "TS")
            if func.name == "_is_valid_custom_tagname":
                return True
            return super().before_inline(ev, func, args, kwargs)
    for vl in (0, 1, 2):
        h = Abs(hdr, label="header", _data={"aa": 0}, _datatype={"aa": "i"},
                vlevel=vl)
        ln = Abs(hdr, label="line:H", _data={"bb": "x", "TS": "abc"},
                 _datatype={"bb": "Z", "TS": "Z"}, vlevel=0)
        before = snapshot([h])
        out = eval_function(repo, f_merge, [h, ln], hooks=RealDatatype(repo))
        judge(R, f_merge, "vlevel=%d,line declares the predefined tag TS as "
              "Z after a new tag" % vl,
              [(None, (out, before, snapshot([h]), out[2]))])
        ctx.instance(R)
        ok = out[0] == "raise"
        ctx.oblige(ok)
        if not ok:
            ctx.violation(R, f_merge.short, "vlevel=%d,TS declared Z" % vl,
                          "outcome %r: the predefined tag TS (datatype i) "
                          "cannot be declared Z" % (out[0:2],))
    # at vlevel 0 the tags of the incoming line are decoded when first read:
    # the first get() of each tag can refuse the line (malformed J/B/H)
    class LazyGet(AH2):
        def __init__(self, repo, script):
            super().__init__(repo)
            self.script = script
            self.decoded = set()

        def method(self, ev, base, name, args, kwargs, node):
            if name == "get" and isinstance(base, Abs) and \
                    base.label == "line:H" and args and \
                    args[0] not in self.decoded:
                self.script.call("get:" + args[0], "gfapy.FormatError")
                self.decoded.add(args[0])
            return super().method(ev, base, name, args, kwargs, node)

    def run_once(script):
        h = Abs(hdr, label="header", _data={"aa": 0}, _datatype={"aa": "i"},
                vlevel=0)
        ln = Abs(hdr, label="line:H", _data={"xx": 1, "yy": 2, "zz": 3},
                 _datatype={"xx": "i", "yy": "J", "zz": "i"}, vlevel=0)
        before = snapshot([h])
        out = eval_function(repo, f_merge, [h, ln],
                            hooks=LazyGet(repo, script))
        return out, before, snapshot([h]), out[2]
    judge(R, f_merge, "vlevel=0,lazy decoding of the incoming tags",
          enumerate_faults(run_once, {
              "get:xx": "gfapy.FormatError", "get:yy": "gfapy.FormatError",
              "get:zz": "gfapy.FormatError"}))
    for vl, prevkind, dt_arg in itertools.product(
            [0, 2], ["array", "scalar"], ["i", "Z"]):
        arr = Abs(FA, label="array", _datatype="i", datatype="i",
                  _data=[1, 2])
        data = {"xx": arr if prevkind == "array" else 1}
        h = Abs(hdr, label="header", vlevel=vl, _data=data, _datatype={})
        before = snapshot([h])
        out = eval_function(repo, f_add, [h, "xx", 9, dt_arg],
                            hooks=AH2(repo))
        judge(R, f_add, "vlevel=%d,previous=%s,datatype_arg=%s" % (
            vl, prevkind, dt_arg), [(None, (out, before, snapshot([h]),
                                            out[2]))])
    flush()
    ctx.exhaustive[R] = True

    # ------------------------------------------------------------------
    R = "C08.queue_replay"
    ctx.rule(R, "Creators.process_line_queue: when the replay of a queued "
             "line is refused, the version, the queue and the lines already "
             "replayed are as before the call", floor=2)
    f_q = ctx.anchor("Creators.process_line_queue",
                     gfacls.find_method("process_line_queue"))

    class QH(LineHooks):
        def __init__(self, repo, script):
            super().__init__(repo)
            self.script = script

        def before_inline(self, ev, func, args, kwargs):
            if func.name == "add_line":
                self.script.call("add_line", "gfapy.FormatError")
                args[0].attrs["_log"].append(("added", args[1]))
                return None
            return NotImplemented

    def run_once(script):
        g = Abs(gfacls, label="gfa", _version=None, _version_guess="gfa1",
                _line_queue=["L1", "L2", "L3"], _log=[])
        before = snapshot([g])
        out = eval_function(repo, f_q, [g], hooks=QH(repo, script))
        return out, before, snapshot([g]), out[2]
    judge(R, f_q, "three-queued", enumerate_faults(
        run_once, {"add_line": "gfapy.FormatError"}))
    flush()
    ctx.exhaustive[R] = True

    # ------------------------------------------------------------------
    R = "C08.connect"
    ctx.rule(R, "Connection.connect: the duplicate search and the "
             "initialisation of the references (both can refuse the line) "
             "come before the line is put into the registry; a real "
             "duplicate is refused by the default _process_not_unique "
             "without any write to the Gfa", floor=2)
    f_c = ctx.anchor("Line.connect", Line.find_method("connect"))
    f_pnu = ctx.anchor("Connection._process_not_unique", repo.cls(
        "line.common.connection.Connection").find_method(
            "_process_not_unique"))

    class CH(LineHooks):
        def __init__(self, repo, script, previous):
            super().__init__(repo)
            self.script = script
            self.previous = previous

        def before_inline(self, ev, func, args, kwargs):
            if func.name == "_initialize_references":
                self.script.call("_initialize_references",
                                 "gfapy.ValueError")
                return None
            if func.name == "_substitute_virtual_line":
                self.script.call("_substitute_virtual_line",
                                 "gfapy.ValueError")
                g = args[1].attrs["_gfa"]
                g.attrs["registry"].remove(args[1].label)
                g.attrs["registry"].append(args[0].label)
                return None
            if func.name == "_process_not_unique" and func is not f_pnu:
                return ev.inline(f_pnu, args, kwargs)
            return NotImplemented

        def method(self, ev, base, name, args, kwargs, node):
            if isinstance(base, Abs) and base.label == "gfa":
                if name == "_search_duplicate":
                    return self.previous
                if name == "_register_line":
                    base.attrs["registry"].append(args[0].label)
                    return None
            if name == "connect":
                return NotImplemented
            return super().method(ev, base, name, args, kwargs, node)

        def to_str(self, ev, v):
            return "<%s>" % v.label
    for pk in ("none", "virtual", "real"):
        def run_once(script, pk=pk):
            g = Abs(gfacls, label="gfa", registry=["prev"])
            prev = None
            if pk != "none":
                prev = Abs(E2, label="prev", _gfa=g, gfa=g,
                           _virtual=(pk == "virtual"),
                           virtual=(pk == "virtual"))
            ln = Abs(E2, label="line", _gfa=None)
            before = snapshot([g])
            out = eval_function(repo, f_c, [ln, g],
                                hooks=CH(repo, script, prev))
            return out, before, snapshot([g]), out[2]
        judge(R, f_c, "previous=%s" % pk, enumerate_faults(
            run_once, {"_initialize_references": "gfapy.ValueError",
                       "_substitute_virtual_line": "gfapy.ValueError"}))
    flush()
    ctx.exhaustive[R] = True


    # ------------------------------------------------------------------
    R = "C08.no_raising_generators"
    ctx.rule(R, "no generator function of the line / Gfa classes raises a "
             "library error: a generator consumed by a loop that writes to "
             "the Gfa (reference initialisation) interleaves its checks with "
             "the writes, so a refusal arrives after earlier iterations "
             "committed", floor=150)
    n_gen = 0
    # the functions a mutation can run: everything the mutation entry points
    # reach in the resolved call graph (reading a file, which adds its lines
    # one call at a time, is not one mutation)
    from .effects_common import program
    from ..model import FuncInfo, walk_no_nested, record_classes
    prog = program(repo)
    line_cls = repo.cls("Line")
    hdr_cls = repo.cls("line.Header")
    roots = [gfacls.find_method(n) for n in (
        "add_line", "rm", "process_line_queue", "_register_line",
        "_unregister_line")] + \
        [line_cls.find_method(n) for n in (
            "connect", "disconnect", "set", "delete", "set_datatype",
            "_set_existing_field")] + \
        [hdr_cls.find_method(n) for n in ("add", "_merge")]
    for c in record_classes(repo):
        roots.append(c.find_method("_initialize_references"))
        roots.append(c.find_method("_process_not_unique"))
    if any(r is None for r in roots[:13]):
        raise AnalysisError("anchor vanished: a mutation entry point")
    reach, stack = set(), [r for r in roots if r is not None]
    while stack:
        g = stack.pop()
        if g in reach:
            continue
        reach.add(g)
        for site in prog.sites.get(g, ()):
            for c in site.callees:
                if isinstance(c, FuncInfo):
                    stack.append(c)
        stack.extend(g.nested.values())
    for f in sorted(reach, key=lambda f: f.qualname):
        m = f.module.name
        # (the generators of the value classes and field modules feed
        # constructors, not loops over the Gfa)
        if not (m.startswith("gfapy.line.") or m.startswith("gfapy.lines.")
                or m == "gfapy.gfa"):
            continue
        ctx.instance(R)
        is_gen = any(isinstance(n, (ast.Yield, ast.YieldFrom))
                     for n in walk_no_nested(f.node))
        raises = [n for n in walk_no_nested(f.node)
                  if isinstance(n, ast.Raise) and n.exc is not None and
                  "AssertionError" not in unparse(n.exc)]
        ok = not (is_gen and raises)
        n_gen += is_gen
        ctx.oblige(ok)
        if not ok:
            ctx.violation(R, f.short, "yield + raise",
                          "generator that can raise (%s): its callers run "
                          "the loop body between the checks" %
                          unparse(raises[0].exc)[:50])
    ctx.notes["generator_functions_in_scope"] = n_gen
    ctx.exhaustive[R] = True


    # ------------------------------------------------------------------
    R = "C08.registration_cannot_fail"
    ctx.rule(R, "Creators._register_line, the last step of connect, of the "
             "placeholder substitution and of a rename (all of which have "
             "already changed the Gfa when they reach it), raises nothing "
             "itself", floor=1)
    f_reg = ctx.anchor("Gfa._register_line",
                       gfacls.find_method("_register_line"))
    from ..model import walk_no_nested
    ctx.instance(R)
    raises = [n for n in walk_no_nested(f_reg.node)
              if isinstance(n, ast.Raise) and n.exc is not None and
              "AssertionError" not in unparse(n.exc)]
    ok = not raises
    ctx.oblige(ok)
    if not ok:
        ctx.violation(R, f_reg.short, "raise",
                      "the registry insertion can refuse the line (%s) after "
                      "its callers have written to the Gfa" %
                      unparse(raises[0].exc)[:60])
    ctx.exhaustive[R] = True
