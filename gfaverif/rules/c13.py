"""C13 -- the GFA version is inferred from content and enforced consistently.

Decided clauses (TABLE over the finite domain of record types x versions x VN
values x validation levels): the tables that encode "which record belongs to
which version" agree with each other and with the specification; each branch of
the version decision assigns the right version and replays the queue; the GFA1
and GFA2 admission functions are mirror images; the queue of version-ambiguous
lines is appended to only while the version is unknown, replayed once, in
order, after the version is fixed, and cleared.
Not decided: which concrete mixed documents are rejected, order independence
on concrete documents.
"""
import ast
import itertools
import re as _re

from .. import spec
from ..model import (AnalysisError, ClassInfo, FuncInfo, External,
                     record_classes, record_table, class_const, unparse,
                     walk_no_nested)
from ..tables import Abs, Evaluator, Unsupported, eval_function
from ..linehooks import LineHooks
from .common import is_library_error

LETTERS = ["H", "S", "#", "L", "C", "P", "E", "F", "G", "O", "U"]


class GfaHooks(LineHooks):
    """Models the collaborators of the Creators mixin."""

    def __init__(self, repo, line_factory=None):
        super().__init__(repo)
        self.line_factory = line_factory
        self.Line = repo.cls("Line")

    def construct(self, ev, cls, args, kwargs):
        if cls is self.Line:
            ev.events.append(("construct", args[0] if args else None,
                              dict(kwargs)))
            if self.line_factory is None:
                raise Unsupported("no line factory")
            return self.line_factory(args[0], kwargs)
        return super().construct(ev, cls, args, kwargs)

    def before_inline(self, ev, func, args, kwargs):
        if func.name in ("_merge",):
            ev.events.append(("merge", args[0].label if isinstance(
                args[0], Abs) else args[0], args[1].label))
            return args[0]
        if func.name == "connect":
            ev.events.append(("connect", args[0].label))
            return None
        if func.name in self.stubs:
            ev.events.append((func.name,) + tuple(
                a.label if isinstance(a, Abs) else a for a in args[1:]))
            return None
        return NotImplemented

    stubs = ()

    def function(self, ev, node, args, kwargs):
        ent = ev.resolve(node.func)
        if isinstance(ent, External) and ent.name in ("re.search", "re.match") \
                and len(args) >= 2 and all(isinstance(a, str) for a in args[:2]):
            return getattr(_re, ent.name.split(".")[1])(args[0], args[1])
        if isinstance(node.func, ast.Name) and node.func.id == "type":
            return "<type>"
        return NotImplemented

    def to_str(self, ev, v):
        return "<%s>" % v.label


def run(ctx):
    repo = ctx.repo
    gfacls = repo.cls("Gfa")
    Line = repo.cls("Line")
    hooks = GfaHooks(repo)
    recs = {record_table(repo, c).RECORD_TYPE: c for c in record_classes(repo)
            if record_table(repo, c).RECORD_TYPE not in ("S", None)}
    seg1 = repo.cls("line.segment.GFA1")
    seg2 = repo.cls("line.segment.GFA2")
    custom = repo.cls("line.CustomRecord")
    ctx.assume("Line.EXTENSIONS is empty (no user-registered record types)")

    # ------------------------------------------------------------------
    R = "C13.version_tables"
    ctx.rule(R, "RECORD_TYPE_VERSIONS, gfapy.VERSIONS, Lines.GFA1Specific/"
             "GFA2Specific, Collections.GFA1_ONLY_KEYS and the three "
             "_subclass_* dispatch functions agree with the specification: "
             "L,C,P are GFA1 only; E,F,G,O,U (and the unknown-record "
             "placeholder) GFA2 only; H,# generic; S in both with different "
             "syntax; each dispatch target has the dispatched record type",
             floor=40)
    cons = repo.cls("line.common.construction.Construction")
    rtv = class_const(repo, cons, ctx.anchor("RECORD_TYPE_VERSIONS",
                                             cons.attrs.get(
                                                 "RECORD_TYPE_VERSIONS")))
    checks = [
        ("specific.gfa1", set(rtv["specific"]["gfa1"]), set(spec.GFA1_ONLY)),
        ("specific.gfa2", set(rtv["specific"]["gfa2"]) - {"\n"},
         set(spec.GFA2_ONLY)),
        ("generic", set(rtv["generic"]), set(spec.GENERIC)),
        ("different", set(rtv["different"]), set(spec.BOTH_DIFFERENT)),
    ]
    versions = repo.module_attr("gfapy", "VERSIONS")
    from ..model import module_const
    vlist = module_const(repo, versions.module, versions.node)
    checks.append(("gfapy.VERSIONS", set(vlist), {"gfa1", "gfa2"}))
    coll = repo.cls("lines.collections.Collections")
    checks.append(("GFA1_ONLY_KEYS",
                   set(class_const(repo, coll, coll.attrs["GFA1_ONLY_KEYS"])),
                   set(spec.GFA1_ONLY)))
    for name, got, want in checks:
        ctx.instance(R)
        ok = got == want
        ctx.oblige(ok)
        if not ok:
            ctx.violation(R, "table " + name, name,
                          "is %s, the specification says %s" %
                          (sorted(got), sorted(want)))
    lines = repo.cls("Lines")
    ev = Evaluator(repo, lines.module)
    for name, want_rts, segc in (("GFA1Specific", spec.GFA1_ONLY, seg1),
                                 ("GFA2Specific", spec.GFA2_ONLY, seg2)):
        ctx.instance(R)
        lst = ev.ev(ctx.anchor("Lines.%s" % name, lines.attrs.get(name)))
        got = set(lst)
        want = {recs[rt] for rt in want_rts} | {segc}
        if name == "GFA2Specific":
            want |= {custom, repo.cls("line.Unknown")}
        ok = got == want
        ctx.oblige(ok)
        if not ok:
            ctx.violation(R, "lines.lines.Lines." + name, name,
                          "lists %s, expected %s" % (
                              sorted(c.short for c in got),
                              sorted(c.short for c in want)))
    # dispatch functions
    f1 = ctx.anchor("_subclass_GFA1", Line.find_method("_subclass_GFA1"))
    f2 = ctx.anchor("_subclass_GFA2", Line.find_method("_subclass_GFA2"))
    fu = ctx.anchor("_subclass_unknown_version",
                    Line.find_method("_subclass_unknown_version"))
    fs = ctx.anchor("Segment._subclass",
                    repo.cls("line.Segment").find_method("_subclass"))
    for rt in LETTERS + ["X", "\n"]:
        # GFA1
        ctx.instance(R)
        out = eval_function(repo, f1, [rt], hooks=hooks)
        if rt in spec.GFA2_ONLY + ["X", "\n"]:
            ok = out[0] == "raise" and str(out[1]).endswith("VersionError")
            msg = "GFA1 must refuse record type %r with VersionError" % rt
        elif rt == "S":
            ok = out[0] == "return" and out[1] is seg1
            msg = "S in GFA1 must be a GFA1 segment"
        else:
            ok = out[0] == "return" and out[1] is recs.get(rt)
            msg = "dispatches %r to %r" % (rt, out[1])
        ctx.oblige(ok)
        if not ok:
            ctx.violation(R, f1.short, "record_type=%r" % rt, msg)
        # GFA2
        ctx.instance(R)
        out = eval_function(repo, f2, [rt], hooks=hooks)
        if rt in spec.GFA1_ONLY + ["X", "\n"]:
            ok = out[0] == "return" and out[1] is custom
            msg = "GFA2 must treat %r as a custom record (found %r)" % (
                rt, out[1])
        elif rt == "S":
            ok = out[0] == "return" and out[1] is seg2
            msg = "S in GFA2 must be a GFA2 segment"
        else:
            ok = out[0] == "return" and out[1] is recs.get(rt)
            msg = "dispatches %r to %r" % (rt, out[1])
        ctx.oblige(ok)
        if not ok:
            ctx.violation(R, f2.short, "record_type=%r" % rt, msg)
        # unknown
        if rt == "S":
            continue
        ctx.instance(R)
        out = eval_function(repo, fu, [[rt, "x"]], hooks=hooks)
        want = recs.get(rt, custom) if rt not in ("X", "\n") else custom
        ok = out[0] == "return" and out[1] is want
        ctx.oblige(ok)
        if not ok:
            ctx.violation(R, fu.short, "record_type=%r" % rt,
                          "dispatches to %r, expected %s" % (out[1], want.short))
    # custom records refuse P, C, L
    f_dp = ctx.anchor("CustomRecord._delayed_initialize_positional_fields",
                      custom.find_method(
                          "_delayed_initialize_positional_fields"))
    class CRH(GfaHooks):
        def before_inline(self, ev, func, args, kwargs):
            if func.name == "_init_field_value":
                args[0].attrs["_data"][args[1]] = args[3]
                return None
            return super().before_inline(ev, func, args, kwargs)
    for rt, vl in itertools.product(spec.GFA1_ONLY, (0, 1)):
        # at every validation level: this is the only thing that keeps a
        # GFA1 line given as text out of a GFA2 document
        ctx.instance(R)
        cr = Abs(custom, label="custom", vlevel=vl, _data={}, _datatype={},
                 _positional_fieldnames=[], _version="gfa2", _virtual=False)
        out = eval_function(repo, f_dp, [cr, [rt, "x"], 2], hooks=CRH(repo))
        ok = out[0] == "raise" and str(out[1]).endswith("VersionError")
        ctx.oblige(ok)
        if not ok:
            ctx.violation(R, f_dp.short, "record_type=%r,vlevel=%d" % (rt, vl),
                          "a GFA1-only record type used in GFA2 is not refused "
                          "with VersionError (%r)" % (out[1],))
    # segment syntax sniffing
    for data, want in ((["S", "a", "*"], seg1), (["S", "a", "10", "*"], seg2),
                       (["S", "a", "*", "LN:i:3", "xx:Z:a"], seg1),
                       (["S", "a", "10", "*", "xx:Z:a"], seg2),
                       (["S", "a"], None), (["S", "a", "b", "c", "d"], None)):
        for f, args in ((fs, [data]), (fu, [data])):
            ctx.instance(R)
            out = eval_function(repo, f, args, hooks=hooks)
            if want is None:
                ok = out[0] == "raise" and is_library_error(
                    repo, fs.module, out[1])
            else:
                ok = out[0] == "return" and out[1] is want
            ctx.oblige(ok)
            if not ok:
                ctx.violation(R, f.short, "segment=%r" % (data,),
                              "gives %r, expected %s" % (
                                  out[1], want.short if want else
                                  "a library error"))
    segment_tag_scan_cells(ctx, R, hooks)
    # len(POSFIELDS) of the two segment classes is what the sniffing assumes
    ctx.instance(R)
    ok = len(record_table(repo, seg1).POSFIELDS) == 2 and \
        len(record_table(repo, seg2).POSFIELDS) == 3
    ctx.oblige(ok)
    if not ok:
        ctx.violation(R, "segment classes", "POSFIELDS",
                      "GFA1/GFA2 segments no longer have 2/3 positional fields")
    ctx.exhaustive[R] = True

    # ------------------------------------------------------------------
    R = "C13.line_version"
    ctx.rule(R, "Line._validate_version raises VersionError exactly for an "
             "unknown version or a record type specific to the other version; "
             "_compute_version gives generic for H/#, the class version for S, "
             "the specific version for the other predefined types, gfa2 for "
             "anything else", floor=30)
    f_vv = ctx.anchor("Line._validate_version",
                      Line.find_method("_validate_version"))
    f_cv = ctx.anchor("Line._compute_version",
                      Line.find_method("_compute_version"))
    for c in record_classes(repo):
        t = record_table(repo, c)
        rt = t.RECORD_TYPE
        for v in ("gfa1", "gfa2", "gfa3"):
            ctx.instance(R)
            ln = Abs(c, label="line", _version=v)
            out = eval_function(repo, f_vv, [ln], hooks=hooks)
            bad = v not in ("gfa1", "gfa2") or \
                (rt in spec.GFA1_ONLY and v != "gfa1") or \
                (rt in spec.GFA2_ONLY + ["\n"] and v != "gfa2")
            if bad:
                ok = out[0] == "raise" and str(out[1]).endswith("VersionError")
            else:
                ok = out[0] == "return"
            ctx.oblige(ok)
            if not ok:
                ctx.violation(R, f_vv.short,
                              "class=%s,version=%s" % (c.name, v),
                              "%s (%r)" % ("not refused" if bad else
                                           "refused", out[1]))
        if rt is None:
            continue
        ctx.instance(R)
        ln = Abs(c, label="line", _version=None)
        out = eval_function(repo, f_cv, [ln, rt], hooks=hooks)
        want = "generic" if rt in spec.GENERIC else \
            (t.VERSION if rt == "S" else
             ("gfa1" if rt in spec.GFA1_ONLY else "gfa2"))
        ok = out[0] == "return" and ln.attrs["_version"] == want
        ctx.oblige(ok)
        if not ok:
            ctx.violation(R, f_cv.short, "class=%s" % c.name,
                          "computed version %r, expected %s" %
                          (ln.attrs["_version"], want))
    ctx.exhaustive[R] = True

    # ------------------------------------------------------------------
    def mk_gfa(version, vlevel=1, queue=None):
        header = Abs(repo.cls("line.Header"), label="header")
        return Abs(gfacls, label="gfa", _version=version,
                   _version_guess="gfa2" if version is None else version,
                   _version_explanation=None, _vlevel=vlevel,
                   _dialect="standard", _line_queue=list(queue or []),
                   _n_input_header_lines=0, _records={"H": header})

    def mk_line(rt, version=None, VN=None, label=None):
        if rt == "S":
            c = seg1 if version == "gfa1" else seg2
        else:
            c = recs.get(rt, custom)
        return Abs(c, label=label or "line:%s" % rt, _version=version, VN=VN,
                   name="n")

    def stores(events, attr):
        return [e[3] for e in events if e[0] == "store" and e[1] == "gfa"
                and e[2] == attr]

    def names(events):
        return [e[0] for e in events]

    R = "C13.decision"
    ctx.rule(R, "__add_line_unknown_version: '#' is connected without deciding; "
             "H merges and decides gfa1/gfa2 from VN 1.0/2.0 (then replays "
             "the queue); S decides the version of its syntax, replays, "
             "connects; E,F,G,U,O decide gfa2, replay, connect; L,C,P only "
             "set the guess to gfa1 and are queued; other records are queued; "
             "for Line instances and for strings", floor=30)
    f_u = ctx.anchor("Creators.__add_line_unknown_version",
                     gfacls.find_method("__add_line_unknown_version"))

    class UH(GfaHooks):
        stubs = ("process_line_queue",)
    cases = []
    for rt in LETTERS + ["X"]:
        if rt == "H":
            for vn in (None, "1.0", "2.0"):
                cases.append((rt, None, vn))
        elif rt == "S":
            cases.append((rt, "gfa1", None))
            cases.append((rt, "gfa2", None))
        else:
            cases.append((rt, "gfa1" if rt in spec.GFA1_ONLY else "gfa2", None))
    for (rt, lv, vn), as_string in itertools.product(cases, (False, True)):
        ctx.instance(R)
        made = {}

        def factory(text, kwargs, rt=rt, lv=lv, vn=vn, made=made):
            made["line"] = mk_line(rt, lv, vn)
            made["kwargs"] = kwargs
            return made["line"]
        uh = UH(repo, factory)
        g = mk_gfa(None)
        arg = (rt + "\tx") if as_string else mk_line(rt, lv, vn)
        out = eval_function(repo, f_u, [g, arg], hooks=uh)
        evs = out[2]
        line = made.get("line", arg)
        cell = "record=%s%s%s,%s" % (rt, ",syntax=%s" % lv if rt == "S" else "",
                                     ",VN=%s" % vn if rt == "H" else "",
                                     "string" if as_string else "instance")
        v_set = stores(evs, "_version")
        g_set = stores(evs, "_version_guess")
        ns = names(evs)
        queue = g.attrs["_line_queue"]
        if rt == "#":
            ok = not v_set and not g_set and "connect" in ns and not queue \
                and "process_line_queue" not in ns
        elif rt == "H":
            want = {"1.0": "gfa1", "2.0": "gfa2"}.get(vn)
            ok = "merge" in ns and not queue and not g_set and \
                ((vn is None and not v_set and "process_line_queue" not in ns)
                 or (vn is not None and v_set and v_set[-1] == want and
                     "process_line_queue" in ns))
        elif rt == "S":
            ok = v_set == [lv] and not queue and \
                sub_order(ns, ["process_line_queue", "connect"]) and \
                before_store(evs, "_version", "process_line_queue")
        elif rt in spec.GFA2_ONLY:
            ok = v_set == ["gfa2"] and not queue and \
                sub_order(ns, ["process_line_queue", "connect"]) and \
                before_store(evs, "_version", "process_line_queue")
            if ok and as_string:
                ok = made.get("kwargs", {}).get("version") == "gfa2"
        elif rt in spec.GFA1_ONLY:
            ok = not v_set and g_set == ["gfa1"] and len(queue) == 1 and \
                queue[0] is arg and "connect" not in ns and \
                "process_line_queue" not in ns
        else:
            ok = not v_set and not g_set and len(queue) == 1 and \
                queue[0] is arg and "connect" not in ns
        ok = ok and out[0] == "return"
        ctx.oblige(ok)
        if not ok:
            ctx.violation(R, f_u.short, cell,
                          "outcome %r; version stores %r, guess stores %r, "
                          "calls %r, queue length %d" % (
                              out[0:2], v_set, g_set, ns, len(queue)))
        else:
            ctx.sample({"rule": R, "cell": cell, "version": v_set,
                        "guess": g_set, "calls": ns}, limit=12)
    # the record type of a text line is its first field, not its first
    # character: 'S31 ...', 'Ex ...', 'H2 ...' are custom records (queued
    # while the version is unknown) and a '#...' line is a comment
    for text, kind in (("S31\tx", "other"), ("Ex\tx", "other"),
                       ("H2\tx", "other"), ("L1\tx", "other"),
                       ("#c\tx", "comment"), ("#", "comment")):
        ctx.instance(R)
        made = {}

        def factory(t, kwargs, made=made):
            made["line"] = mk_line("#" if t.startswith("#") else "X", "gfa2",
                                   None)
            return made["line"]
        uh = UH(repo, factory)
        g = mk_gfa(None)
        out = eval_function(repo, f_u, [g, text], hooks=uh)
        ns = names(out[2])
        queue = g.attrs["_line_queue"]
        if kind == "comment":
            ok = out[0] == "return" and "connect" in ns and not queue and \
                not stores(out[2], "_version")
        else:
            ok = out[0] == "return" and queue == [text] and \
                not stores(out[2], "_version") and \
                not stores(out[2], "_version_guess") and "connect" not in ns
        ctx.oblige(ok)
        if not ok:
            ctx.violation(R, f_u.short, "text=%r" % text,
                          "outcome %r; version stores %r, calls %r, queue %r "
                          "(the record type is the whole first field)" % (
                              out[0:2], stores(out[2], "_version"), ns, queue))
    # a VN other than 1.0 / 2.0 is refused at vlevel > 0 (the version
    # specific adders accept exactly those two spellings)
    for vl, vn in itertools.product((0, 1), ("3.0", "1.1", "1.2", "2.1", "1")):
        ctx.instance(R)
        uh = UH(repo, None)
        g = mk_gfa(None, vlevel=vl)
        out = eval_function(repo, f_u, [g, mk_line("H", None, vn)], hooks=uh)
        ok = (out[0] == "raise" and str(out[1]).endswith("VersionError")) \
            if vl > 0 else out[0] == "return"
        ctx.oblige(ok)
        if not ok:
            ctx.violation(R, f_u.short, "record=H,VN=%s,vlevel=%d" % (vn, vl),
                          "outcome %r" % (out[0:2],))
    ctx.exhaustive[R] = True

    # ------------------------------------------------------------------
    R = "C13.admission_mirror"
    ctx.rule(R, "__add_line_GFA1 and __add_line_GFA2 are mirror images: an "
             "instance of a class specific to the other version, a header "
             "whose VN names another version (vlevel > 0), and a segment of "
             "the other syntax are refused with VersionError before anything "
             "is merged or connected; everything admissible is merged (H) or "
             "connected; strings other than S lines are parsed with the Gfa's "
             "version", floor=60)
    fa1 = ctx.anchor("Creators.__add_line_GFA1",
                     gfacls.find_method("__add_line_GFA1"))
    fa2 = ctx.anchor("Creators.__add_line_GFA2",
                     gfacls.find_method("__add_line_GFA2"))
    spec1 = set(ev.ev(lines.attrs["GFA1Specific"]))
    spec2 = set(ev.ev(lines.attrs["GFA2Specific"]))
    for ver, f, other_spec, vn_ok in (("gfa1", fa1, spec2, "1.0"),
                                      ("gfa2", fa2, spec1, "2.0")):
        other = "gfa2" if ver == "gfa1" else "gfa1"
        for rt in LETTERS + ["X"]:
            variants = [(None, None)]
            if rt == "H":
                variants = [(None, v) for v in (None, "1.0", "2.0", "3.0")]
            if rt == "S":
                variants = [("gfa1", None), ("gfa2", None)]
            if rt == "#":
                # a comment (like a header) belongs to both versions; an
                # instance keeps the version of the Gfa it was parsed in or
                # cloned from, which does not make it inadmissible elsewhere
                variants = [(None, None), ("gfa1", None), ("gfa2", None)]
            for (lv, vn), vl, as_string in itertools.product(
                    variants, (0, 1), (False, True)):
                if rt not in ("S", "#"):
                    lv = "gfa1" if rt in spec.GFA1_ONLY else (
                        "gfa2" if rt in spec.GFA2_ONLY + ["X"] else None)
                ctx.instance(R)
                made = {}

                def factory(text, kwargs, rt=rt, lv=lv, vn=vn, made=made,
                            ver=ver):
                    # parsing a record of the other version with version=ver
                    # fails inside the Line constructor (decided by
                    # C13.version_tables / C13.line_version)
                    made["kwargs"] = kwargs
                    made["text"] = text
                    made["line"] = mk_line(rt, lv, vn)
                    return made["line"]
                gh = GfaHooks(repo, factory)
                g = mk_gfa(ver, vlevel=vl)
                if as_string and (rt in (spec.GFA1_ONLY if ver == "gfa2"
                                         else spec.GFA2_ONLY + ["X"])):
                    # the constructor refuses it; check only the version passed
                    arg = rt + "\tx"
                    out = eval_function(repo, f, [g, arg], hooks=gh)
                    ok = made.get("kwargs", {}).get("version") == ver
                    ctx.oblige(ok)
                    if not ok:
                        ctx.violation(R, f.short,
                                      "record=%s,string,version-argument" % rt,
                                      "a %s string is parsed with version=%r "
                                      "in a %s Gfa" % (rt, made.get(
                                          "kwargs", {}).get("version"), ver))
                    continue
                arg = (rt + "\tx") if as_string else mk_line(rt, lv, vn)
                out = eval_function(repo, f, [g, arg], hooks=gh)
                line = made.get("line", arg)
                ns = names(out[2])
                cell = "gfa=%s,record=%s%s%s,vlevel=%d,%s" % (
                    ver, rt, ",syntax=%s" % lv if rt == "S" else (
                        ",line.version=%s" % lv if rt == "#" else ""),
                    ",VN=%s" % vn if rt == "H" else "", vl,
                    "string" if as_string else "instance")
                refuse = False
                if not as_string and line.cls in other_spec:
                    refuse = True
                if rt == "H" and vl > 0 and vn and vn != vn_ok:
                    refuse = True
                if rt == "S" and lv == other:
                    refuse = True
                if refuse:
                    ok = out[0] == "raise" and \
                        str(out[1]).endswith("VersionError") and \
                        "merge" not in ns and "connect" not in ns
                elif ver == "gfa1" and rt == "X" and not as_string:
                    ok = out[0] == "raise"
                else:
                    ok = out[0] == "return" and \
                        (("merge" in ns) if rt == "H" else ("connect" in ns))
                if ok and as_string and rt != "S" and "kwargs" in made:
                    ok = made["kwargs"].get("version") == ver
                if ok and as_string and rt == "S" and "kwargs" in made:
                    ok = made["kwargs"].get("version") is None
                if ok and as_string and rt == "#" and "text" in made and \
                        made["text"] != arg and \
                        list(made["text"]) != ["#", "x", "\t"]:
                    # (the list form of this comment: content, then spacer)
                    # a comment is not tab-separated: only the constructor's
                    # own reading of the *text* (Line._init_comment_data)
                    # keeps tabs inside the comment where they are
                    ok = False
                    ctx.violation(R, f.short, cell + ",constructor-argument",
                                  "the text of a comment reaches Line() as "
                                  "%r instead of the string %r: a tab in a "
                                  "comment would split it into fields" % (
                                      made["text"], arg))
                    ctx.oblige(False)
                    continue
                ctx.oblige(ok)
                if not ok:
                    ctx.violation(R, f.short, cell,
                                  "outcome %r, calls %r; expected %s" % (
                                      out[0:2], ns,
                                      "VersionError before any merge/connect"
                                      if refuse else "merge/connect"))
    ctx.exhaustive[R] = True

    # ------------------------------------------------------------------
    R = "C13.queue"
    ctx.rule(R, "process_line_queue fixes the version (guess) first, replays "
             "every queued line once, in order, through add_line, then clears "
             "the queue; add_line dispatches on the version; only "
             "__add_line_unknown_version appends to the queue; Gfa.__init__ "
             "and read_file replay the queue after the last line", floor=8)
    f_pq = ctx.anchor("Creators.process_line_queue",
                      gfacls.find_method("process_line_queue"))

    class QH(GfaHooks):
        stubs = ("add_line",)
    for ver in (None, "gfa1"):
        ctx.instance(R)
        q = [Abs(custom, label="q1"), Abs(custom, label="q2"),
             Abs(custom, label="q3")]
        g = mk_gfa(ver, queue=q)
        g.attrs["_version_guess"] = "gfa1"
        out = eval_function(repo, f_pq, [g], hooks=QH(repo))
        evs = out[2]
        replays = [e[1] for e in evs if e[0] == "add_line"]
        v_set = stores(evs, "_version")
        ok = out[0] == "return" and replays == ["q1", "q2", "q3"] and \
            g.attrs["_line_queue"] == [] and g.attrs["_version"] == "gfa1"
        if ver is None:
            ok = ok and v_set == ["gfa1"] and \
                before_store(evs, "_version", "add_line")
        ctx.oblige(ok)
        if not ok:
            ctx.violation(R, f_pq.short, "version=%s" % ver,
                          "replayed %r, version stores %r, queue afterwards "
                          "%r" % (replays, v_set, g.attrs["_line_queue"]))
    # add_line dispatch
    f_al = ctx.anchor("Creators.add_line", gfacls.find_method("add_line"))

    class DH(GfaHooks):
        stubs = ("__add_line_GFA1", "__add_line_GFA2",
                 "__add_line_unknown_version")
    for ver, want in (("gfa1", "__add_line_GFA1"), ("gfa2", "__add_line_GFA2"),
                      (None, "__add_line_unknown_version")):
        ctx.instance(R)
        g = mk_gfa(ver)
        out = eval_function(repo, f_al, [g, mk_line("S", "gfa1")],
                            hooks=DH(repo))
        # (only the adders count: add_line may also keep state of its own)
        disp = [n for n in names(out[2]) if n in DH.stubs]
        ok = out[0] == "return" and disp == [want]
        ctx.oblige(ok)
        if not ok:
            ctx.violation(R, f_al.short, "version=%s" % ver,
                          "dispatches to %r" % disp)
    ctx.instance(R)
    out = eval_function(repo, f_al, [mk_gfa(None), None], hooks=DH(repo))
    ok = out[0] == "return" and not out[2]
    ctx.oblige(ok)
    if not ok:
        ctx.violation(R, f_al.short, "line=None", "None is not ignored")
    # writers of the queue
    writers = set()
    for fn in repo.functions.values():
        for n in walk_no_nested(fn.node):
            if isinstance(n, ast.Attribute) and n.attr == "_line_queue":
                par = getattr(n, "_parent", None)
                if isinstance(n.ctx, ast.Store) or (
                        isinstance(par, ast.Attribute) and
                        isinstance(getattr(par, "_parent", None), ast.Call)
                        and par._parent.func is par and par.attr in (
                            "append", "extend", "insert", "pop", "clear",
                            "remove")):
                    writers.add(fn.short)
    ctx.instance(R)
    allowed = {"gfa.Gfa.__init__", f_pq.short, f_u.short}
    ok = writers <= allowed and f_u.short in writers
    ctx.oblige(ok)
    if not ok:
        ctx.violation(R, "writers of Gfa._line_queue",
                      ",".join(sorted(writers - allowed)) or "none",
                      "the queue is written by %s; only %s may" % (
                          sorted(writers), sorted(allowed)))
    # replay after the last line
    for fname in ("__init__", "read_file"):
        ctx.instance(R)
        f = ctx.anchor("Gfa.%s" % fname, gfacls.find_method(fname))
        ok = replay_after_loop(f)
        ctx.oblige(ok)
        if not ok:
            ctx.violation(R, f.short, "replay-after-loop",
                          "no call of process_line_queue follows the loop "
                          "that adds the lines")
    ctx.exhaustive[R] = True

    # ------------------------------------------------------------------
    R = "C13.gfa_arguments"
    ctx.rule(R, "Gfa() refuses an unknown version or dialect with "
             "VersionError and a negative/non-integer vlevel with "
             "ArgumentError before building anything; header conversion "
             "writes VN:Z:1.0 / VN:Z:2.0", floor=6)
    f_init = gfacls.find_method("__init__")
    for kw, want in (({"version": "gfa3"}, "VersionError"),
                     ({"version": "1.0"}, "VersionError"),
                     ({"dialect": "foo"}, "VersionError"),
                     ({"vlevel": -1}, "ArgumentError"),
                     ({"vlevel": "1"}, "ArgumentError")):
        ctx.instance(R)
        g = Abs(gfacls, label="gfa")
        out = eval_function(repo, f_init, [g], kw, hooks=hooks)
        ok = out[0] == "raise" and str(out[1]).endswith(want) and \
            not [e for e in out[2] if e[0] == "store"]
        ctx.oblige(ok)
        if not ok:
            ctx.violation(R, f_init.short, "args=%r" % (kw,),
                          "outcome %r, expected %s before any state is built"
                          % (out[0:2], want))
    hdr_cls = repo.cls("line.Header")

    class IH(GfaHooks):
        def construct(self, ev, cls, args, kwargs):
            if cls is hdr_cls:
                return Abs(hdr_cls, label="header")
            return super().construct(ev, cls, args, kwargs)

    # the version and the dialect given explicitly are what the instance
    # keeps, each whatever the other is
    for version, dialect in itertools.product([None, "gfa1", "gfa2"],
                                              ["standard", "rgfa"]):
        ctx.instance(R)
        g = Abs(gfacls, label="gfa")
        out = eval_function(repo, f_init, [g],
                            {"version": version, "dialect": dialect},
                            hooks=IH(repo))
        got = (g.attrs.get("_version", "<unset>"),
               g.attrs.get("_dialect", "<unset>"),
               g.attrs.get("_version_guess", "<unset>"))
        # (what an instance of undeclared version starts from is the
        # subject of C13.decision / C13.queue, not of this cell)
        ok = out[0] == "return" and got[1] == dialect and \
            (version is None or got == (version, dialect, version))
        ctx.oblige(ok)
        if not ok:
            ctx.violation(R, f_init.short,
                          "version=%r,dialect=%r" % (version, dialect),
                          "outcome %r leaves (_version, _dialect, "
                          "_version_guess) = %r: a version given explicitly "
                          "is the one every later line is checked against"
                          % (out[0:2], got))
    f_ff = ctx.anchor("Gfa.from_file", gfacls.find_method("from_file"))

    class FFH(GfaHooks):
        def construct(self, ev, cls, args, kwargs):
            if cls is gfacls:
                ev.events.append(("Gfa", tuple(args), dict(kwargs)))
                return Abs(gfacls, label="gfa")
            return super().construct(ev, cls, args, kwargs)

        def method(self, ev, base, name, args, kwargs, node):
            if isinstance(base, Abs) and base.label == "gfa" and \
                    name == "read_file":
                ev.events.append(("read_file",) + tuple(args))
                return None
            return super().method(ev, base, name, args, kwargs, node)
    for version, dialect in itertools.product([None, "gfa1", "gfa2"],
                                              ["standard", "rgfa"]):
        ctx.instance(R)
        out = eval_function(repo, f_ff, [gfacls, "file.gfa"],
                            {"version": version, "dialect": dialect,
                             "vlevel": 2}, hooks=FFH(repo))
        made = [e for e in out[2] if e[0] == "Gfa"]
        ok = out[0] == "return" and len(made) == 1 and not made[0][1] and \
            made[0][2] == {"version": version, "dialect": dialect,
                           "vlevel": 2} and \
            ("read_file", "file.gfa") in out[2]
        ctx.oblige(ok)
        if not ok:
            ctx.violation(R, f_ff.short,
                          "version=%r,dialect=%r,vlevel=2" % (version, dialect),
                          "outcome %r, Gfa built with %r: from_file hands its "
                          "version, dialect and vlevel to Gfa() as given"
                          % (out[0:2], made))
    hdr = repo.cls("line.Header")
    for name, want in (("_to_gfa1_a", "VN:Z:1.0"), ("_to_gfa2_a", "VN:Z:2.0")):
        ctx.instance(R)
        f = ctx.anchor("Header.%s" % name, hdr.find_method(name))
        h = Abs(hdr, label="h", VN="9.9", tagnames=["VN"])
        out = eval_function(repo, f, [h], hooks=hooks)
        ok = out[0] == "return" and out[1] == ["H", want]
        ctx.oblige(ok)
        if not ok:
            ctx.violation(R, f.short, name,
                          "writes %r, expected ['H', %r]" % (out[1], want))
    ctx.exhaustive[R] = True
    ctx.notes["domain"] = ("record types H,S,#,L,C,P,E,F,G,O,U + custom X; "
                           "versions None/gfa1/gfa2; VN None/1.0/2.0/3.0; "
                           "vlevel 0/1; strings and Line instances")



def segment_tag_scan_cells(ctx, R, hooks):
    """shared by C13 and C20: the syntax sniffing of S lines counts every
    field that is a tag for the tag grammar as a tag -- every tag the library
    can write (blanks and punctuation in Z and J values, every datatype
    letter, both name shapes); on samples by interpretation, and for the
    whole tag language when the pattern text is visible"""
    from .regexsites import regex_sites
    from .. import rx
    repo = ctx.repo
    seg1 = repo.cls("line.segment.GFA1")
    seg2 = repo.cls("line.segment.GFA2")
    fs = ctx.anchor("Segment._subclass",
                    repo.cls("line.Segment").find_method("_subclass"))
    samples = ["xx:Z:a b", 'jj:J:{"a": 1, "b": [1, 2]}', "a1:A:!", "Zz:i:-5",
               "fl:f:1.5e-3", "hh:H:0AFF", "bb:B:c,1,-2", "zz:Z:~ {}[]:;,",
               "cm:Z:two  blanks", "x9:Z: leading", "co:Z:trailing "]
    for tag in samples:
        for data, want in ((["S", "a", "*", tag], seg1),
                           (["S", "a", "10", "*", tag], seg2),
                           (["S", "a", "*", tag, "LN:i:3"], seg1)):
            ctx.instance(R)
            out = eval_function(repo, fs, [data], hooks=hooks)
            ok = out[0] == "return" and out[1] is want
            ctx.oblige(ok)
            if not ok:
                ctx.violation(R, fs.short, "segment with tag %r (%d fields)"
                              % (tag, len(data)),
                              "gives %r, expected %s: the tag is not counted "
                              "as a tag" % (out[1], want.short))
    # ... and only the fields after the positional ones can be tags: a
    # segment name that looks like a tag (ab:Z:x is a valid name) is a name
    for nm in ("ab:Z:x", "x1:A:3", "12:i:7"):
        for data, want in (
                (["S", nm, "*"], seg1), (["S", nm, "10", "*"], seg2),
                (["S", nm, "*", "LN:i:3"], seg1),
                (["S", nm, "10", "*", "xx:Z:a b"], seg2)):
            ctx.instance(R)
            out = eval_function(repo, fs, [data], hooks=hooks)
            ok = out[0] == "return" and out[1] is want
            ctx.oblige(ok)
            if not ok:
                ctx.violation(R, fs.short, "segment named %r (%d fields)"
                              % (nm, len(data)),
                              "gives %r, expected %s: the name is a "
                              "positional field" % (out[1], want.short))
    for node, pat, mode in regex_sites(fs):
        if pat is None:
            continue
        ctx.instance(R)
        ok, w = rx.strict(spec.TAG_RE).subset_of(rx.from_regex(pat, mode))
        ctx.oblige(ok)
        if not ok:
            ctx.violation(R, fs.short, "tag test %s" % unparse(node)[:60],
                          "the pattern %r does not accept the tag %r" % (
                              pat, w))


def rule_segment_tag_scan(ctx, R):
    ctx.rule(R, "Segment._subclass, which picks the segment class from the "
             "number of fields that are not tags, counts as a tag every "
             "field the tag grammar accepts (blanks and punctuation in Z / J "
             "values, every datatype letter): a written S line is read back "
             "as a segment of the same version with the same tags", floor=30)
    segment_tag_scan_cells(ctx, R, GfaHooks(ctx.repo))
    ctx.exhaustive[R] = True

def sub_order(seq, want):
    """`want` occurs as a subsequence of `seq`."""
    it = iter(seq)
    return all(any(x == w for x in it) for w in want)


def before_store(events, attr, callname):
    """The store into gfa.<attr> precedes the first event named callname."""
    for e in events:
        if e[0] == "store" and e[2] == attr:
            return True
        if e[0] == callname:
            return False
    return False


def replay_after_loop(func):
    """A call of process_line_queue occurs, in the same or an enclosing block,
    after the for/with-loop containing the add_line call."""
    def has_call(node, name):
        return any(isinstance(n, ast.Call) and isinstance(n.func, ast.Attribute)
                   and n.func.attr == name for n in ast.walk(node))

    def scan(body):
        seen_loop = False
        for st in body:
            if seen_loop and has_call(st, "process_line_queue"):
                return True
            if isinstance(st, (ast.For, ast.With)) and has_call(st, "add_line"):
                seen_loop = True
                continue
            for sub in ("body", "orelse"):
                b = getattr(st, sub, None)
                if isinstance(b, list) and b and isinstance(b[0], ast.stmt):
                    if scan(b):
                        return True
        return False
    return scan(func.node.body)
