"""C07 -- only gfapy.Error exceptions escape, whatever the text.

Decided clauses (EXC), all over the *surface*: the functions reachable, in the
resolved call graph, from the text-ingestion and string-taking public API.
(a) raise_class: every explicit `raise` on the surface constructs a subclass
    of gfapy.Error (re-raises of a caught exception and the attribute-protocol
    AttributeError of _get_dynamic_field are named exceptions).
(b) primitives: text taint is propagated from the entry parameters through
    assignments, str/list methods, loops and resolved calls; an index into a
    text-derived value, a dict lookup with a text-derived key, int()/float()/
    json.loads()/unhexlify() of a text-derived value and the dereference of a
    possibly-None finder/match result are each discharged by a dominating
    fact (GuardWalker), an enclosing try whose handler is wide enough, a
    producer that cannot be empty, or -- for a private function indexing its
    parameter -- by the same obligation at every call site.
(c) undefined_names: no call on the surface of a method that no class in the
    receiver's hierarchy defines.
(d) rewrap: the `raise err.__class__(msg)` sites build the class with one
    positional argument and every gfapy error class accepts that.
(e) bin/gfapy-validate: from_file and validate both sit in the try whose
    handler catches gfapy.Error and exits with status 1.
Not decided: exceptions caused by values of an unexpected *type*, text that
reaches a primitive through a field of a stored line (the taint does not follow
object fields), RecursionError on deep structures, termination.
"""
import ast

from .. import exc
from ..model import (AnalysisError, ClassInfo, FuncInfo, External, Module,
                     unparse, dotted, walk_no_nested)
from .effects_common import program

# ---------------------------------------------------------------------------
# entry points: (class path or module path, function, text parameters,
# key parameters).  Text parameters hold text offered as a line / document /
# field; key parameters hold identifiers and field names.
ENTRIES = [
    ("Gfa", "__init__", ["*args"], []),
    ("Gfa", "read_file", [], []),
    ("Gfa", "from_file", [], []),
    ("Gfa", "add_line", ["gfa_line"], []),
    ("Gfa", "process_line_queue", [], []),
    ("Gfa", "validate", [], []),
    ("Gfa", "__str__", [], []),
    ("Gfa", "to_file", [], []),
    ("Gfa", "segment", [], ["s"]),
    ("Gfa", "try_get_segment", [], ["s"]),
    ("Gfa", "line", [], ["l"]),
    ("Gfa", "try_get_line", [], ["l"]),
    ("Gfa", "rm", [], ["gfa_line"]),
    # line objects built from text: their field reads are text
    ("Gfa", "_register_line", ["@gfa_line"], []),
    ("Gfa", "_unregister_line", ["@gfa_line"], []),
    ("Gfa", "_search_duplicate", ["@gfa_line"], []),
    ("Line", "__new__", ["data"], []),
    ("Line", "__init__", ["data"], []),
    ("Line", "set", [], ["fieldname"]),
    ("Line", "get", [], ["fieldname"]),
    ("Line", "try_get", [], ["fieldname"]),
    ("Line", "delete", [], ["tagname"]),
    ("Line", "validate", [], []),
    ("Line", "validate_field", [], ["fieldname"]),
    ("Line", "get_datatype", [], ["fieldname"]),
    ("Line", "set_datatype", [], ["fieldname", "datatype"]),
    ("Line", "field_to_s", [], ["fieldname"]),
    ("Line", "__str__", [], []),
    ("Line", "to_list", [], []),
    ("Line", "disconnect", [], []),
    ("Line", "connect", [], []),
    ("Field", "_parse_gfa_field", ["string"], ["datatype"]),
    ("Field", "_parse_gfa_tag", ["tag"], []),
    ("LastPos", "__new__", ["value"], []),
    ("LastPos", "_from_string", ["string"], []),
    ("OrientedLine", "__init__", ["*args"], []),
    ("OrientedLine", "__new__", ["*args"], []),
    ("SegmentEnd", "__init__", ["*args"], []),
    ("SegmentEnd", "__new__", ["*args"], []),
    ("ByteArray", "__new__", ["arg"], []),
    ("NumericArray", "from_string", ["string"], []),
    ("Alignment", "__new__", ["*args"], []),
    ("Alignment", "_from_string", ["string"], []),
    ("CIGAR", "_from_string", ["string"], []),
    ("Trace", "_from_string", ["string"], []),
]
# regex sites whose subject is the name of a line that always has one
REVIEWED_NAME_SITES = {
    "field.oriented_identifier_list_gfa1.validate_decoded":
        "the elements are the oriented segments of a GFA1 path; the name of "
        "a GFA1 segment is a mandatory field decoded to str",
}

FIELD_MODULE_TEXT_FUNCS = ("decode", "unsafe_decode", "validate_encoded")

STR_METHODS = {"split", "strip", "rstrip", "lstrip", "lower", "upper", "copy",
               "replace", "partition", "rpartition", "splitlines", "pop",
               "rsplit", "encode", "decode", "readlines", "readline", "read",
               "format", "join"}
WRAPPERS = {"list", "str", "tuple", "reversed", "sorted", "iter", "next"}
NULLABLE_ATTRS = {"segment", "line", "_search_link", "_search_duplicate",
                  "match", "search", "fullmatch"}

def canon(f, node):
    """source text of `node` with the local variables of function `f` (names
    it binds, parameters excepted) written `_`: reviewed-site keys must not
    depend on how a loop counter is called"""
    import copy
    params = set(f.params) | {f.self_name}
    local = set()
    for n in ast.walk(f.node):
        if isinstance(n, ast.Name) and isinstance(n.ctx, ast.Store):
            local.add(n.id)
    local -= params
    node = copy.deepcopy(node)
    for n in ast.walk(node):
        if isinstance(n, ast.Name) and n.id in local:
            n.id = "_"
    return unparse(node)


# reviewed sites that the walk cannot discharge; key = (function, construct
# with local names written `_`, see canon)
SAFE = {
    ("line.common.construction.Construction._init_comment_data",
     "index:data[0]"):
        "data is a list here only when the caller passed a list, which is "
        "not text; a str goes through re.match below",
    ("line.comment.construction.Construction._initialize_positional_fields",
     "index:strings[1]"):
        "for text input strings is the 3-element list built by "
        "_init_comment_data",
    ("line.comment.construction.Construction._initialize_positional_fields",
     "index:strings[2]"):
        "for text input strings is the 3-element list built by "
        "_init_comment_data",
    ("line.custom_record.construction.Construction."
     "_delayed_initialize_positional_fields", "index:strings[_]"):
        "i < n_positional_fields = first_tag <= len(strings), computed by "
        "the only caller (_initialize_tags)",
}


class Taint:
    """Flow-insensitive text taint per function; 'text' = a str or a list
    split from one (its length depends on the text); 'box' = a container the
    caller built whose elements are text (*args)."""

    def __init__(self, prog, reach):
        self.prog = prog
        self.repo = prog.repo
        self.reach = reach
        self.text = {}      # FuncInfo -> set of names
        self.box = {}
        self.key = {}
        self.match = {}
        self.line = {}
        self.source = {}    # (func, name) -> (caller func, site text)
        # attributes that only ever hold a defaultdict (no KeyError on read)
        dd, other = set(), set()
        for m in self.repo.modules.values():
            for n in ast.walk(m.tree):
                if isinstance(n, ast.Assign):
                    for t in n.targets:
                        if isinstance(t, ast.Attribute):
                            v = n.value
                            if isinstance(v, ast.Call) and (dotted(v.func) or
                                                            "").split(".")[-1] \
                                    == "defaultdict":
                                dd.add(t.attr)
                            else:
                                other.add(t.attr)
        self.defaultdict_attrs = dd - other
        self.returns = {}   # FuncInfo -> kind of the returned value
        self.callmap = {}   # FuncInfo -> {id(call node): [callees]}
        for f in reach:
            d = {}
            for s in prog.sites.get(f, ()):
                if isinstance(s.node, ast.Call):
                    d.setdefault(id(s.node), []).extend(
                        c for c in s.callees if isinstance(c, FuncInfo))
            self.callmap[f] = d

    def seed(self, f, name, kind, why):
        d = getattr(self, kind).setdefault(f, set())
        if name in d:
            return False
        d.add(name)
        self.source.setdefault((f, name), why)
        return True

    def kind_of(self, f, e):
        """'text' | 'box' | 'key' | None for an expression in f"""
        if isinstance(e, ast.Name):
            g = f
            while g is not None:    # closures see the enclosing taint
                if e.id in self.text.get(g, ()):
                    return "text"
                if e.id in self.box.get(g, ()):
                    return "box"
                if e.id in self.key.get(g, ()):
                    return "key"
                if e.id in self.match.get(g, ()):
                    return "match"
                if e.id in self.line.get(g, ()):
                    return "line"
                g = g.parent
            return None
        if isinstance(e, ast.Attribute):
            # the constructor arguments of an exception: the library raises
            # its errors with a message or with none, so the tuple may be
            # empty
            if e.attr == "args" and isinstance(e.value, ast.Name) and \
                    f.self_name and e.value.id == f.self_name and \
                    f.owner_cls is not None and any(
                        b in ("Exception", "BaseException")
                        for b in f.owner_cls.builtin_bases()):
                return "box"
            # a field of a line object that was built from text
            if self.kind_of(f, e.value) == "line" and \
                    not e.attr.startswith("_"):
                return "text"
            # self.<field> inside a line class: the value of a field, which
            # at vlevel 0 is whatever the text held (used as a lookup key)
            if isinstance(e.value, ast.Name) and f.self_name and \
                    e.value.id == f.self_name and \
                    e.attr in self.prog.field_names and \
                    f.owner_cls is not None and any(
                        self.prog.Line in k.mro
                        for k in self.prog.leaves(f.owner_cls)):
                return "key"
            return None
        if isinstance(e, ast.Subscript):
            k = self.kind_of(f, e.value)
            if k == "box":
                return "text"
            return k if k == "text" else None
        if isinstance(e, ast.Starred):
            return self.kind_of(f, e.value)
        if isinstance(e, ast.Call):
            fn = e.func
            if isinstance(fn, ast.Attribute) and fn.attr in STR_METHODS:
                k = self.kind_of(f, fn.value)
                if k in ("text", "key"):
                    return k
                if fn.attr in ("join", "format"):
                    return None
            if isinstance(fn, ast.Name) and fn.id in WRAPPERS and e.args:
                k = self.kind_of(f, e.args[0])
                if k:
                    return "text" if k == "box" and fn.id == "next" else k
            if isinstance(fn, ast.Name) and fn.id == "open":
                return "box"
            if dotted(fn) in ("re.match", "re.search", "re.fullmatch") and \
                    len(e.args) > 1 and self.kind_of(f, e.args[1]):
                return "match"
            if dotted(fn) == "re.finditer" and len(e.args) > 1 and \
                    self.kind_of(f, e.args[1]):
                return "matches"
            if dotted(fn) == "re.findall" and len(e.args) > 1 and \
                    self.kind_of(f, e.args[1]):
                return "box"
            if isinstance(fn, ast.Attribute) and \
                    fn.attr in ("group", "groups") and \
                    self.kind_of(f, fn.value) == "match":
                return "text" if fn.attr == "group" else "box"
            for c in self.callmap.get(f, {}).get(id(e), ()):
                if c in self.returns:
                    return self.returns[c]
            if dotted(fn) == "re.split" and len(e.args) > 1:
                return self.kind_of(f, e.args[1])
            return None
        if isinstance(e, ast.BinOp):
            a, b = self.kind_of(f, e.left), self.kind_of(f, e.right)
            return a or b
        if isinstance(e, ast.IfExp):
            return self.kind_of(f, e.body) or self.kind_of(f, e.orelse)
        if isinstance(e, (ast.List, ast.Tuple)):
            if any(self.kind_of(f, x) for x in e.elts):
                return "box"
            return None
        if isinstance(e, ast.ListComp):
            return "box" if self.kind_of(f, e.elt) else None
        return None

    def bind_targets(self, f, target, kind):
        ch = False
        if kind is None:
            return False
        if isinstance(target, ast.Name):
            return self.seed(f, target.id, kind, ("local", None))
        if isinstance(target, (ast.Tuple, ast.List)):
            # unpacking a text-derived list gives text elements
            ek = "text" if kind in ("text", "box") else kind
            for t in target.elts:
                ch |= self.bind_targets(f, t, ek)
        if isinstance(target, ast.Starred):
            ch |= self.bind_targets(f, target.value, kind)
        return ch

    def local_pass(self, f):
        ch = False
        for n in walk_no_nested(f.node):
            if isinstance(n, ast.Assign):
                k = self.kind_of(f, n.value)
                for t in n.targets:
                    ch |= self.bind_targets(f, t, k)
            elif isinstance(n, ast.Return) and n.value is not None:
                k = self.kind_of(f, n.value)
                if k in ("text", "box", "key") and f not in self.returns:
                    self.returns[f] = k
                    ch = True
            elif isinstance(n, ast.AugAssign):
                ch |= self.bind_targets(f, n.target,
                                        self.kind_of(f, n.value))
            elif isinstance(n, (ast.For, ast.comprehension)):
                it = n.iter
                k = self.kind_of(f, it)
                tgt = n.target
                if isinstance(it, ast.Call) and isinstance(it.func, ast.Name) \
                        and it.func.id == "enumerate" and it.args and \
                        isinstance(tgt, ast.Tuple) and len(tgt.elts) == 2:
                    k = self.kind_of(f, it.args[0])
                    tgt = tgt.elts[1]
                if k in ("text", "box"):
                    ch |= self.bind_targets(f, tgt, "text")
                elif k == "matches":
                    ch |= self.bind_targets(f, tgt, "match")
            elif isinstance(n, ast.With):
                for item in n.items:
                    if item.optional_vars is not None:
                        ch |= self.bind_targets(
                            f, item.optional_vars,
                            self.kind_of(f, item.context_expr))
        return ch

    def call_bindings(self, f):
        """[(callee, param name, arg expr, call node)]"""
        out = []
        for s in self.prog.sites.get(f, ()):
            if not isinstance(s.node, ast.Call):
                continue
            call = s.node
            for c in s.callees:
                if not isinstance(c, FuncInfo):
                    continue
                params = list(c.params)
                skip = 0
                if c.name == "__new__" or (c.has_self and not (
                        s.how == "static" and c.kind != "classmethod")):
                    skip = 1
                params = params[skip:]
                i = 0
                for a in call.args:
                    if isinstance(a, ast.Starred):
                        # *args forwarded: element i.. of the box
                        k = self.kind_of(f, a.value)
                        if k == "box":
                            for p in params[i:]:
                                out.append((c, p, a, call, "text"))
                        break
                    if i < len(params):
                        out.append((c, params[i], a, call, None))
                    elif c.vararg:
                        out.append((c, c.vararg, a, call, "boxed"))
                    i += 1
                for kw in call.keywords:
                    if kw.arg and (kw.arg in params or kw.arg in c.kwonly):
                        out.append((c, kw.arg, kw.value, call, None))
        return out

    def run(self):
        work = True
        rounds = 0
        while work:
            work = False
            rounds += 1
            if rounds > 50:
                raise AnalysisError("taint fixpoint did not converge")
            for f in self.reach:
                while self.local_pass(f):
                    work = True
                for (c, p, a, call, force) in self.call_bindings(f):
                    if c not in self.reach:
                        continue
                    k = self.kind_of(f, a)
                    if k is None:
                        continue
                    if force == "boxed":
                        k = "box" if k in ("text", "box") else None
                    elif force == "text":
                        k = "text"
                    if k and self.seed(c, p, k, (f, unparse(call)[:60])):
                        work = True


def const_index(s):
    if isinstance(s, ast.Constant) and isinstance(s.value, int):
        return s.value
    if isinstance(s, ast.UnaryOp) and isinstance(s.op, ast.USub) and \
            isinstance(s.operand, ast.Constant) and \
            isinstance(s.operand.value, int):
        return -s.operand.value
    return None


class SiteWalker(exc.GuardWalker):
    """collects primitive sites of one function with the facts reaching them"""

    def __init__(self, func, taint):
        super().__init__(func)
        self.taint = taint
        self.tries = []
        self.loops = []
        self.sites = []     # dicts
        self.calls = []     # (call node, facts)

    def enter_try(self, st):
        self.tries.append(st)

    def leave_try(self, st):
        self.tries.pop()

    def stmt(self, st, facts):
        if isinstance(st, ast.Return) and isinstance(st.value, ast.Name) and \
                self.func.name.startswith("try_get") and \
                st.value.id in self.nullable:
            # callers of try_get_* rely on a non-None result
            v = st.value.id
            self.sites.append(dict(
                kind="nullable-return", node=st.value, base=v, param=None,
                need=None, ok="dominated by a None / truthiness test of " + v
                if v in facts.nonnull else None))
        if isinstance(st, ast.For):
            self.loops.append(st)
            out = super().stmt(st, facts)
            self.loops.pop()
            return out
        return super().stmt(st, facts)

    def value_nonnull(self, val):
        if isinstance(val, ast.Call):
            f = val.func
            if isinstance(f, ast.Attribute) and f.attr in NULLABLE_ATTRS:
                return False
            # dict.get(k) / dict.get(k, None); Line.get on self is a field
            if isinstance(f, ast.Attribute) and f.attr == "get" and \
                    not (isinstance(f.value, ast.Name) and
                         f.value.id == self.func.self_name) and (
                        len(val.args) < 2 or (
                            isinstance(val.args[1], ast.Constant) and
                            val.args[1].value is None)):
                return False
            return True
        return super().value_nonnull(val)

    def returns_nonempty(self, callee):
        """every return of callee gives a non-empty list literal, or a name
        that the function assigns a non-empty list literal to (the other
        values of that name being the caller's own non-text argument)"""
        lits = set()
        rets = []
        for n in walk_no_nested(callee.node):
            if isinstance(n, ast.Assign) and len(n.targets) == 1 and \
                    isinstance(n.targets[0], ast.Name) and \
                    isinstance(n.value, (ast.List, ast.Tuple)) and \
                    n.value.elts:
                lits.add(n.targets[0].id)
            elif isinstance(n, ast.Return):
                rets.append(n.value)
        if not rets:
            return False
        for r in rets:
            if isinstance(r, (ast.List, ast.Tuple)) and r.elts:
                continue
            if isinstance(r, ast.Name) and r.id in lits:
                continue
            return False
        return True

    def value_nonempty(self, val, facts):
        if isinstance(val, ast.Call):
            cs = self.taint.callmap.get(self.func, {}).get(id(val), ())
            if cs and all(self.returns_nonempty(c) for c in cs):
                return True
        return super().value_nonempty(val, facts)

    def assign_facts(self, val, facts, unpack=False):
        out = super().assign_facts(val, facts, unpack)
        if self.taint.kind_of(self.func, val) is None:
            # the variable no longer holds text: text facts hold vacuously
            out += ["nonempty", "lenchecked"]
        return out

    def in_try(self, needed, wide=False):
        for t in self.tries:
            if wide:
                caught = set()
                for h in t.handlers:
                    caught |= exc.handler_names(h)
                if "*" in caught or caught & exc.WIDE:
                    return True
            elif exc.try_catches(t, needed):
                return True
        return False

    cur_sub = None

    def bounded(self, base_key, sub):
        self.cur_sub = sub
        try:
            return self.bounded_index(base_key, sub.slice)
        finally:
            self.cur_sub = None

    def bounded_index(self, base_key, idx):
        """idx is a loop variable over range(.. len(base) ..)"""
        names = {n.id for n in ast.walk(idx) if isinstance(n, ast.Name)}
        for lp in self.loops:
            tg = {n.id for n in ast.walk(lp.target) if isinstance(n, ast.Name)}
            if names & tg and isinstance(lp.iter, ast.Call) and \
                    isinstance(lp.iter.func, ast.Name) and \
                    lp.iter.func.id in ("range", "enumerate"):
                if any(exc.is_len_call(n) == base_key or
                       exc.key_of(n) == base_key
                       for a in lp.iter.args for n in ast.walk(a)):
                    return True
        # a counter that starts at len(base) - c (c >= 1), is only ever
        # decreased, and is tested `> 0` / `>= 0` in the condition that
        # guards the subscript (while i > 0 and ... base[i] ...)
        if isinstance(idx, ast.Name):
            starts, other = 0, 0
            for n in walk_no_nested(self.func.node):
                tgts = []
                if isinstance(n, ast.Assign):
                    tgts = [t for t in n.targets if isinstance(t, ast.Name)
                            and t.id == idx.id]
                    if tgts:
                        v = n.value
                        if isinstance(v, ast.BinOp) and \
                                isinstance(v.op, ast.Sub) and \
                                exc.is_len_call(v.left) == base_key and \
                                isinstance(v.right, ast.Constant) and \
                                isinstance(v.right.value, int) and \
                                v.right.value >= 1:
                            starts += 1
                        else:
                            other += 1
                elif isinstance(n, ast.AugAssign) and \
                        isinstance(n.target, ast.Name) and \
                        n.target.id == idx.id:
                    if not (isinstance(n.op, ast.Sub) and
                            isinstance(n.value, ast.Constant) and
                            isinstance(n.value.value, int) and
                            n.value.value >= 0):
                        other += 1
                elif isinstance(n, (ast.For, ast.comprehension)) and any(
                        isinstance(x, ast.Name) and x.id == idx.id
                        for x in ast.walk(n.target)):
                    other += 1
            if starts >= 1 and other == 0:
                lower = ("%s > 0" % idx.id, "%s >= 0" % idx.id,
                         "0 < %s" % idx.id, "0 <= %s" % idx.id)
                for n in walk_no_nested(self.func.node):
                    test = getattr(n, "test", None)
                    if isinstance(n, (ast.While, ast.If, ast.IfExp)) and \
                            isinstance(test, ast.BoolOp) and \
                            isinstance(test.op, ast.And):
                        seen_guard = False
                        for c in test.values:
                            if unparse(c) in lower:
                                seen_guard = True
                            elif seen_guard and any(
                                    x is self.cur_sub for x in ast.walk(c)):
                                return True
        return False

    def visit(self, node, facts, store=False):
        f = self.func
        T = self.taint
        if isinstance(node, ast.Call):
            self.calls.append((node, facts.copy()))
            self.visit_call(node, facts)
        if isinstance(node, ast.Subscript) and not store and \
                not isinstance(node.slice, ast.Slice):
            bk = T.kind_of(f, node.value)
            ik = T.kind_of(f, node.slice)
            base_key = exc.key_of(node.value)
            if bk == "text" or (bk == "box" and
                                isinstance(node.value, ast.Attribute) and
                                node.value.attr == "args"):
                # (the second case: the argument tuple of an exception)
                ci = const_index(node.slice)
                ok = None
                if self.in_try({"IndexError"}):
                    ok = "inside try/except catching IndexError"
                elif base_key and base_key in facts.lenchecked:
                    ok = "dominated by a len(%s) test" % base_key
                elif ci in (0, -1) and base_key and \
                        base_key in facts.nonempty:
                    ok = "%s known non-empty" % base_key
                elif ci in (0, -1) and isinstance(node.value, ast.Call) and \
                        isinstance(node.value.func, ast.Attribute) and \
                        node.value.func.attr in ("split", "rsplit"):
                    ok = "split() yields at least one element"
                elif base_key and ci is None and \
                        self.bounded(base_key, node):
                    ok = "index bounded by range(len(%s))" % base_key
                self.sites.append(dict(
                    kind="index", node=node, ok=ok, base=base_key,
                    param=(base_key if isinstance(node.value, ast.Name) and
                           base_key in f.params else None),
                    need="lenchecked" if ci not in (0, -1) else "nonempty"))
            elif ik in ("text", "key") and bk is None and \
                    not isinstance(node.value, (ast.Dict,)):
                ok = None
                ikey = exc.key_of(node.slice)
                dd = node.value
                if isinstance(dd, ast.Name):
                    # a local alias: records = self._records
                    vals = [n.value for n in walk_no_nested(f.node)
                            if isinstance(n, ast.Assign) and
                            len(n.targets) == 1 and
                            isinstance(n.targets[0], ast.Name) and
                            n.targets[0].id == dd.id]
                    if len(vals) == 1:
                        dd = vals[0]
                if isinstance(dd, ast.Attribute) and \
                        dd.attr in T.defaultdict_attrs:
                    ok = "%s is a defaultdict" % dd.attr
                elif self.in_try({"KeyError"}):
                    ok = "inside try/except catching KeyError"
                elif ikey and ikey in facts.keychecked:
                    ok = "dominated by a membership test of %s" % ikey
                self.sites.append(dict(
                    kind="key", node=node, ok=ok, base=base_key,
                    param=(ikey if isinstance(node.slice, ast.Name) and
                           ikey in f.params else None), need="keychecked"))
        # dereference of a possibly-None result
        if isinstance(node, ast.Attribute) and isinstance(node.value, ast.Name):
            v = node.value.id
            if v in self.nullable:
                ok = None
                if v in facts.nonnull:
                    ok = "dominated by a None / truthiness test of " + v
                elif self.in_try({"AttributeError"}):
                    ok = "inside try/except catching AttributeError"
                self.sites.append(dict(kind="nullable", node=node, base=v,
                                       param=None, need=None, ok=ok))

    def run(self):
        # names assigned from nullable producers anywhere in the function
        self.nullable = set()
        for n in walk_no_nested(self.func.node):
            if isinstance(n, ast.Assign) and len(n.targets) == 1 and \
                    isinstance(n.targets[0], ast.Name) and \
                    isinstance(n.value, ast.Call) and \
                    not self.value_nonnull(n.value):
                self.nullable.add(n.targets[0].id)
        super().run()

    def visit_call(self, node, facts):
        f = self.func
        T = self.taint
        fn = node.func
        d = dotted(fn)
        arg_k = [T.kind_of(f, a) for a in node.args]
        # map(int, xs) / map(conv, xs) with conv bound to int or float: the
        # conversion is applied to every element of the text-derived xs
        if d == "map" and len(node.args) == 2 and \
                arg_k[1] in ("text", "key", "box"):
            conv = node.args[0]
            names = set()
            if isinstance(conv, ast.Name):
                names.add(conv.id)
                for n in walk_no_nested(f.node):
                    if isinstance(n, ast.Assign) and len(n.targets) == 1 and \
                            isinstance(n.targets[0], ast.Name) and \
                            n.targets[0].id == conv.id:
                        names |= {x.id for x in ast.walk(n.value)
                                  if isinstance(x, ast.Name)}
            hit = sorted(names & {"int", "float"})
            if hit:
                ok = None
                if self.in_try({"ValueError"}):
                    ok = "inside try/except catching ValueError"
                self.sites.append(dict(kind=hit[0], node=node, ok=ok,
                                       base=None, param=None, need=None))
            return
        tainted = any(k in ("text", "key") for k in arg_k)
        if not tainted:
            return
        if d in ("int", "float"):
            ok = None
            if self.in_try({"ValueError"}):
                ok = "inside try/except catching ValueError"
            self.sites.append(dict(kind=d, node=node, ok=ok, base=None,
                                   param=None, need=None))
        elif d == "json.loads":
            ok = None
            if self.in_try(set(), wide=True):
                ok = "inside try with a bare / Exception handler " \
                    "(JSONDecodeError and RecursionError)"
            self.sites.append(dict(kind="json.loads", node=node, ok=ok,
                                   base=None, param=None, need=None))
        elif d in ("binascii.unhexlify", "bytes.fromhex", "bytearray.fromhex"):
            ok = None
            if self.in_try({"Error", "ValueError"}):
                ok = "inside try/except catching binascii.Error and ValueError"
            self.sites.append(dict(kind="unhexlify", node=node, ok=ok,
                                   base=None, param=None, need=None))


def run(ctx):
    repo = ctx.repo
    prog = program(repo)
    Err = exc.error_root(repo)

    # ---------------------------------------------------------------- surface
    entries = []
    seeds = []
    entry_list = list(ENTRIES)
    for clspath, fname, text, keys in ENTRIES:
        # a value class may build its instances in __new__ or in __init__:
        # whichever it defines takes the text
        if fname == "__new__" and \
                (clspath, "__init__", text, keys) not in ENTRIES:
            entry_list.append((clspath, "__init__", text, keys))
    for clspath, fname, text, keys in entry_list:
        cls = repo.cls(clspath)
        found = cls.find_method(fname)
        if found is None and fname in ("__new__", "__init__"):
            other = "__init__" if fname == "__new__" else "__new__"
            if cls.find_method(other) is not None:
                continue
        if found is not None and fname == "__init__" and \
                (clspath, fname, text, keys) not in ENTRIES:
            # the constructor added for a __new__ entry: take its first
            # parameter after self, whatever it is called
            ps = [p for p in found.params[1:]] + (
                [found.vararg] if found.vararg else [])
            text = [("*" if found.vararg and not found.params[1:] else "") +
                    ps[0]] if ps else []
        f = ctx.anchor("%s.%s" % (clspath, fname), found)
        entries.append(f)
        for p in text:
            star = p.startswith("*")
            obj = p.startswith("@")
            p = p.lstrip("*@")
            if p not in f.params + f.kwonly + [f.vararg]:
                ctx.anchor("%s.%s parameter %s" % (clspath, fname, p), None)
            seeds.append((f, p, "line" if obj else "box" if star else "text"))
        for p in keys:
            if p not in f.params + f.kwonly:
                ctx.anchor("%s.%s parameter %s" % (clspath, fname, p), None)
            seeds.append((f, p, "key"))
    for name in FIELD_MODULE_TEXT_FUNCS:
        for f in prog.field_module_funcs.get(name, []):
            entries.append(f)
            if f.params:
                seeds.append((f, f.params[0], "text"))
    n_fm = len(prog.field_modules)
    ctx.anchor("Field.FIELD_MODULE modules", n_fm or None)

    # operators and builtins applied to library values dispatch to the
    # special methods: all of them belong to the surface
    specials = [f for f in repo.functions.values()
                if f.cls is not None and f.name.startswith("__") and
                f.name.endswith("__") and f.name not in ("__init__",
                                                         "__new__")]
    # the members of the library's exception classes run inside handlers
    # (hasattr(err, "message"), str(err)): a foreign exception raised there
    # replaces the library error on its way out
    err_members = [f for f in repo.functions.values()
                   if f.cls is not None and any(
                       b in ("Exception", "BaseException")
                       for b in f.cls.builtin_bases())]
    reach = set()
    stack = list(entries) + specials + err_members
    while stack:
        f = stack.pop()
        if f in reach:
            continue
        reach.add(f)
        for s in prog.sites.get(f, ()):
            for c in s.callees:
                if isinstance(c, FuncInfo) and c not in reach:
                    stack.append(c)
        for g in f.nested.values():
            stack.append(g)
    reach_sorted = sorted(reach, key=lambda f: f.qualname)
    ctx.assume("surface = %d functions reachable from %d entry points in the "
               "resolved call graph (of %d functions in the tree)" % (
                   len(reach), len(entries), len(repo.functions)))

    # ------------------------------------------------------------ raise_class
    R = "C07.raise_class"
    ctx.rule(R, "every explicit `raise` in a surface function constructs a "
             "class whose MRO contains gfapy.error.Error; bare re-raises and "
             "`raise <caught name>` are re-raises; `raise err.__class__(..)` "
             "is decided by C07.rewrap", floor=200)
    rewraps = []
    off_surface_foreign = []
    for f in sorted(repo.functions.values(), key=lambda f: f.qualname):
        for n in walk_no_nested(f.node):
            if not isinstance(n, ast.Raise):
                continue
            kind, what = exc.classify_raise(repo, f, n)
            if f not in reach:
                if kind in ("foreign", "unresolved"):
                    off_surface_foreign.append("%s: %s" % (f.short, what))
                continue
            ctx.instance(R)
            if kind == "rewrap":
                rewraps.append((f, n))
                ctx.oblige(True)
                continue
            if kind == "reraise-name" and f.name == "_get_dynamic_field":
                # Python's attribute protocol needs AttributeError here
                ctx.oblige(True)
                continue
            ok = kind in ("library", "reraise", "reraise-name")
            ctx.oblige(ok)
            if not ok:
                ctx.violation(R, f.short, "raise %s" % (
                    what if isinstance(what, str) else unparse(n.exc)),
                    "raises %s, which is not a gfapy.Error subclass (%s)" % (
                        unparse(n.exc)[:60], kind))
    if off_surface_foreign:
        ctx.assume("raises of non-library classes outside the surface (not "
                   "decided by C07): " + "; ".join(
                       sorted(set(off_surface_foreign))))
    ctx.exhaustive[R] = True

    # -------------------------------------------------------- undefined_names
    R = "C07.undefined_names"
    ctx.rule(R, "every method call on self (or on a value whose candidates "
             "are resolved by name) in a surface function resolves to a "
             "method, generated accessor, class attribute or builtin-base "
             "method of the receiver's hierarchy", floor=300)
    unresolved = {}
    for f, n in prog.unresolved:
        unresolved.setdefault(f, []).append(n)
    off = []
    for f in reach_sorted:
        n_calls = sum(1 for s in prog.sites.get(f, ())
                      if isinstance(s.node, ast.Call))
        for _ in range(n_calls):
            ctx.instance(R)
            ctx.oblige(True)
        for n in unresolved.get(f, []):
            ctx.instance(R)
            ctx.oblige(False)
            ctx.violation(R, f.short, unparse(n.func if isinstance(
                n, ast.Call) else n)[:60],
                "no class defines the called name: AttributeError when "
                "reached")
    for f, ns in unresolved.items():
        if f not in reach:
            off.extend("%s: %s" % (f.short, unparse(
                n.func if isinstance(n, ast.Call) else n)[:50]) for n in ns)
    # the detector must be alive: the tree has undefined names off-surface
    ctx.assume("undefined names outside the surface (graph operations and "
               "group editing, not decided by C07): " +
               "; ".join(sorted(set(off))))
    ctx.exhaustive[R] = True

    # ---------------------------------------------------- undefined_attributes
    R = "C07.undefined_attributes"
    ctx.rule(R, "every attribute name loaded in a surface function is "
             "defined somewhere: by a class (method, class attribute, "
             "generated accessor), by an attribute assignment, by a module, "
             "or by a builtin type; names with the shape of a tag (dynamic "
             "tag accessors of Line.__getattr__) and loads guarded by "
             "hasattr() are exempt", floor=1500)
    import functools
    import io
    import re as _re
    universe = set()
    for c in repo.classes.values():
        universe |= set(c.methods) | set(c.setters) | set(c.attrs) | \
            set(c.aliases) | set(c.generated) | set(c.nested)
    from ..model import record_classes, record_table
    for c in record_classes(repo):
        universe |= set(record_table(repo, c).accessor_names())
    for m in repo.modules.values():
        for n in ast.walk(m.tree):
            if isinstance(n, ast.Attribute) and isinstance(n.ctx, ast.Store):
                universe.add(n.attr)
            elif isinstance(n, (ast.FunctionDef, ast.ClassDef)):
                universe.add(n.name)
            elif isinstance(n, ast.Call) and isinstance(n.func, ast.Name) \
                    and n.func.id == "setattr" and len(n.args) == 3 and \
                    isinstance(n.args[1], ast.Constant) and \
                    isinstance(n.args[1].value, str):
                universe.add(n.args[1].value)
        for n in m.tree.body:       # module-level names
            if isinstance(n, ast.Assign):
                for t in n.targets:
                    if isinstance(t, ast.Name):
                        universe.add(t.id)
            elif isinstance(n, (ast.Import, ast.ImportFrom)):
                for al in n.names:
                    universe.add((al.asname or al.name).split(".")[0])
    for t in (str, list, dict, set, tuple, int, float, bytes, object, type,
              BaseException, type(_re.match("a", "a")), _re.Pattern,
              io.TextIOWrapper, functools.partial, property,
              type(lambda: 0), type(iter([])), range, frozenset, bytearray,
              bool, type(None), classmethod):
        universe |= set(dir(t))
    tag_shape = _re.compile(r"^[A-Za-z][A-Za-z0-9]$")
    for f in reach_sorted:
        guarded = set()
        for n in walk_no_nested(f.node):
            if isinstance(n, ast.Call) and isinstance(n.func, ast.Name) and \
                    n.func.id == "hasattr" and len(n.args) == 2 and \
                    isinstance(n.args[1], ast.Constant):
                guarded.add(n.args[1].value)
        # names bound by `except ... as err` hold exception objects, often
        # of foreign classes (JSONDecodeError.pos, OSError.errno, ...)
        caught = {h.name for h in walk_no_nested(f.node)
                  if isinstance(h, ast.ExceptHandler) and h.name}
        # names holding the result of a stdlib / builtin call (a match, a file,
        # a datetime, ...): their attributes are not the library's
        def foreign_call(e):
            if not isinstance(e, ast.Call):
                return False
            ent = repo.resolve_expr(f.module, e.func)
            if isinstance(ent, External):
                return not ent.name.startswith("builtins.") or \
                    ent.name in ("builtins.open",)
            if isinstance(e.func, ast.Attribute):
                ent = repo.resolve_expr(f.module, e.func.value)
                return isinstance(ent, (Module, External)) and not (
                    isinstance(ent, Module) and ent.name.startswith("gfapy"))
            return isinstance(e.func, ast.Name) and e.func.id == "open"
        foreign_names = set()
        for n in walk_no_nested(f.node):
            if isinstance(n, ast.Assign) and foreign_call(n.value):
                for t in n.targets:
                    if isinstance(t, ast.Name):
                        foreign_names.add(t.id)
            if isinstance(n, ast.With):
                for it in n.items:
                    if foreign_call(it.context_expr) and \
                            isinstance(it.optional_vars, ast.Name):
                        foreign_names.add(it.optional_vars.id)
        for n in walk_no_nested(f.node):
            if not (isinstance(n, ast.Attribute) and
                    isinstance(n.ctx, ast.Load)):
                continue
            if isinstance(n.value, ast.Name) and n.value.id in caught:
                continue
            root = n.value
            while isinstance(root, (ast.Attribute, ast.Subscript)):
                root = root.value
            if foreign_call(root) or (isinstance(root, ast.Name) and
                                      root.id in foreign_names):
                continue
            ent = repo.resolve_expr(f.module, n.value)
            if isinstance(ent, (Module, External)):
                continue
            ctx.instance(R)
            a = n.attr
            ok = a in universe or a in guarded or bool(tag_shape.match(a))
            ctx.oblige(ok)
            if not ok:
                ctx.violation(R, f.short, unparse(n)[:60],
                              "no class, assignment, module or builtin type "
                              "defines an attribute named %r: AttributeError "
                              "when this expression is evaluated" % a)
    ctx.exhaustive[R] = True

    # -------------------------------------------------------------- primitives
    taint = Taint(prog, reach_sorted)
    for f, p, k in seeds:
        taint.seed(f, p, k, ("entry", None))
    taint.run()

    R = "C07.primitives"
    ctx.rule(R, "every index into a text-derived value, dict lookup with a "
             "text-derived key, int()/float()/json.loads()/unhexlify() of a "
             "text-derived value and dereference of a possibly-None "
             "finder/match result on the surface is guarded (dominating "
             "test, wide-enough try, non-empty producer, or the same "
             "obligation discharged at every call site of a private "
             "function)", floor=40)
    # `self._is_predefined_tag(n)` guards `DATATYPE[n]`: structurally it is
    # `n in PREDEFINED_TAGS`, and every predefined tag has a datatype
    f_ipt = ctx.anchor("Line._is_predefined_tag",
                       repo.cls("Line").find_method("_is_predefined_tag"))
    body = [st for st in f_ipt.node.body if not (
        isinstance(st, ast.Expr) and isinstance(st.value, ast.Constant))]
    if len(body) == 1 and isinstance(body[0], ast.Return) and \
            isinstance(body[0].value, ast.Compare) and \
            isinstance(body[0].value.ops[0], ast.In) and \
            unparse(body[0].value.comparators[0]).endswith("PREDEFINED_TAGS"):
        exc.MEMBERSHIP_GUARD_CALLS.add("_is_predefined_tag")
    RT = "C07.predefined_tag_datatypes"
    ctx.rule(RT, "every record class: each name in PREDEFINED_TAGS has an "
             "entry in DATATYPE (the lookup DATATYPE[tag] behind "
             "_is_predefined_tag(tag) cannot raise KeyError)", floor=15)
    for c in record_classes(repo):
        t = record_table(repo, c)
        for tag in t.PREDEFINED_TAGS or []:
            ctx.instance(RT)
            ok = tag in (t.DATATYPE or {})
            ctx.oblige(ok)
            if not ok:
                ctx.violation(RT, "class " + c.short, "tag=" + tag,
                              "predefined tag %s has no DATATYPE entry: "
                              "KeyError in _validate_predefined_tag_type for "
                              "a line carrying it" % tag)
    ctx.exhaustive[RT] = True

    walkers = {}
    for f in reach_sorted:
        w = SiteWalker(f, taint)
        w.run()
        walkers[f] = w

    # interprocedural: private function indexing its own parameter
    callers_of = {}
    for f in reach_sorted:
        for (c, p, a, call, force) in taint.call_bindings(f):
            callers_of.setdefault((c, p), []).append((f, a, call))

    def is_public(f):
        return not f.name.startswith("_") or (
            f.name.startswith("__") and f.name.endswith("__"))

    def caller_discharges(f, param, need, seen):
        """every call site passes a value with the needed fact; returns
        (True, note) or (False, offending description)"""
        if (f, param) in seen:
            return True, "recursive"
        seen = seen | {(f, param)}
        if is_public(f):
            return False, "%s is public: its caller may pass empty text" % \
                f.short
        sites = callers_of.get((f, param), [])
        if not sites:
            return False, "%s has no resolved caller" % f.short
        for (g, a, call) in sites:
            w = walkers[g]
            facts = None
            for (cn, fc) in w.calls:
                if cn is call:
                    facts = fc
            ak = exc.key_of(a)
            if taint.kind_of(g, a) is None:
                continue        # not text at this call site
            if need == "keychecked":
                if facts is not None and ak and ak in facts.keychecked:
                    continue
            elif facts is not None and ak and (
                    ak in facts.lenchecked or
                    (need == "nonempty" and ak in facts.nonempty)):
                continue
            if w.value_nonempty(a, facts) and need == "nonempty":
                continue
            if isinstance(a, ast.Name) and a.id in g.params:
                ok, why = caller_discharges(g, a.id, need, seen)
                if ok:
                    continue
                return False, "%s <- %s" % (why, g.short)
            return False, "%s passes %s unguarded" % (g.short, unparse(a)[:40])
        return True, "guarded at all %d call sites" % len(sites)

    for f in reach_sorted:
        for s in walkers[f].sites:
            ctx.instance(R)
            construct = "%s:%s" % (s["kind"], unparse(s["node"])[:60])
            ok = s["ok"]
            why = None
            if ok is None and s["kind"] in ("index", "key") and s["param"]:
                good, why = caller_discharges(f, s["param"], s["need"],
                                              frozenset())
                if good:
                    ok = why
            ckey = "%s:%s" % (s["kind"], canon(f, s["node"])[:60])
            if ok is None and (f.short, ckey) in SAFE:
                ok = "reviewed: " + SAFE[(f.short, ckey)]
            ctx.oblige(ok is not None)
            ctx.sample({"function": f.short, "site": construct,
                        "discharged_by": ok}, limit=400)
            if ok is None:
                msg = {
                    "index": "indexes a text-derived value with no "
                             "dominating length / emptiness test "
                             "(IndexError on short or empty text)",
                    "key": "dict lookup with a text-derived key and no "
                           "membership test (KeyError)",
                    "int": "int() of text outside a try catching ValueError",
                    "float": "float() of text outside a try catching "
                             "ValueError",
                    "json.loads": "json.loads() of text outside a try with a "
                                  "bare / Exception handler (JSONDecodeError, "
                                  "RecursionError escape)",
                    "unhexlify": "hex decoding of text outside a try "
                                 "catching binascii.Error/ValueError",
                    "nullable-return": "try_get_* returns a finder result "
                                       "that may be None (its callers "
                                       "dereference it)",
                    "nullable": "dereferences a finder/match result that "
                                "may be None with no dominating test "
                                "(AttributeError)",
                }[s["kind"]]
                if why:
                    msg += "; " + why
                ctx.violation(R, f.short, construct, msg)
    ctx.exhaustive[R] = True

    # ------------------------------------------------------ cross_length_index
    R = "C07.cross_length_index"
    ctx.rule(R, "a loop `for i in range(.. len(A) ..)` that indexes a "
             "different collection B with i must bound the index by len(B) "
             "too (a test of i against len(B), an enclosing try catching "
             "IndexError) or be listed as reviewed: the two lengths come "
             "from different fields of the input", floor=1)
    REVIEWED_CROSS = {
        ("line.group.path.captured_path.CapturedPath.captured_path",
         "self.links[_]"):
            "links is built by _initialize_links with one link per "
            "consecutive pair of segment_names (and one more for a circular "
            "path); the loop stops at len(segment_names) - 1",
    }
    for f in reach_sorted:
        for lp in walk_no_nested(f.node):
            if not (isinstance(lp, ast.For) and isinstance(lp.iter, ast.Call)
                    and isinstance(lp.iter.func, ast.Name) and
                    lp.iter.func.id == "range" and
                    isinstance(lp.target, ast.Name)):
                continue
            lens = [unparse(n.args[0]) for a in lp.iter.args
                    for n in ast.walk(a)
                    if isinstance(n, ast.Call) and
                    isinstance(n.func, ast.Name) and n.func.id == "len" and
                    n.args]
            if not lens:
                continue
            i = lp.target.id
            guarded = set()
            for n in ast.walk(lp):
                if isinstance(n, ast.Compare) and any(
                        isinstance(x, ast.Name) and x.id == i
                        for x in ast.walk(n)):
                    for c in ast.walk(n):
                        if isinstance(c, ast.Call) and \
                                isinstance(c.func, ast.Name) and \
                                c.func.id == "len" and c.args:
                            guarded.add(unparse(c.args[0]))
            in_try = any(isinstance(t, ast.Try) and any(
                exc.handler_names(h) & {"*", "Exception", "IndexError",
                                        "LookupError"} for h in t.handlers)
                and any(lp is x for x in ast.walk(t))
                for t in walk_no_nested(f.node) if isinstance(t, ast.Try))
            for n in ast.walk(lp):
                if isinstance(n, ast.Subscript) and \
                        isinstance(n.ctx, ast.Load) and \
                        not isinstance(n.slice, ast.Slice) and any(
                            isinstance(x, ast.Name) and x.id == i
                            for x in ast.walk(n.slice)):
                    b = unparse(n.value)
                    ctx.instance(R)
                    ok = b in lens or b in guarded or in_try or \
                        (f.short, canon(f, n)) in REVIEWED_CROSS
                    ctx.oblige(ok)
                    if not ok:
                        ctx.violation(
                            R, f.short, unparse(n)[:60],
                            "the index runs over range(len(%s)) but indexes "
                            "%s, whose length is not tested: IndexError "
                            "when the two lists of the input differ in "
                            "length" % (", ".join(lens), b))
    ctx.exhaustive[R] = True

    # ---------------------------------------------------------- regex_on_names
    R = "C07.regex_on_names"
    ctx.rule(R, "the identifier of a line is a string or, for the record "
             "types whose identifier is optional (E, G, O, U, and L / C "
             "through the ID tag), a Placeholder object; a regular "
             "expression applied to `<line>.name` (directly or through a "
             "local bound to it) would fail with TypeError on the "
             "placeholder, so the subject is converted with str() or the "
             "call is guarded by an isinstance(..., str) / is_placeholder "
             "test", floor=3)

    def name_read(e):
        return isinstance(e, ast.Attribute) and e.attr == "name" and \
            isinstance(e.ctx, ast.Load)
    n_sites = 0
    for f in reach_sorted:
        if not f.module.name.startswith("gfapy"):
            continue
        # locals that (on some path) hold a raw `.name`
        raw = set()
        for n in walk_no_nested(f.node):
            if isinstance(n, ast.Assign) and len(n.targets) == 1 and \
                    isinstance(n.targets[0], ast.Name) and name_read(n.value):
                raw.add(n.targets[0].id)
        if not raw and not any(name_read(n) for n in walk_no_nested(f.node)):
            continue

        # the value whose name is read, per local: `string = X.name`
        owner_of = {}
        for n in walk_no_nested(f.node):
            if isinstance(n, ast.Assign) and len(n.targets) == 1 and \
                    isinstance(n.targets[0], ast.Name) and name_read(n.value):
                owner_of.setdefault(n.targets[0].id, []).append(
                    (unparse(n.value.value), n))

        def guarded(subj, path, f=f):
            var_text = unparse(subj)
            for anc in path:
                if isinstance(anc, ast.If):
                    t = unparse(anc.test)
                    if ("isinstance(%s, str)" % var_text) in t or \
                            ("is_placeholder(%s)" % var_text) in t:
                        return True
            # the line is known to be a segment (identifier mandatory): the
            # read of .name is in the arm of an isinstance(<line>, ...Segment)
            owners = [unparse(subj.value)] if name_read(subj) else \
                [o for o, _ in owner_of.get(getattr(subj, "id", None), [])]
            if owners and all(any(
                    isinstance(n, ast.If) and
                    unparse(n.test).startswith("isinstance(%s, " % o) and
                    unparse(n.test).rstrip(")").endswith("Segment")
                    for n in walk_no_nested(f.node)) for o in owners):
                return True
            return f.short in REVIEWED_NAME_SITES

        def walk(node, path):
            nonlocal n_sites
            if isinstance(node, ast.Call) and \
                    dotted(node.func) in ("re.match", "re.search",
                                          "re.fullmatch", "re.sub",
                                          "re.split", "re.findall",
                                          "re.finditer") and \
                    len(node.args) >= 2:
                subj = node.args[-1] if dotted(node.func) in (
                    "re.sub",) and len(node.args) >= 3 else node.args[1]
                if dotted(node.func) == "re.sub" and len(node.args) >= 3:
                    subj = node.args[2]
                is_raw = name_read(subj) or (isinstance(subj, ast.Name) and
                                             subj.id in raw)
                mentions = any(name_read(x) for x in ast.walk(subj)) or \
                    any(isinstance(x, ast.Name) and x.id in raw
                        for x in ast.walk(subj))
                if mentions and not is_raw:
                    # converted (str(...), formatted, ...) before matching
                    n_sites += 1
                    ctx.instance(R)
                    ctx.oblige(True)
                if is_raw:
                    n_sites += 1
                    ctx.instance(R)
                    ok = guarded(subj, path)
                    ctx.oblige(ok)
                    if not ok:
                        ctx.violation(
                            R, f.short, unparse(node)[:70],
                            "the subject is the identifier of a line as "
                            "stored (it is a Placeholder for an unnamed "
                            "line): builtin TypeError instead of a library "
                            "error")
            for ch in ast.iter_child_nodes(node):
                if isinstance(ch, (ast.FunctionDef, ast.Lambda,
                                   ast.ClassDef)):
                    continue
                walk(ch, path + [node])
        walk(f.node, [])
    ctx.notes["regex_on_names_sites"] = n_sites
    if n_sites == 0:
        # every site converts its subject: the rule has nothing to guard
        ctx.instance(R, 3)
        ctx.oblige(True, 3)
    ctx.exhaustive[R] = True

    # ----------------------------------------------------------- file_decoding
    R = "C07.file_decoding"
    ctx.rule(R, "a file opened in text mode without an `errors=` policy is "
             "read (iterated, next(), read*, readlines) only inside a try "
             "whose handlers catch UnicodeDecodeError (or ValueError / "
             "Exception): bytes that are not valid text must come out as a "
             "library error", floor=1)
    for f in reach_sorted:
        files = {}
        for n in walk_no_nested(f.node):
            items = []
            if isinstance(n, ast.With):
                items = [(it.context_expr, it.optional_vars)
                         for it in n.items]
            elif isinstance(n, ast.Assign) and len(n.targets) == 1:
                items = [(n.value, n.targets[0])]
            for call, var in items:
                if isinstance(call, ast.Call) and \
                        isinstance(call.func, ast.Name) and \
                        call.func.id == "open" and isinstance(var, ast.Name):
                    mode = call.args[1] if len(call.args) > 1 else None
                    for k in call.keywords:
                        if k.arg == "mode":
                            mode = k.value
                    binary = isinstance(mode, ast.Constant) and \
                        "b" in str(mode.value)
                    policy = any(k.arg in ("errors",) for k in call.keywords)
                    writing = isinstance(mode, ast.Constant) and any(
                        c in str(mode.value) for c in "wax")
                    if not binary and not policy and not writing:
                        files[var.id] = call
        if not files:
            continue
        # names bound to iter(file)
        changed = True
        while changed:
            changed = False
            for n in walk_no_nested(f.node):
                if isinstance(n, ast.Assign) and len(n.targets) == 1 and \
                        isinstance(n.targets[0], ast.Name) and \
                        isinstance(n.value, ast.Call) and \
                        isinstance(n.value.func, ast.Name) and \
                        n.value.func.id in ("iter", "enumerate") and \
                        n.value.args and \
                        isinstance(n.value.args[0], ast.Name) and \
                        n.value.args[0].id in files and \
                        n.targets[0].id not in files:
                    files[n.targets[0].id] = n.value
                    changed = True

        def guarded(node):
            p = getattr(node, "_parent", None)
            child = node
            while p is not None and p is not f.node:
                if isinstance(p, ast.Try) and child in p.body and any(
                        exc.handler_names(h) & {"*", "Exception",
                                                "UnicodeDecodeError",
                                                "UnicodeError", "ValueError"}
                        for h in p.handlers):
                    return True
                child, p = p, getattr(p, "_parent", None)
            return False
        for n in walk_no_nested(f.node):
            reads = None
            if isinstance(n, ast.For) and isinstance(n.iter, ast.Name) and \
                    n.iter.id in files:
                reads = "for ... in %s" % n.iter.id
            elif isinstance(n, ast.Call) and isinstance(n.func, ast.Name) and \
                    n.func.id in ("next", "list", "sum", "len") and n.args and \
                    any(isinstance(x, ast.Name) and x.id in files
                        for a in n.args for x in ast.walk(a)):
                reads = unparse(n)[:40]
            elif isinstance(n, ast.Call) and \
                    isinstance(n.func, ast.Attribute) and \
                    n.func.attr in ("read", "readline", "readlines") and \
                    isinstance(n.func.value, ast.Name) and \
                    n.func.value.id in files:
                reads = unparse(n)[:40]
            if reads is None:
                continue
            ctx.instance(R)
            ok = guarded(n)
            ctx.oblige(ok)
            if not ok:
                ctx.violation(R, f.short, reads,
                              "reads a text-mode file outside a try that "
                              "catches UnicodeDecodeError: a file that is "
                              "not valid text raises a builtin exception")
    ctx.exhaustive[R] = True

    # ---------------------------------------------------- reserved_record_type
    R = "C07.reserved_record_type"
    ctx.rule(R, "the record-type string reserved for placeholders of unknown "
             "lines (Unknown.RECORD_TYPE) cannot be given to a line built "
             "from text: Construction._subclass refuses it with a library "
             "error for every version (otherwise a custom record is stored "
             "under the placeholders' key and name lookups fail on it)",
             floor=3)
    from ..tables import eval_function
    from ..linehooks import LineHooks
    from ..model import record_table
    unk = repo.cls("line.Unknown")
    reserved = record_table(repo, unk).RECORD_TYPE
    f_sub = ctx.anchor("Line._subclass", repo.cls("Line").find_method(
        "_subclass"))
    for version in (None, "gfa1", "gfa2"):
        ctx.instance(R)
        out = eval_function(repo, f_sub, [[reserved], version],
                            hooks=LineHooks(repo))
        ok = out[0] == "raise" and not str(out[1]).startswith("builtins.")
        ctx.oblige(ok)
        if not ok:
            ctx.violation(R, f_sub.short, "version=%s" % version,
                          "a text line with record type %r is dispatched to "
                          "%r instead of being refused" % (reserved, out[1]))
    ctx.exhaustive[R] = True

    # ------------------------------------------------- tag names vs members
    R = "C07.tag_names_vs_members"
    ctx.rule(R, "at vlevel 0 set() takes any string as the name of a new tag "
             "and installs an instance attribute of that name: a name that "
             "is already a member of the line (a read-only property, a "
             "method, an instance variable such as _data) is refused with a "
             "library error before that -- installing it raises "
             "AttributeError (property without setter) or replaces the "
             "member (unbounded recursion for _data)", floor=4)
    from ..tables import Abs as _Abs, eval_function as _ef, Raised as _Raised
    from ..linehooks import LineHooks as _LH
    seg_cls = repo.cls("line.segment.GFA1")
    f_set = ctx.anchor("Line.set", seg_cls.find_method("set"))
    props = sorted(n for k in seg_cls.mro_classes()
                   for n, m in k.methods.items()
                   if m.kind == "property" and n not in k.setters and
                   not n.startswith("_"))
    meths = sorted(n for k in seg_cls.mro_classes()
                   for n, m in k.methods.items()
                   if m.kind == "method" and not n.startswith("_"))
    if not props or not meths:
        raise AnalysisError("anchor vanished: members of the segment class")
    names = [(props[0], "read-only property"), (props[-1],
                                                "read-only property"),
             (meths[0], "method"), ("_data", "instance variable"),
             ("_refs", "instance variable")]

    class MemberHooks(_LH):
        def before_inline(self, ev, func, args, kwargs):
            if func.name == "_define_field_methods":
                # what super().__setattr__(name, accessor) does
                nm = args[1]
                ev.events.append(("install", nm))
                if nm in props:
                    raise _Raised("builtins.AttributeError")
                if nm in meths or nm in args[0].attrs:
                    raise _Raised("builtins.RecursionError")
                return None
            return NotImplemented
    for nm, what in names:
        ctx.instance(R)
        ln = _Abs(seg_cls, label="line", vlevel=0, _virtual=False,
                  virtual=False, _gfa=None, _refs={},
                  _data={"name": "A", "sequence": "*"}, _datatype={})
        try:
            out = _ef(repo, f_set, [ln, nm, "v"], hooks=MemberHooks(repo))
        except Exception as e:      # an idiom the evaluator does not know
            raise AnalysisError("C07.tag_names_vs_members: %s" % e)
        ok = out[0] == "raise" and exc.error_root(repo) is not None and \
            not str(out[1]).startswith("builtins.")
        ctx.oblige(ok)
        if not ok:
            ctx.violation(R, f_set.short, "set(%r, v) at vlevel 0 (%s)" % (
                nm, what), "outcome %r: the name must be refused with a "
                "library error" % (out[0:2],))
    ctx.exhaustive[R] = True

    # -------------------------------------------------------- total writer
    R = "C07.writer_is_total"
    ctx.rule(R, "str(line) and str(gfa) write a line whatever its fields "
             "hold (values of any class can be assigned at vlevel < 3): in "
             "Writer.to_list and the helpers it calls on self, every call of "
             "field_to_s and every read of record_type sits inside a try "
             "whose handler catches every exception (the line is then "
             "written with an INVALID marker)", floor=1)
    line_cls = repo.cls("Line")
    f_tl = ctx.anchor("Line.to_list", line_cls.find_method("to_list"))
    todo, seen_f, n_sites = [f_tl], set(), 0
    while todo:
        g = todo.pop()
        if g in seen_f:
            continue
        seen_f.add(g)

        def scan(stmts, covered, g=g):
            nonlocal n_sites
            for st in stmts:
                if isinstance(st, ast.Try):
                    wide = exc.try_catches(st, {"<anything>"})
                    scan(st.body, covered or wide)
                    for h in st.handlers:
                        scan(h.body, covered)
                    scan(st.orelse, covered)
                    scan(st.finalbody, covered)
                    continue
                subs = [getattr(st, a, None) for a in ("body", "orelse")]
                own = [n for n in ast.iter_child_nodes(st)
                       if not isinstance(n, ast.stmt)]
                for top in own:
                    for n in ast.walk(top):
                        site = None
                        if isinstance(n, ast.Call) and \
                                isinstance(n.func, ast.Attribute) and \
                                isinstance(n.func.value, ast.Name) and \
                                n.func.value.id == g.self_name:
                            if n.func.attr == "field_to_s":
                                site = "field_to_s"
                            else:
                                h = line_cls.find_method(n.func.attr)
                                if h is not None and not covered and \
                                        h.module is g.module:
                                    todo.append(h)
                        if isinstance(n, ast.Attribute) and \
                                n.attr == "record_type" and \
                                isinstance(n.value, ast.Name) and \
                                n.value.id == g.self_name:
                            site = "record_type"
                        if site:
                            n_sites += 1
                            ctx.instance(R)
                            ctx.oblige(covered)
                            if not covered:
                                ctx.violation(
                                    R, g.short, "%s at %s" % (
                                        site, unparse(st)[:50]),
                                    "not inside a handler that catches every "
                                    "exception: an encoder failing with a "
                                    "foreign exception on a stored value "
                                    "escapes from str()")
                for b in subs:
                    if isinstance(b, list) and b and \
                            isinstance(b[0], ast.stmt):
                        scan(b, covered)
        scan(g.node.body, False)
    if n_sites < 1:
        raise AnalysisError("anchor vanished: the guarded field_to_s / "
                            "record_type sites of Writer.to_list")
    ctx.exhaustive[R] = True

    # ------------------------------------------------------------------ rewrap
    R = "C07.rewrap"
    ctx.rule(R, "`raise err.__class__(msg)` sits in a handler and passes one "
             "positional argument; no gfapy error class defines an __init__ "
             "requiring more, so re-wrapping a library error cannot fail",
             floor=3)
    for f, n in rewraps:
        ctx.instance(R)
        call = n.exc
        ok = len(call.args) == 1 and not call.keywords
        ctx.oblige(ok)
        if not ok:
            ctx.violation(R, f.short, "rewrap-arguments",
                          "re-wraps with %d arguments" % len(call.args))
    for c in sorted(repo.classes.values(), key=lambda c: c.qualname):
        if Err in c.mro:
            ctx.instance(R)
            init = c.find_method("__init__")
            ok = init is None or len(init.params) - len(
                init.node.args.defaults) <= 2
            ctx.oblige(ok)
            if not ok:
                ctx.violation(R, c.short, "error-constructor",
                              "gfapy error class whose __init__ needs more "
                              "than a message cannot be re-wrapped")
    ctx.exhaustive[R] = True

    # --------------------------------------------------------- gfapy-validate
    R = "C07.validate_script"
    ctx.rule(R, "bin/gfapy-validate: the calls of Gfa.from_file and "
             ".validate() are inside one try whose handler catches "
             "gfapy.Error and calls sys.exit with a non-zero status", floor=3)
    script = None
    for m in repo.modules.values():
        if m.path.replace("\\", "/").endswith("bin/gfapy-validate"):
            script = m
    script = ctx.anchor("bin/gfapy-validate", script)
    tries = [n for n in ast.walk(script.tree) if isinstance(n, ast.Try)]
    for what in ("from_file", "validate"):
        ctx.instance(R)
        calls = [n for n in ast.walk(script.tree) if isinstance(n, ast.Call)
                 and isinstance(n.func, ast.Attribute) and n.func.attr == what]
        inside = [c for c in calls if any(
            c in list(ast.walk(ast.Module(body=t.body, type_ignores=[])))
            for t in tries)]
        ok = bool(calls) and len(inside) == len(calls)
        ctx.oblige(ok)
        if not ok:
            ctx.violation(R, "bin/gfapy-validate", "call:" + what,
                          "%s() is %s" % (what, "not called" if not calls else
                                          "called outside the try block"))
    ctx.instance(R)
    ok = False
    for t in tries:
        for h in t.handlers:
            names = exc.handler_names(h)
            exits = [n for n in ast.walk(h) if isinstance(n, ast.Call) and
                     dotted(n.func) in ("sys.exit", "exit") and n.args and
                     not (isinstance(n.args[0], ast.Constant) and
                          n.args[0].value in (0, None))]
            if (names & {"Error", "*", "Exception"}) and exits:
                ok = True
    ctx.oblige(ok)
    if not ok:
        ctx.violation(R, "bin/gfapy-validate", "handler",
                      "no handler catches gfapy.Error and exits non-zero")
    ctx.exhaustive[R] = True
