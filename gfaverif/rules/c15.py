"""C15 -- segment multiplication makes faithful copies and splits the counts
(weak partial).

Decided clauses: (a) the factor dispatch of multiply(): negative refused with
ArgumentError before any effect, 1 returns without any effect, 0 removes the
segment, >= 2 divides the counts, computes the copy names and clones once per
name, then distributes links only when asked; (b) lines put into a set are
hashable (every __hash__ returns on all paths); (c) the count tags divided are
exactly KC, RC, FC on the segment and on each of its dovetails and
containments, circular edges once; (d) copies are made with clone(), connected
through connect(), each edge cloned once, and re-pointed through the
from/to accessors -- whose setters write the side their getters read; copy
names skip identifiers in use; (e) unknown distribution policies are refused
and links are removed while iterating a copy.
Not decided: equality of the copies' neighbourhoods, which links a copy keeps
under distribution, count arithmetic on values.
"""
import ast
import itertools

from ..model import AnalysisError, unparse, walk_no_nested, record_classes
from ..tables import Abs, eval_function, Unsupported
from ..linehooks import LineHooks
from .refgraph import SeqHooks
from .common import is_library_error


def run(ctx):
    repo = ctx.repo
    gfacls = repo.cls("Gfa")
    S = repo.cls("line.segment.GFA1")
    L = repo.cls("line.edge.Link")

    R = "C15.factor_dispatch"
    ctx.rule(R, "Multiplication.multiply over the factor: < 0 raises "
             "ArgumentError and does nothing; 1 returns the Gfa and does "
             "nothing; 0 removes the segment; >= 2 divides counts, computes "
             "copy names when none are given, clones the segment once per "
             "copy name, distributes links only when a policy is given",
             floor=8)
    f_m = ctx.anchor("Gfa.multiply", gfacls.find_method("multiply"))
    stubs = ["rm", "is_cut_segment", "_segment_and_segment_name",
             "__divide_segment_and_connection_counts", "_compute_copy_names",
             "__clone_segment_and_connections", "_distribute_links"]
    seg = Abs(S, label="seg")
    for factor, names, distribute in itertools.product(
            [-1, 0, 1, 2, 3], [None, "given"], [None, "auto"]):
        ctx.instance(R)
        g = Abs(gfacls, label="gfa")
        cn = None
        if names == "given" and factor >= 2:
            cn = ["c%d" % i for i in range(factor - 1)]

        class MH(SeqHooks):
            pass
        h = MH(repo, stubs, {
            "_segment_and_segment_name": (seg, "s"),
            "is_cut_segment": False,
            "_compute_copy_names": ["n%d" % i for i in range(max(factor - 1,
                                                                 0))]})
        out = eval_function(repo, f_m, [g, "s", factor],
                            {"copy_names": cn, "distribute": distribute},
                            hooks=h)
        evs = [e for e in out[2] if e[0] != "store"]
        names_ev = [e[0] for e in evs]
        cell = "factor=%d,copy_names=%s,distribute=%s" % (factor, names,
                                                          distribute)
        if factor < 0:
            ok = out[0] == "raise" and str(out[1]).endswith("ArgumentError") \
                and not out[2]
        elif factor == 1:
            ok = out[0] == "return" and out[1] is g and not out[2]
        elif factor == 0:
            ok = out[0] == "return" and "rm" in names_ev and \
                "__clone_segment_and_connections" not in names_ev
        else:
            clones = [e for e in evs
                      if e[0] == "__clone_segment_and_connections"]
            want_names = cn if cn is not None else \
                ["n%d" % i for i in range(factor - 1)]
            ok = out[0] == "return" and \
                names_ev.count("__divide_segment_and_connection_counts") == 1 \
                and [c[2] for c in clones] == want_names and \
                (("_compute_copy_names" in names_ev) == (cn is None)) and \
                (("_distribute_links" in names_ev) == (distribute is not None)) \
                and names_ev.index("__divide_segment_and_connection_counts") \
                < names_ev.index("__clone_segment_and_connections")
        ctx.oblige(ok)
        if not ok:
            ctx.violation(R, f_m.short, cell,
                          "outcome %r, steps %r" % (out[0:2], names_ev))
    ctx.exhaustive[R] = True

    # ------------------------------------------------------------------
    R = "C15.hashable_lines"
    ctx.rule(R, "every __hash__ defined in the library returns a value on "
             "every path (lines are put into sets by the multiplication and "
             "by the graph operations)", floor=2)
    for f in sorted(repo.functions.values(), key=lambda f: f.qualname):
        if f.name != "__hash__" or f.cls is None:
            continue
        ctx.instance(R)
        ok = returns_on_all_paths(f.node.body)
        ctx.oblige(ok)
        if not ok:
            ctx.violation(R, f.short, "__hash__",
                          "__hash__ can fall off its end and return None: "
                          "putting the object in a set raises a builtin "
                          "TypeError")
    ctx.exhaustive[R] = True

    # ------------------------------------------------------------------
    R = "C15.count_division"
    ctx.rule(R, "__divide_counts divides exactly the tags KC, RC, FC that are "
             "present, by the factor (integer division); "
             "__divide_segment_and_connection_counts applies it to the "
             "segment and to every dovetail and containment, a circular edge "
             "(listed twice) once", floor=5)
    f_dc = ctx.anchor("Multiplication.__divide_counts",
                      gfacls.find_method("__divide_counts"))
    for present in (["KC", "RC", "FC", "xx"], ["RC"], []):
        ctx.instance(R)
        ln = Abs(S, label="line", tagnames=list(present),
                 _data={t: 100 for t in present})

        class DH(LineHooks):
            def method(self, ev, base, name, args, kwargs, node):
                if name == "set" and isinstance(base, Abs):
                    ev.events.append(("set", args[0], args[1]))
                    return None
                return super().method(ev, base, name, args, kwargs, node)
        out = eval_function(repo, f_dc, [Abs(gfacls, label="gfa"), ln, 3],
                            hooks=DH(repo))
        got = sorted((e[1], e[2]) for e in out[2] if e[0] == "set")
        want = sorted((t, 33) for t in present if t in ("KC", "RC", "FC"))
        ok = out[0] == "return" and got == want
        ctx.oblige(ok)
        if not ok:
            ctx.violation(R, f_dc.short, "tags=%r" % (present,),
                          "sets %r, expected %r" % (got, want))
    f_ds = ctx.anchor("Multiplication.__divide_segment_and_connection_counts",
                      gfacls.find_method(
                          "__divide_segment_and_connection_counts"))
    for circular in (False, True):
        ctx.instance(R)
        l1 = Abs(L, label="l1", __circ=False)
        l2 = Abs(L, label="l2", __circ=circular)
        c1 = Abs(L, label="c1", __circ=False)
        sg = Abs(S, label="seg", dovetails=[l1, l2, l2] if circular
                 else [l1, l2], containments=[c1])

        class CH(SeqHooks):
            def method(self, ev, base, name, args, kwargs, node):
                if name == "is_circular" and isinstance(base, Abs):
                    return base.attrs.get("__circ", False)
                return super().method(ev, base, name, args, kwargs, node)

            def function(self, ev, node, args, kwargs):
                return super().function(ev, node, args, kwargs)
        out = eval_function(repo, f_ds, [Abs(gfacls, label="gfa"), sg, 2],
                            hooks=HashHooks(repo, ["__divide_counts"]))
        got = sorted(e[1] for e in out[2] if e[0] == "__divide_counts")
        want = sorted(["seg", "l1", "l2", "c1"])
        ok = out[0] == "return" and got == want
        ctx.oblige(ok)
        if not ok:
            ctx.violation(R, f_ds.short, "circular_edge=%s" % circular,
                          "divides the counts of %r, expected each of %r "
                          "once" % (got, want))
    ctx.exhaustive[R] = True

    # ------------------------------------------------------------------
    R = "C15.clone_and_repoint"
    ctx.rule(R, "__clone_segment_and_connections: the copy is segment.clone() "
             "renamed and connected; every dovetail and containment is cloned "
             "once (circular edges are listed twice), the side(s) naming the "
             "original are re-pointed to the copy, and the clone is "
             "connected; the GFA1-style accessors of E lines write, through "
             "their setters, the same side their getters read", floor=8)
    f_cl = ctx.anchor("Multiplication.__clone_segment_and_connections",
                      gfacls.find_method("__clone_segment_and_connections"))
    for layout in ("from", "to", "both", "circular-listed-twice"):
        ctx.instance(R)
        made = []

        class KH(LineHooks):
            def method(self, ev, base, name, args, kwargs, node):
                if name == "clone" and isinstance(base, Abs):
                    c = Abs(base.cls, label="clone(%s)" % base.label,
                            **{k: v for k, v in base.attrs.items()
                               if k in ("from_segment", "to_segment", "name")})
                    made.append(c)
                    return c
                if name == "connect" and isinstance(base, Abs):
                    ev.events.append(("connect", base.label))
                    return None
                return super().method(ev, base, name, args, kwargs, node)
        fs, ts = {"from": ("s", "x"), "to": ("x", "s"), "both": ("s", "s"),
                  "circular-listed-twice": ("s", "s")}[layout]
        e1 = Abs(L, label="e1", from_segment=fs, to_segment=ts)
        other = Abs(L, label="e2", from_segment="y", to_segment="s")
        dov = [e1, other] + ([e1] if layout == "circular-listed-twice" else [])
        sg = Abs(S, label="seg", name="s", dovetails=dov, containments=[])
        out = eval_function(repo, f_cl, [Abs(gfacls, label="gfa"), sg, "s*2"],
                            hooks=KH(repo))
        clones = {c.label: c for c in made}
        c1 = clones.get("clone(e1)")
        ok = out[0] == "return" and \
            sorted(c.label for c in made) == ["clone(e1)", "clone(e2)",
                                              "clone(seg)"] and \
            clones["clone(seg)"].attrs.get("name") == "s*2" and \
            c1.attrs["from_segment"] == ("s*2" if fs == "s" else fs) and \
            c1.attrs["to_segment"] == ("s*2" if ts == "s" else ts) and \
            clones["clone(e2)"].attrs["to_segment"] == "s*2" and \
            clones["clone(e2)"].attrs["from_segment"] == "y" and \
            sorted(e[1] for e in out[2] if e[0] == "connect") == \
            ["clone(e1)", "clone(e2)", "clone(seg)"]
        ctx.oblige(ok)
        if not ok:
            ctx.violation(
                R, f_cl.short, "edge_side=%s" % layout,
                "clones %r with fields %r, connects %r" % (
                    sorted(c.label for c in made),
                    {k: (c.attrs.get("from_segment"), c.attrs.get(
                        "to_segment")) for k, c in clones.items()},
                    [e[1] for e in out[2] if e[0] == "connect"]))
    # getter / setter agreement of simple accessor pairs
    n_pairs = 0
    for c in sorted(repo.classes.values(), key=lambda c: c.qualname):
        for name, setter in sorted(c.setters.items()):
            getter = c.methods.get(name)
            if getter is None or getter.kind != "property":
                continue
            g_expr = single_return(getter)
            s_target = single_store(setter)
            if g_expr is None or s_target is None:
                continue
            n_pairs += 1
            ctx.instance(R)
            ok = unparse(g_expr) == unparse(s_target)
            ctx.oblige(ok)
            if not ok:
                ctx.violation(R, setter.short, "accessor=%s" % name,
                              "the getter reads %s but the setter writes %s" %
                              (unparse(g_expr), unparse(s_target)))
    ctx.notes["accessor_pairs_compared"] = n_pairs
    ctx.exhaustive[R] = True

    # ------------------------------------------------------------------
    R = "C15.names_and_policies"
    ctx.rule(R, "_compute_copy_names yields factor-1 names of the form "
             "name*i skipping identifiers in use; _select_distribute_end "
             "refuses an unknown policy, returns None for 'off' and the end "
             "itself for L/R; _distribute_links iterates a copy of the list "
             "it removes from", floor=8)
    f_cn = ctx.anchor("Multiplication._compute_copy_names",
                      gfacls.find_method("_compute_copy_names"))
    for used, factor, want in (([], 2, ["s*2"]), ([], 4, ["s*2", "s*3", "s*4"]),
                               (["s*2"], 3, ["s*3", "s*4"]),
                               (["s*3"], 3, ["s*2", "s*4"])):
        ctx.instance(R)

        class NH(LineHooks):
            def function(self, ev, node, args, kwargs):
                d = unparse(node.func)
                if d == "re.search":
                    import re
                    return re.search(args[0], args[1])
                return super().function(ev, node, args, kwargs)
        g = Abs(gfacls, label="gfa", names=list(used))
        try:
            out = eval_function(repo, f_cn, [g, "s", factor], hooks=NH(repo))
            ok = out[0] == "return" and out[1] == want
            got = out[1]
        except Unsupported as e:
            raise AnalysisError(str(e))
        ctx.oblige(ok)
        if not ok:
            ctx.violation(R, f_cn.short, "in_use=%r,factor=%d" % (used, factor),
                          "gives %r, expected %r" % (got, want))
    f_sd = ctx.anchor("Multiplication._select_distribute_end",
                      gfacls.find_method("_select_distribute_end"))
    for pol, want in (("off", None), ("L", "L"), ("R", "R"),
                      ("bogus", "!ArgumentError")):
        ctx.instance(R)
        out = eval_function(repo, f_sd, [Abs(gfacls, label="gfa"), pol, "s", 2],
                            hooks=LineHooks(repo))
        if isinstance(want, str) and want.startswith("!"):
            ok = out[0] == "raise" and str(out[1]).endswith(want[1:])
        else:
            ok = out[0] == "return" and out[1] == want
        ctx.oblige(ok)
        if not ok:
            ctx.violation(R, f_sd.short, "policy=%s" % pol,
                          "outcome %r" % (out[0:2],))
    ctx.exhaustive[R] = True

    # ------------------------------------------------------------------
    R = "C15.distribution_covers"
    ctx.rule(R, "_distribute_links: for every list of neighbour ends on the "
             "distributed end (up to 5 links, parallel links to one "
             "neighbour included) and every factor 2..4, each former "
             "neighbour end keeps a link to the segment or to one of its "
             "copies",
             floor=200)
    f_dl = ctx.anchor("Multiplication._distribute_links",
                      gfacls.find_method("_distribute_links"))
    SE = repo.cls("SegmentEnd")
    Lk = repo.cls("line.edge.Link")

    class DH(LineHooks):
        def __init__(self, repo, sigs):
            super().__init__(repo)
            self.sigs = sigs
            self.removed = []
            self.segs = {}

        def before_inline(self, ev, func, args, kwargs):
            if func.name == "_select_distribute_end":
                return "R"
            return NotImplemented

        def method(self, ev, base, name, args, kwargs, node):
            if isinstance(base, Abs) and base.label == "gfa" and \
                    name == "segment":
                sn = args[0]
                if sn not in self.segs:
                    self.segs[sn] = Abs(None, label="seg:" + sn, links=[
                        Abs(Lk, label="%s#%d" % (sn, j), sig=sig, owner=sn,
                            idx=j) for j, sig in enumerate(self.sigs)])
                return self.segs[sn]
            if isinstance(base, Abs) and name == "dovetails_of_end":
                return base.attrs["links"]
            if isinstance(base, Abs) and name == "other_end":
                return Abs(SE, label=base.attrs["sig"], sig=base.attrs["sig"])
            if isinstance(base, Abs) and name == "disconnect":
                self.removed.append((base.attrs["owner"], base.attrs["idx"]))
                return None
            return super().method(ev, base, name, args, kwargs, node)

        def construct(self, ev, cls, args, kwargs):
            if cls is SE:
                return Abs(SE, label="end")
            return super().construct(ev, cls, args, kwargs)

        def to_str(self, ev, v):
            if isinstance(v, Abs) and "sig" in v.attrs:
                return v.attrs["sig"]
            return super().to_str(ev, v)
    max_n, factors = (6, (2, 3, 4, 5)) if ctx.tier == "thorough" \
        else (5, (2, 3, 4))
    for n in range(1, max_n + 1):
        # neighbour lists up to renaming: first occurrence order a, b, c...
        lists = set()
        for combo in itertools.product("abcdef"[:n], repeat=n):
            ren, out_l = {}, []
            for c in combo:
                ren.setdefault(c, "abcdef"[len(ren)])
                out_l.append(ren[c])
            lists.add(tuple(out_l))
        for sigs in sorted(lists):
            for factor in factors:
                ctx.instance(R)
                names = ["s"] + ["s*%d" % i for i in range(2, factor + 1)]
                dh = DH(repo, list(sigs))
                g = Abs(gfacls, label="gfa")
                out = eval_function(repo, f_dl, [g, "R", "s", names[1:],
                                                 factor], hooks=dh)
                kept = {sn: [sigs[j] for j in range(len(sigs))
                             if (sn, j) not in dh.removed] for sn in names}
                covered = set()
                for sn in names:
                    covered |= set(kept[sn])
                lost = sorted(set(sigs) - covered)
                ok = out[0] == "return" and not lost
                ctx.oblige(ok)
                if not ok:
                    ctx.violation(
                        R, f_dl.short, "neighbours=%s,factor=%d" % (
                            "".join(sigs), factor),
                        "outcome %s; neighbour end(s) %s keep no link to the "
                        "segment or any copy (kept per copy: %r)" % (
                            out[0], lost, kept))
    ctx.exhaustive[R] = True


class HashHooks(SeqHooks):
    """abstract lines can be members of sets (identity hash)"""

    def method(self, ev, base, name, args, kwargs, node):
        if name == "is_circular" and isinstance(base, Abs):
            return base.attrs.get("__circ", False)
        return super().method(ev, base, name, args, kwargs, node)


def returns_on_all_paths(body):
    """every path through the statement list ends in return <value> / raise"""
    for st in body:
        if isinstance(st, ast.Return):
            return st.value is not None
        if isinstance(st, ast.Raise):
            return True
        if isinstance(st, ast.If):
            if st.orelse and returns_on_all_paths(st.body) and \
                    returns_on_all_paths(st.orelse):
                return True
        if isinstance(st, ast.Try):
            if returns_on_all_paths(st.body) and all(
                    returns_on_all_paths(h.body) for h in st.handlers):
                return True
    return False


def single_return(f):
    body = [s for s in f.node.body if not (
        isinstance(s, ast.Expr) and isinstance(s.value, ast.Constant))]
    if len(body) == 1 and isinstance(body[0], ast.Return) and \
            body[0].value is not None:
        return body[0].value
    return None


def single_store(f):
    body = [s for s in f.node.body if not (
        isinstance(s, ast.Expr) and isinstance(s.value, ast.Constant))]
    if len(body) == 1 and isinstance(body[0], ast.Assign) and \
            len(body[0].targets) == 1 and len(f.params) == 2 and \
            isinstance(body[0].value, ast.Name) and \
            body[0].value.id == f.params[1]:
        return body[0].targets[0]
    return None
