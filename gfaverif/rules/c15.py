"""C15 -- segment multiplication makes faithful copies and splits the counts
(weak partial).

Decided clauses: (a) the factor dispatch of multiply(): negative refused with
ArgumentError before any effect, 1 returns without any effect, 0 removes the
segment, >= 2 divides the counts, computes the copy names and clones once per
name, then distributes links only when asked; (b) lines put into a set are
hashable (every __hash__ returns on all paths); (c) the count tags divided are
exactly KC, RC, FC on the segment and on each of its dovetails and
containments, circular edges once; (d) copies are made with clone(), connected
through connect(), each edge cloned once, and re-pointed through the
from/to accessors -- whose setters write the side their getters read; copy
names skip identifiers in use; (e) unknown distribution policies are refused
and links are removed while iterating a copy.
Not decided: equality of the copies' neighbourhoods, which links a copy keeps
under distribution, count arithmetic on values.
"""
import ast
import itertools

from ..model import (AnalysisError, unparse, walk_no_nested, record_classes,
                     record_table)
from ..tables import Abs, eval_function, Unsupported
from ..linehooks import LineHooks
from .refgraph import SeqHooks
from .common import is_library_error


def run(ctx):
    repo = ctx.repo
    gfacls = repo.cls("Gfa")
    S = repo.cls("line.segment.GFA1")
    L = repo.cls("line.edge.Link")

    R = "C15.factor_dispatch"
    ctx.rule(R, "Multiplication.multiply over the factor: < 0 raises "
             "ArgumentError and does nothing; 1 returns the Gfa and does "
             "nothing; 0 removes the segment; >= 2 divides counts, computes "
             "copy names when none are given, clones the segment once per "
             "copy name, distributes links only when a policy is given",
             floor=8)
    f_m = ctx.anchor("Gfa.multiply", gfacls.find_method("multiply"))
    stubs = ["rm", "is_cut_segment", "_segment_and_segment_name",
             "__divide_segment_and_connection_counts", "_compute_copy_names",
             "__clone_segment_and_connections", "_distribute_links"]
    seg = Abs(S, label="seg")
    for factor, names, distribute in itertools.product(
            [-1, 0, 1, 2, 3], [None, "given"], [None, "auto"]):
        ctx.instance(R)
        g = Abs(gfacls, label="gfa")
        cn = None
        if names == "given" and factor >= 2:
            cn = ["c%d" % i for i in range(factor - 1)]

        class MH(SeqHooks):
            pass
        h = MH(repo, stubs, {
            "_segment_and_segment_name": (seg, "s"),
            "is_cut_segment": False,
            "_compute_copy_names": ["n%d" % i for i in range(max(factor - 1,
                                                                 0))]})
        out = eval_function(repo, f_m, [g, "s", factor],
                            {"copy_names": cn, "distribute": distribute},
                            hooks=h)
        evs = [e for e in out[2] if e[0] != "store"]
        names_ev = [e[0] for e in evs]
        cell = "factor=%d,copy_names=%s,distribute=%s" % (factor, names,
                                                          distribute)
        if factor < 0:
            ok = out[0] == "raise" and str(out[1]).endswith("ArgumentError") \
                and not out[2]
        elif factor == 1:
            ok = out[0] == "return" and out[1] is g and not out[2]
        elif factor == 0:
            ok = out[0] == "return" and "rm" in names_ev and \
                "__clone_segment_and_connections" not in names_ev
        else:
            clones = [e for e in evs
                      if e[0] == "__clone_segment_and_connections"]
            want_names = cn if cn is not None else \
                ["n%d" % i for i in range(factor - 1)]
            ok = out[0] == "return" and \
                names_ev.count("__divide_segment_and_connection_counts") == 1 \
                and [c[2] for c in clones] == want_names and \
                (("_compute_copy_names" in names_ev) == (cn is None)) and \
                (("_distribute_links" in names_ev) == (distribute is not None)) \
                and names_ev.index("__divide_segment_and_connection_counts") \
                < names_ev.index("__clone_segment_and_connections")
        ctx.oblige(ok)
        if not ok:
            ctx.violation(R, f_m.short, cell,
                          "outcome %r, steps %r" % (out[0:2], names_ev))
    ctx.exhaustive[R] = True

    # ------------------------------------------------------------------
    R = "C15.apply_copy_numbers"
    ctx.rule(R, "apply_copy_numbers is multiply() applied once to every "
             "segment with its copy number (read from the tag named by "
             "count_tag), in increasing order of the copy number; it writes "
             "nothing itself (the copies are made inside multiply, so a tag "
             "written afterwards would differ between original and copies)",
             floor=2)
    f_acn = ctx.anchor("Gfa.apply_copy_numbers",
                       gfacls.find_method("apply_copy_numbers"))
    for tag in ("cn", "xc"):
        ctx.instance(R)
        segs = [Abs(S, label="s%d" % n, name="s%d" % n, _cn=n)
                for n in (3, 0, 2)]

        class CH(SeqHooks):
            def method(self, ev, base, name, args, kwargs, node):
                if isinstance(base, Abs) and base.label.startswith("s"):
                    if name in ("get", "try_get"):
                        ev.events.append(("read", base.label, args[0]))
                        return base.attrs["_cn"]
                    ev.events.append(("segment-call", base.label, name))
                    return None
                return super().method(ev, base, name, args, kwargs, node)
        g = Abs(gfacls, label="gfa", segments=list(segs))
        h = CH(repo, ["multiply"])
        try:
            out = eval_function(repo, f_acn, [g],
                                {"count_tag": tag, "distribute": "equal",
                                 "origin_tag": "og",
                                 "conserve_components": False}, hooks=h)
        except Unsupported as e:
            raise AnalysisError(str(e))
        muls = [e for e in out[2] if e[0] == "multiply"]
        other = [e for e in out[2] if e[0] in ("store", "segment-call")]
        reads = {e[2] for e in out[2] if e[0] == "read"}
        ok = out[0] == "return" and not other and reads == {tag} and \
            [(e[1], e[2]) for e in muls] == [("s0", 0), ("s2", 2), ("s3", 3)]
        ctx.oblige(ok)
        if not ok:
            ctx.violation(R, f_acn.short, "count_tag=%s" % tag,
                          "outcome %r; multiply calls %r; tags read %r; "
                          "writes %r" % (out[0:2], muls, sorted(reads), other))
    ctx.exhaustive[R] = True

    # ------------------------------------------------------------------
    from .c19 import rule_dictionary_construction
    rule_dictionary_construction(ctx, "C15.clone_cannot_fail")

    # ------------------------------------------------------------------
    R = "C15.hashable_lines"
    ctx.rule(R, "every __hash__ defined in the library returns a value on "
             "every path (lines are put into sets by the multiplication and "
             "by the graph operations)", floor=2)
    for f in sorted(repo.functions.values(), key=lambda f: f.qualname):
        if f.name != "__hash__" or f.cls is None:
            continue
        ctx.instance(R)
        ok = returns_on_all_paths(f.node.body)
        ctx.oblige(ok)
        if not ok:
            ctx.violation(R, f.short, "__hash__",
                          "__hash__ can fall off its end and return None: "
                          "putting the object in a set raises a builtin "
                          "TypeError")
    ctx.exhaustive[R] = True

    # ------------------------------------------------------------------
    R = "C15.count_division"
    ctx.rule(R, "__divide_counts divides exactly the tags KC, RC, FC that are "
             "present, by the factor (integer division); "
             "__divide_segment_and_connection_counts applies it to the "
             "segment and to every dovetail and containment, a circular edge "
             "(listed twice) once", floor=5)
    f_dc = ctx.anchor("Multiplication.__divide_counts",
                      gfacls.find_method("__divide_counts"))
    for present in (["KC", "RC", "FC", "xx"], ["RC"], []):
        ctx.instance(R)
        ln = Abs(S, label="line", tagnames=list(present),
                 _data={t: 100 for t in present})

        class DH(LineHooks):
            def method(self, ev, base, name, args, kwargs, node):
                if name == "set" and isinstance(base, Abs):
                    ev.events.append(("set", args[0], args[1]))
                    return None
                return super().method(ev, base, name, args, kwargs, node)
        out = eval_function(repo, f_dc, [Abs(gfacls, label="gfa"), ln, 3],
                            hooks=DH(repo))
        got = sorted((e[1], e[2]) for e in out[2] if e[0] == "set")
        want = sorted((t, 33) for t in present if t in ("KC", "RC", "FC"))
        ok = out[0] == "return" and got == want
        ctx.oblige(ok)
        if not ok:
            ctx.violation(R, f_dc.short, "tags=%r" % (present,),
                          "sets %r, expected %r" % (got, want))
    f_ds = ctx.anchor("Multiplication.__divide_segment_and_connection_counts",
                      gfacls.find_method(
                          "__divide_segment_and_connection_counts"))
    # a line can be a member of a set or a key only if the __hash__ its class
    # resolves to gives an integer: decided per edge class and for named /
    # unnamed edges by interpreting that __hash__
    Cc = repo.cls("line.edge.Containment")
    E2 = repo.cls("line.edge.GFA2")
    kinds = {"link": (L, None), "link-with-ID": (L, "l9"),
             "containment": (Cc, None), "containment-with-ID": (Cc, "c9"),
             "unnamed-E": (E2, None), "named-E": (E2, "e9")}

    def edge(kind, label, circ):
        cls, nm = kinds[kind]
        return Abs(cls, label=label, __circ=circ,
                   __unhashable__=not hashable(repo, cls, nm))
    for circular, kind in itertools.product((False, True), sorted(kinds)):
        ctx.instance(R)
        l1 = edge("link", "l1", False)
        l2 = edge(kind, "l2", circular)
        c1 = edge("containment", "c1", False)
        sg = Abs(S, label="seg", dovetails=[l1, l2, l2] if circular
                 else [l1, l2], containments=[c1])

        class CH(SeqHooks):
            def method(self, ev, base, name, args, kwargs, node):
                if name == "is_circular" and isinstance(base, Abs):
                    return base.attrs.get("__circ", False)
                return super().method(ev, base, name, args, kwargs, node)

            def function(self, ev, node, args, kwargs):
                return super().function(ev, node, args, kwargs)
        out = eval_function(repo, f_ds, [Abs(gfacls, label="gfa"), sg, 2],
                            hooks=HashHooks(repo, ["__divide_counts"]))
        got = sorted(e[1] for e in out[2] if e[0] == "__divide_counts")
        want = sorted(["seg", "l1", "l2", "c1"])
        ok = out[0] == "return" and got == want
        ctx.oblige(ok)
        if not ok:
            ctx.violation(R, f_ds.short, "circular_edge=%s,edge=%s" % (
                              circular, kind),
                          "outcome %r; divides the counts of %r, expected "
                          "each of %r once" % (out[0:2], got, want))
    ctx.exhaustive[R] = True

    # ------------------------------------------------------------------
    R = "C15.clone_and_repoint"
    ctx.rule(R, "__clone_segment_and_connections: the copy is segment.clone() "
             "renamed and connected; every dovetail and containment is cloned "
             "once (circular edges are listed twice), the side(s) naming the "
             "original are re-pointed to the copy, and the clone is "
             "connected; the GFA1-style accessors of E lines write, through "
             "their setters, the same side their getters read", floor=8)
    f_cl = ctx.anchor("Multiplication.__clone_segment_and_connections",
                      gfacls.find_method("__clone_segment_and_connections"))
    PHc = repo.cls("Placeholder")
    E2c = repo.cls("line.edge.GFA2")
    for layout, named in itertools.product(
            ("from", "to", "both", "circular-listed-twice"),
            (None, "L", "E")):
        ctx.instance(R)
        made = []
        ecls = E2c if named == "E" else L
        nfield = record_table(repo, ecls).NAME_FIELD if named else None

        def ident(c):
            """identifier the (abstract) edge carries: its name field, as
            the clone received it or as the function under analysis left it"""
            v = c.attrs.get("__ident__")
            for alias in (nfield, "name"):
                if alias and alias in c.attrs:
                    v = c.attrs[alias]
            if isinstance(v, Abs) and v.cls is PHc:
                return None
            return None if v == "*" else v

        class KH(LineHooks):
            def method(self, ev, base, name, args, kwargs, node):
                if name == "clone" and isinstance(base, Abs):
                    c = Abs(base.cls, label="clone(%s)" % base.label,
                            **{k: v for k, v in base.attrs.items()
                               if k in ("from_segment", "to_segment", "name",
                                        "__ident__", "positional_fieldnames",
                                        "tagnames")})
                    made.append(c)
                    return c
                if name == "connect" and isinstance(base, Abs):
                    ev.events.append(("connect", base.label, ident(base)))
                    return None
                if isinstance(base, Abs) and base.label.startswith("clone("):
                    if name == "set" and len(args) == 2:
                        if args[0] in (nfield, "name"):
                            base.attrs["__ident__"] = args[1]
                        else:
                            base.attrs[args[0]] = args[1]
                        return None
                    if name == "delete" and len(args) == 1:
                        if args[0] in (nfield, "name"):
                            base.attrs["__ident__"] = None
                        return None
                    if name in ("get", "try_get") and len(args) == 1:
                        if args[0] in (nfield, "name"):
                            return base.attrs.get("__ident__")
                        return base.attrs.get(args[0])
                return super().method(ev, base, name, args, kwargs, node)

            def construct(self, ev, cls, args, kwargs):
                if cls is PHc:
                    return Abs(PHc, label="*", __bool__=False)
                return super().construct(ev, cls, args, kwargs)
        fs, ts = {"from": ("s", "x"), "to": ("x", "s"), "both": ("s", "s"),
                  "circular-listed-twice": ("s", "s")}[layout]
        pos = ["eid", "sid1", "sid2"] if named == "E" else \
            ["from_segment", "from_orient", "to_segment", "to_orient",
             "overlap"]
        e1 = Abs(ecls, label="e1", from_segment=fs, to_segment=ts,
                 __ident__="e9" if named else None,
                 positional_fieldnames=pos,
                 tagnames=["ID"] if named == "L" else [])
        other = Abs(L, label="e2", from_segment="y", to_segment="s",
                    __ident__=None, positional_fieldnames=[
                        "from_segment", "from_orient", "to_segment",
                        "to_orient", "overlap"], tagnames=[])
        dov = [e1, other] + ([e1] if layout == "circular-listed-twice" else [])
        sg = Abs(S, label="seg", name="s", dovetails=dov, containments=[])
        out = eval_function(repo, f_cl, [Abs(gfacls, label="gfa"), sg, "s*2"],
                            hooks=KH(repo))
        clones = {c.label: c for c in made}
        c1 = clones.get("clone(e1)")
        ok = out[0] == "return" and \
            sorted(c.label for c in made) == ["clone(e1)", "clone(e2)",
                                              "clone(seg)"] and \
            clones["clone(seg)"].attrs.get("name") == "s*2" and \
            c1.attrs["from_segment"] == ("s*2" if fs == "s" else fs) and \
            c1.attrs["to_segment"] == ("s*2" if ts == "s" else ts) and \
            clones["clone(e2)"].attrs["to_segment"] == "s*2" and \
            clones["clone(e2)"].attrs["from_segment"] == "y" and \
            sorted(e[1] for e in out[2] if e[0] == "connect") == \
            ["clone(e1)", "clone(e2)", "clone(seg)"] and \
            not [e for e in out[2] if e[0] == "connect" and
                 e[1] == "clone(e1)" and e[2] == "e9"]
        ctx.oblige(ok)
        if not ok:
            ctx.violation(
                R, f_cl.short, "edge_side=%s%s" % (
                    layout, ",edge named by its %s" % nfield if named else ""),
                "clones %r with fields %r, connects %r" % (
                    sorted(c.label for c in made),
                    {k: (c.attrs.get("from_segment"), c.attrs.get(
                        "to_segment")) for k, c in clones.items()},
                    [e[1] for e in out[2] if e[0] == "connect"]))
    # getter / setter agreement of simple accessor pairs
    n_pairs = 0
    for c in sorted(repo.classes.values(), key=lambda c: c.qualname):
        for name, setter in sorted(c.setters.items()):
            getter = c.methods.get(name)
            if getter is None or getter.kind != "property":
                continue
            g_expr = single_return(getter)
            s_target = single_store(setter)
            if g_expr is None or s_target is None:
                continue
            n_pairs += 1
            ctx.instance(R)
            ok = unparse(g_expr) == unparse(s_target)
            ctx.oblige(ok)
            if not ok:
                ctx.violation(R, setter.short, "accessor=%s" % name,
                              "the getter reads %s but the setter writes %s" %
                              (unparse(g_expr), unparse(s_target)))
    ctx.notes["accessor_pairs_compared"] = n_pairs
    ctx.exhaustive[R] = True

    # ------------------------------------------------------------------
    R = "C15.names_and_policies"
    ctx.rule(R, "_compute_copy_names yields factor-1 names of the form "
             "name*i skipping identifiers in use; _select_distribute_end "
             "refuses an unknown policy, returns None for 'off' and the end "
             "itself for L/R; _distribute_links iterates a copy of the list "
             "it removes from", floor=8)
    f_cn = ctx.anchor("Multiplication._compute_copy_names",
                      gfacls.find_method("_compute_copy_names"))
    for used, factor, want in (([], 2, ["s*2"]), ([], 4, ["s*2", "s*3", "s*4"]),
                               (["s*2"], 3, ["s*3", "s*4"]),
                               (["s*3"], 3, ["s*2", "s*4"])):
        ctx.instance(R)

        class NH(LineHooks):
            def function(self, ev, node, args, kwargs):
                d = unparse(node.func)
                if d == "re.search":
                    import re
                    return re.search(args[0], args[1])
                return super().function(ev, node, args, kwargs)
        # (a registry, not a list of names: however the function asks
        # whether an identifier is in use, it asks the Gfa)
        segc0 = repo.cls("line.segment.GFA1")
        recs0 = {k: {} for k in ("S", "P", "O", "L", "C", "E", "G", "U", "F",
                                 "#", "\n")}
        for nm in ["s"] + list(used):
            recs0["S"][nm] = Abs(segc0, label=nm, virtual=False,
                                 _virtual=False)
        g = Abs(gfacls, label="gfa", _records=recs0, _version="gfa1")
        try:
            out = eval_function(repo, f_cn, [g, "s", factor], hooks=NH(repo))
            ok = out[0] == "return" and out[1] == want
            got = out[1]
        except Unsupported as e:
            raise AnalysisError(str(e))
        ctx.oblige(ok)
        if not ok:
            ctx.violation(R, f_cn.short, "in_use=%r,factor=%d" % (used, factor),
                          "gives %r, expected %r" % (got, want))
    # "fresh" is decided against the registry itself: every identifier that
    # a finder would resolve is in use, whichever collection holds it and
    # whether the line is defined or only mentioned so far (a placeholder)
    segc = repo.cls("line.segment.GFA1")
    for version, holder in itertools.product(
            ("gfa1", "gfa2", None),
            ("S", "S-placeholder", "P", "O", "L", "C", "E", "G", "U")):
        if version == "gfa1" and holder in ("O", "E", "G", "U"):
            continue
        if version == "gfa2" and holder in ("P", "L", "C"):
            continue
        ctx.instance(R)
        recs = {k: {} for k in ("S", "P", "O", "L", "C", "E", "G", "U", "F",
                                "#", "\n")}
        recs["S"]["s"] = Abs(segc, label="s", virtual=False, _virtual=False)
        virt = holder.endswith("placeholder")
        recs[holder[0]]["s*2"] = Abs(segc, label="holder", virtual=virt,
                                     _virtual=virt)
        for k in ("L", "C", "E", "G", "U", "O"):
            recs[k][7] = Abs(segc, label="unnamed", virtual=False,
                             _virtual=False)
        g = Abs(gfacls, label="gfa", _records=recs, _version=version)
        try:
            out = eval_function(repo, f_cn, [g, "s", 3], hooks=NH(repo))
        except Unsupported as e:
            raise AnalysisError(str(e))
        ok = out[0] == "return" and out[1] == ["s*3", "s*4"]
        ctx.oblige(ok)
        if not ok:
            ctx.violation(R, f_cn.short,
                          "registry holds s*2 as %s,version=%s" % (
                              holder, version),
                          "gives %r, expected ['s*3', 's*4']: the identifier "
                          "s*2 is in use" % (out[1],))
    f_sd = ctx.anchor("Multiplication._select_distribute_end",
                      gfacls.find_method("_select_distribute_end"))
    for pol, want in (("off", None), ("L", "L"), ("R", "R"),
                      ("bogus", "!ArgumentError")):
        ctx.instance(R)
        out = eval_function(repo, f_sd, [Abs(gfacls, label="gfa"), pol, "s", 2],
                            hooks=LineHooks(repo))
        if isinstance(want, str) and want.startswith("!"):
            ok = out[0] == "raise" and str(out[1]).endswith(want[1:])
        else:
            ok = out[0] == "return" and out[1] == want
        ctx.oblige(ok)
        if not ok:
            ctx.violation(R, f_sd.short, "policy=%s" % pol,
                          "outcome %r" % (out[0:2],))
    ctx.exhaustive[R] = True

    # ------------------------------------------------------------------
    R = "C15.distribution_covers"
    ctx.rule(R, "_distribute_links: for every list of neighbour ends on the "
             "distributed end (up to 5 links, parallel links to one "
             "neighbour included) and every factor 2..4, each former "
             "neighbour end keeps a link to the segment or to one of its "
             "copies",
             floor=200)
    f_dl = ctx.anchor("Multiplication._distribute_links",
                      gfacls.find_method("_distribute_links"))
    SE = repo.cls("SegmentEnd")
    Lk = repo.cls("line.edge.Link")

    class DH(LineHooks):
        def __init__(self, repo, sigs):
            super().__init__(repo)
            self.sigs = sigs
            self.removed = []
            self.segs = {}

        def before_inline(self, ev, func, args, kwargs):
            if func.name == "_select_distribute_end":
                return "R"
            return NotImplemented

        def method(self, ev, base, name, args, kwargs, node):
            if isinstance(base, Abs) and base.label == "gfa" and \
                    name == "segment":
                sn = args[0]
                if sn not in self.segs:
                    links, hairpin = [], None
                    for j, sig in enumerate(self.sigs):
                        if sig == "H":
                            # a hairpin (both sides on this end) is one link
                            # listed twice; its other end is this very end
                            if hairpin is None:
                                hairpin = Abs(Lk, label="%s#hairpin" % sn,
                                              sig=sn + "R", owner=sn, idx=j)
                            links.append(hairpin)
                        else:
                            links.append(Abs(Lk, label="%s#%d" % (sn, j),
                                             sig=sig, owner=sn, idx=j))
                    self.segs[sn] = Abs(None, label="seg:" + sn, links=links)
                return self.segs[sn]
            if isinstance(base, Abs) and name == "dovetails_of_end":
                return base.attrs["links"]
            if isinstance(base, Abs) and name == "other_end":
                return Abs(SE, label=base.attrs["sig"], sig=base.attrs["sig"])
            if isinstance(base, Abs) and name == "is_connected":
                return (base.attrs["owner"], base.attrs["idx"]) not in \
                    self.removed
            if isinstance(base, Abs) and name == "disconnect":
                key = (base.attrs["owner"], base.attrs["idx"])
                if key in self.removed:
                    # Disconnection.disconnect refuses a line that is not
                    # connected (any more)
                    from ..tables import Raised
                    raise Raised("gfapy.RuntimeError")
                self.removed.append(key)
                return None
            return super().method(ev, base, name, args, kwargs, node)

        def construct(self, ev, cls, args, kwargs):
            if cls is SE:
                return Abs(SE, label="end")
            return super().construct(ev, cls, args, kwargs)

        def to_str(self, ev, v):
            if isinstance(v, Abs) and "sig" in v.attrs:
                return v.attrs["sig"]
            return super().to_str(ev, v)
    max_n, factors = (6, (2, 3, 4, 5)) if ctx.tier == "thorough" \
        else (5, (2, 3, 4))
    for n in range(1, max_n + 1):
        # neighbour lists up to renaming: first occurrence order a, b, c...
        lists = set()
        for combo in itertools.product("abcdef"[:n], repeat=n):
            ren, out_l = {}, []
            for c in combo:
                ren.setdefault(c, "abcdef"[len(ren)])
                out_l.append(ren[c])
            lists.add(tuple(out_l))
        for sigs in sorted(lists):
            for factor in factors:
                ctx.instance(R)
                names = ["s"] + ["s*%d" % i for i in range(2, factor + 1)]
                dh = DH(repo, list(sigs))
                g = Abs(gfacls, label="gfa")
                out = eval_function(repo, f_dl, [g, "R", "s", names[1:],
                                                 factor], hooks=dh)
                kept = {sn: [sigs[j] for j in range(len(sigs))
                             if (sn, j) not in dh.removed] for sn in names}
                covered = set()
                for sn in names:
                    covered |= set(kept[sn])
                lost = sorted(set(sigs) - covered)
                ok = out[0] == "return" and not lost
                ctx.oblige(ok)
                if not ok:
                    ctx.violation(
                        R, f_dl.short, "neighbours=%s,factor=%d" % (
                            "".join(sigs), factor),
                        "outcome %s; neighbour end(s) %s keep no link to the "
                        "segment or any copy (kept per copy: %r)" % (
                            out[0], lost, kept))
    # a hairpin on the distributed end (listed twice in the list of the end)
    for n in range(0, 4):
        for combo in sorted(set(itertools.product("abc"[:max(n, 1)],
                                                  repeat=n))):
            for at in sorted({0, n // 2, n}):
                sigs = list(combo[:at]) + ["H", "H"] + list(combo[at:])
                for factor in (2, 3):
                    ctx.instance(R)
                    names = ["s"] + ["s*%d" % i for i in range(2, factor + 1)]
                    dh = DH(repo, list(sigs))
                    g = Abs(gfacls, label="gfa")
                    out = eval_function(repo, f_dl, [g, "R", "s", names[1:],
                                                     factor], hooks=dh)
                    removed_idx = {}
                    for (sn, j) in dh.removed:
                        removed_idx.setdefault(sn, set()).add(j)
                    covered = set()
                    for sn in names:
                        covered |= {sg for j, sg in enumerate(sigs)
                                    if sg != "H" and
                                    j not in removed_idx.get(sn, ())}
                    lost = sorted(set(combo) - covered)
                    ok = out[0] == "return" and not lost
                    ctx.oblige(ok)
                    if not ok:
                        ctx.violation(
                            R, f_dl.short, "neighbours=%s,factor=%d" % (
                                "".join(sigs), factor),
                            "outcome %r with a hairpin link (H, listed twice) "
                            "on the distributed end; neighbour end(s) left "
                            "without link: %s" % (out[0:2], lost))
    ctx.exhaustive[R] = True


class HashHooks(SeqHooks):
    """abstract lines can be members of sets (identity hash)"""

    def method(self, ev, base, name, args, kwargs, node):
        if name == "is_circular" and isinstance(base, Abs):
            return base.attrs.get("__circ", False)
        return super().method(ev, base, name, args, kwargs, node)


_HASHABLE = {}


def hashable(repo, cls, name):
    """does hash() of a line of class `cls` whose identifier is `name` (None:
    it has none) give an integer?  The class's own __hash__ is interpreted
    with the identifier as the only thing known about the line; a __hash__
    that needs more than that is taken to give one when every path returns
    (rule hashable_lines)."""
    key = (cls, name)
    if key in _HASHABLE:
        return _HASHABLE[key]
    f = cls.find_method("__hash__")
    if f is None:
        res = True              # object.__hash__
    else:
        class NameHooks(LineHooks):
            def method(self, ev, base, mname, args, kwargs, node):
                if isinstance(base, Abs) and base.label == "probe" and \
                        mname in ("get", "try_get"):
                    return name
                if isinstance(base, str) and mname == "__hash__":
                    return hash(base)
                return super().method(ev, base, mname, args, kwargs, node)

            def getattr(self, ev, base, attr):
                if isinstance(base, Abs) and base.label == "probe" and \
                        attr == "name":
                    return name
                return super().getattr(ev, base, attr)
        try:
            out = eval_function(repo, f, [Abs(cls, label="probe")],
                                hooks=NameHooks(repo))
            res = out[0] == "return" and isinstance(out[1], int) and \
                not isinstance(out[1], bool)
            if out[0] == "return" and not res and \
                    out[1] is not NotImplemented and out[1] is not None:
                res = True
        except Unsupported:
            res = returns_on_all_paths(f.node.body)
    _HASHABLE[key] = res
    return res


def returns_on_all_paths(body):
    """every path through the statement list ends in return <value> / raise"""
    for st in body:
        if isinstance(st, ast.Return):
            return st.value is not None
        if isinstance(st, ast.Raise):
            return True
        if isinstance(st, ast.If):
            if st.orelse and returns_on_all_paths(st.body) and \
                    returns_on_all_paths(st.orelse):
                return True
        if isinstance(st, ast.Try):
            if returns_on_all_paths(st.body) and all(
                    returns_on_all_paths(h.body) for h in st.handlers):
                return True
    return False


def single_return(f):
    body = [s for s in f.node.body if not (
        isinstance(s, ast.Expr) and isinstance(s.value, ast.Constant))]
    if len(body) == 1 and isinstance(body[0], ast.Return) and \
            body[0].value is not None:
        return body[0].value
    return None


def single_store(f):
    body = [s for s in f.node.body if not (
        isinstance(s, ast.Expr) and isinstance(s.value, ast.Constant))]
    if len(body) == 1 and isinstance(body[0], ast.Assign) and \
            len(body[0].targets) == 1 and len(f.params) == 2 and \
            isinstance(body[0].value, ast.Name) and \
            body[0].value.id == f.params[1]:
        return body[0].targets[0]
    return None
