"""C11 -- segment neighbourhoods follow the specification's edge semantics.

Decided clause: the decision tables of every classification function, extracted
from the tree by abstract evaluation over the complete finite domain, equal the
reference tables of gfaverif/spec.py; the reference initialisers file every
edge/gap under the collection the reference assigns; derived queries read the
collections the reference names.  Not decided: contents of the collections
after mutation histories, `$` correctness against real segment lengths.
"""
import ast
import itertools

from .. import spec
from ..model import AnalysisError, record_table, unparse
from ..tables import Abs, Evaluator, Raised, Unsupported, eval_function
from ..linehooks import LineHooks
from .common import is_library_error, fmt_point


def positions(repo):
    lp = repo.cls("LastPos")

    def P(v, last):
        return Abs(lp, label="%d$" % v, value=v) if last else v
    return P


def pos_tuple(p):
    if isinstance(p, Abs):
        return (p.attrs["value"], True)
    return (p, False)


def run(ctx):
    repo = ctx.repo
    from . import refgraph
    refgraph.rule_identity_membership(ctx, "C11.identity_membership")
    hooks = LineHooks(repo)
    P = positions(repo)
    E = repo.cls("line.edge.GFA2")
    OL = repo.cls("OrientedLine")
    ctx.assume("two-argument SegmentEnd(...) / OrientedLine(...) build an "
               "object with the given segment/line and end_type/orient "
               "(gfaverif/linehooks.py)")

    def ol(name, orient):
        return Abs(OL, label="%s%s" % (name, orient), line=name,
                   orient=orient, name=name)

    # ------------------------------------------------------------------
    # (1) _substring_type
    R = "C11.substring_type"
    ctx.rule(R, "gfa2 AlignmentType._substring_type(beg,end) returns the "
             "interval kind the specification assigns (whole/pfx/sfx/internal) "
             "and raises a library error for begin>end and for '$' on begin "
             "only; domain: begin,end in {0,3,5,7$,0$} plus (7$,9)", floor=20)
    f_sub = ctx.anchor("GFA2 edge _substring_type",
                       E.find_method("_substring_type"))
    base_pos = [P(0, False), P(3, False), P(5, False), P(7, True), P(0, True)]
    pairs = list(itertools.product(base_pos, base_pos)) + \
        [(P(7, True), P(9, False))]
    self_e = Abs(E, label="edge")
    sub_table = {}
    for b, e in pairs:
        ctx.instance(R)
        cell = "beg=%s,end=%s" % (fmt(b), fmt(e))
        out = eval_function(repo, f_sub, [self_e, b, e], hooks=hooks)
        ref = spec.ref_substring_type(pos_tuple(b), pos_tuple(e))
        got = outcome_kind(out)
        sub_table[(pos_tuple(b), pos_tuple(e))] = got
        if ref is None:
            ctx.undecided.append("%s %s (zero-length segment: kind not "
                                 "determined by the specification)" % (R, cell))
            continue
        ok = True
        if ref == "error":
            if out[0] != "raise":
                ok = False
                msg = "illegal coordinates are accepted (returns %r)" % (out[1],)
            elif not is_library_error(repo, f_sub.module, out[1]):
                ok = False
                msg = "raises %s, which is not a gfapy.Error" % out[1]
        else:
            if got != ref:
                ok = False
                msg = "interval kind is %s, the specification says %s" % (
                    got, ref)
        ctx.oblige(ok)
        if not ok:
            ctx.violation(R, f_sub.short, cell, msg,
                          {"cell": cell, "expected": ref, "found": got})
        else:
            ctx.sample({"rule": R, "cell": cell, "table": got})
    ctx.exhaustive[R] = True

    # ------------------------------------------------------------------
    # (2) _alignment_type_for_substring_types
    R = "C11.alignment_type"
    ctx.rule(R, "_alignment_type_for_substring_types(st1,st2) with the two "
             "orientations: C if a side is whole; L for pfx/sfx (same "
             "orientation) or pfx/pfx, sfx/sfx (opposite); else I; all 64 "
             "cells", floor=64)
    f_at = ctx.anchor("GFA2 edge _alignment_type_for_substring_types",
                      E.find_method("_alignment_type_for_substring_types"))
    for st1, st2, o1, o2 in itertools.product(
            spec.SUBSTRING_TYPES, spec.SUBSTRING_TYPES, spec.ORIENTS,
            spec.ORIENTS):
        ctx.instance(R)
        se = Abs(E, label="edge", sid1=ol("a", o1), sid2=ol("b", o2))
        out = eval_function(repo, f_at, [se, st1, st2], hooks=hooks)
        ref = spec.ref_alignment_type(st1, st2, o1, o2)
        cell = "st1=%s,st2=%s,orient=%s%s" % (st1, st2, o1, o2)
        ok = out[0] == "return" and out[1] == ref
        ctx.oblige(ok)
        if not ok:
            ctx.violation(R, f_at.short, cell,
                          "alignment type is %r, the specification says %s" %
                          (out[1], ref), {"expected": ref, "found": out[1]})
    ctx.exhaustive[R] = True
    ctx.sample({"rule": R, "cell": "st1=pfx,st2=sfx,orient=++", "table": "L"})

    # ------------------------------------------------------------------
    # (3) gfa2 _refkey_for_s
    R = "C11.refkey_gfa2"
    ctx.rule(R, "gfa2 References._refkey_for_s(snum,st1,st2): pfx side on "
             "dovetails_L, sfx side on dovetails_R, whole side on "
             "edges_to_containers and its partner on edges_to_contained, "
             "internals otherwise; 128 cells; both-whole cells are compared "
             "with _is_sid1_from only", floor=128)
    f_rk = ctx.anchor("GFA2 edge _refkey_for_s", E.find_method("_refkey_for_s"))
    last7 = Abs(repo.cls("LastPos"), label="7$", value=7)
    rk_table = {}
    for snum, st1, st2, o1, o2 in itertools.product(
            [1, 2], spec.SUBSTRING_TYPES, spec.SUBSTRING_TYPES, spec.ORIENTS,
            spec.ORIENTS):
        ctx.instance(R)
        se = Abs(E, label="edge", sid1=ol("a", o1), sid2=ol("b", o2))
        # coordinates that have the wanted types on a segment of length 7
        # (for a function that computes the interval types inside, or
        # consults something derived from the coordinates)
        coords = {"pfx": (0, 3), "sfx": (3, last7), "whole": (0, last7),
                  "internal": (3, 5)}
        se.attrs.update(beg1=coords[st1][0], end1=coords[st1][1],
                        beg2=coords[st2][0], end2=coords[st2][1])
        if len(f_rk.params) == 4:
            out = eval_function(repo, f_rk, [se, snum, st1, st2], hooks=hooks)
        elif len(f_rk.params) == 2:
            out = eval_function(repo, f_rk, [se, snum], hooks=hooks)
        else:
            raise AnalysisError("anchor vanished: _refkey_for_s(snum[, st1, "
                                "st2]) has parameters %r" % (f_rk.params,))
        ref = spec.ref_refkey_gfa2(snum, st1, st2, o1, o2)
        cell = "snum=%d,st1=%s,st2=%s,orient=%s%s" % (snum, st1, st2, o1, o2)
        got = out[1] if out[0] == "return" else "!" + str(out[1])
        rk_table[(snum, st1, st2, o1, o2)] = got
        if ref is None:
            continue
        ok = got == ref
        ctx.oblige(ok)
        if not ok:
            ctx.violation(R, f_rk.short, cell,
                          "edge is filed under %r, the specification says %s"
                          % (got, ref), {"expected": ref, "found": got})
    # both whole: the two sides must be filed on opposite containment
    # collections
    for o1, o2 in itertools.product(spec.ORIENTS, spec.ORIENTS):
        k1 = rk_table[(1, "whole", "whole", o1, o2)]
        k2 = rk_table[(2, "whole", "whole", o1, o2)]
        ok = {k1, k2} == {"edges_to_contained", "edges_to_containers"}
        ctx.oblige(ok)
        if not ok:
            ctx.violation(R, f_rk.short,
                          "st1=whole,st2=whole,orient=%s%s" % (o1, o2),
                          "a whole/whole containment must be filed once as "
                          "'to contained' and once as 'to container'; found "
                          "%r and %r" % (k1, k2))
    ctx.exhaustive[R] = True
    ctx.sample({"rule": R, "cell": "snum=1,st1=pfx,st2=sfx,orient=++",
                "table": rk_table[(1, "pfx", "sfx", "+", "+")]})

    # ------------------------------------------------------------------
    # (4) composition: the _alignment_type property and the reference
    # initialiser of E lines, over concrete coordinates
    R = "C11.edge_composite"
    ctx.rule(R, "for every legal combination of coordinates (0,3,5,7$ on both "
             "sides) and orientations: the _alignment_type property equals the "
             "reference type, and _initialize_references files the edge on "
             "each of its two segments under the reference collection and "
             "stores the segment in the sid field", floor=200)
    f_prop = ctx.anchor("GFA2 edge _alignment_type",
                        E.find_method("_alignment_type"))
    f_init = ctx.anchor("GFA2 edge _initialize_references",
                        E.find_method("_initialize_references"))
    S2 = repo.cls("line.segment.GFA2")
    legal = [P(0, False), P(3, False), P(5, False), P(7, True)]
    if ctx.tier == "thorough":
        legal += [P(1, False), P(6, False)]
    n_comp = 0
    for b1, e1, b2, e2 in itertools.product(legal, legal, legal, legal):
        k1 = spec.ref_substring_type(pos_tuple(b1), pos_tuple(e1))
        k2 = spec.ref_substring_type(pos_tuple(b2), pos_tuple(e2))
        if k1 in ("error", None) or k2 in ("error", None):
            continue
        for o1, o2 in itertools.product(spec.ORIENTS, spec.ORIENTS):
            ctx.instance(R)
            n_comp += 1
            cell = "beg1=%s,end1=%s,beg2=%s,end2=%s,orient=%s%s" % (
                fmt(b1), fmt(e1), fmt(b2), fmt(e2), o1, o2)
            ref_t = spec.ref_alignment_type(k1, k2, o1, o2)
            segs = {"a": Abs(S2, label="seg:a", name="a"),
                    "b": Abs(S2, label="seg:b", name="b")}
            gfa = Abs(None, label="gfa", __gfa__=True, segments=segs,
                      _segments_first_order=False)
            se = Abs(E, label="edge", sid1=ol("a", o1), sid2=ol("b", o2),
                     beg1=b1, end1=e1, beg2=b2, end2=e2, _gfa=gfa)
            out = eval_function(repo, f_prop, [se], hooks=hooks)
            ok = out[0] == "return" and out[1] == ref_t
            ctx.oblige(ok)
            if not ok:
                ctx.violation(R, f_prop.short, cell,
                              "_alignment_type is %r, the specification says "
                              "%s (sides are %s/%s)" % (out[1], ref_t, k1, k2))
            out = eval_function(repo, f_init, [se], hooks=hooks)
            filed = {}
            for ev in out[2]:
                if ev[0] == "addref":
                    filed.setdefault(ev[1], []).append(ev[2])
            for snum, seg in ((1, "seg:a"), (2, "seg:b")):
                ref_k = spec.ref_refkey_gfa2(snum, k1, k2, o1, o2)
                if ref_k is None:
                    ref_k = rk_table[(snum, k1, k2, o1, o2)]
                got = filed.get(seg, [])
                ok = out[0] == "return" and got == [ref_k]
                ctx.oblige(ok)
                if not ok:
                    ctx.violation(
                        R, f_init.short, cell + ",snum=%d" % snum,
                        "segment of sid%d receives back-reference(s) %r, the "
                        "specification says exactly [%r]" % (snum, got, ref_k))
            # the sid fields must now hold the segments, orientation kept
            for snum, name, o in ((1, "a", o1), (2, "b", o2)):
                v = se.attrs.get("sid%d" % snum)
                ok = isinstance(v, Abs) and v.cls is OL and \
                    v.attrs.get("line") is segs[name] and \
                    v.attrs.get("orient") == o
                ctx.oblige(ok)
                if not ok:
                    ctx.violation(
                        R, f_init.short, cell + ",field=sid%d" % snum,
                        "after reference initialisation sid%d does not hold "
                        "the segment %s with orientation %s" % (snum, name, o))
    ctx.exhaustive[R] = True
    ctx.sample({"rule": R, "cells": n_comp,
                "example": "beg1=3,end1=7$,beg2=0,end2=5,orient=++ -> L, "
                "a:dovetails_R b:dovetails_L"})

    # ------------------------------------------------------------------
    # (5) GFA1 L/C reference initialisation + from_end/to_end
    R = "C11.gfa1_filing"
    ctx.rule(R, "L line: from '+' -> R end of from, '-' -> L; to '+' -> L end "
             "of to, '-' -> R; C line: container gets edges_to_contained, "
             "contained gets edges_to_containers; all orientation pairs, "
             "distinct segments and self-links", floor=16)
    S1 = repo.cls("line.segment.GFA1")
    for clsname, rt in (("line.edge.Link", "L"), ("line.edge.Containment", "C")):
        cls = repo.cls(clsname)
        f_i = ctx.anchor("%s._initialize_references" % clsname,
                         cls.find_method("_initialize_references"))
        for o1, o2, same in itertools.product(spec.ORIENTS, spec.ORIENTS,
                                              [False, True]):
            ctx.instance(R)
            tn = "a" if same else "b"
            segs = {"a": Abs(S1, label="seg:a", name="a")}
            if not same:
                segs["b"] = Abs(S1, label="seg:b", name="b")
            gfa = Abs(None, label="gfa", __gfa__=True, segments=segs,
                      _segments_first_order=False)
            line = Abs(cls, label="line", from_segment="a", from_orient=o1,
                       to_segment=tn, to_orient=o2, _gfa=gfa)
            out = eval_function(repo, f_i, [line], hooks=hooks)
            cell = "record=%s,orient=%s%s,%s" % (
                rt, o1, o2, "self-link" if same else "a->b")
            want = [("seg:a", spec.ref_refkey_gfa1(rt, "from", o1)),
                    ("seg:" + tn, spec.ref_refkey_gfa1(rt, "to", o2))]
            got = [(e[1], e[2]) for e in out[2] if e[0] == "addref"]
            ok = out[0] == "return" and sorted(got) == sorted(want)
            ctx.oblige(ok)
            if not ok:
                ctx.violation(R, f_i.short, cell,
                              "back-references filed %r, the specification "
                              "says %r" % (got, want))
            ok = line.attrs.get("from_segment") is segs["a"] and \
                line.attrs.get("to_segment") is segs[tn]
            ctx.oblige(ok)
            if not ok:
                ctx.violation(R, f_i.short, cell + ",fields",
                              "from_segment/to_segment do not hold the "
                              "segments after reference initialisation")
            ctx.sample({"rule": R, "cell": cell, "filed": got}, limit=60)
    ctx.exhaustive[R] = True

    R = "C11.from_to_end"
    ctx.rule(R, "FromTo.from_end/to_end: (from_segment, R if from_orient is + "
             "else L) and (to_segment, L if to_orient is + else R); other_end "
             "returns the opposite end", floor=8)
    link = repo.cls("line.edge.Link")
    f_fe = ctx.anchor("FromTo.from_end", link.find_method("from_end"))
    f_te = ctx.anchor("FromTo.to_end", link.find_method("to_end"))
    f_oe = ctx.anchor("FromTo.other_end", link.find_method("other_end"))
    for o1, o2 in itertools.product(spec.ORIENTS, spec.ORIENTS):
        sa = Abs(S1, label="seg:a", name="a")
        sb = Abs(S1, label="seg:b", name="b")
        line = Abs(link, label="link", from_segment=sa, from_orient=o1,
                   to_segment=sb, to_orient=o2)
        for f, role, seg, o in ((f_fe, "from", sa, o1), (f_te, "to", sb, o2)):
            ctx.instance(R)
            out = eval_function(repo, f, [line], hooks=hooks)
            want = spec.ref_link_end(role, o)
            v = out[1] if out[0] == "return" else None
            ok = isinstance(v, Abs) and v.attrs.get("segment") is seg and \
                v.attrs.get("end_type") == want
            ctx.oblige(ok)
            cell = "%s_orient=%s" % (role, o)
            if not ok:
                ctx.violation(R, f.short, cell,
                              "%s end is %r, the specification says the %s end "
                              "of the %s segment" % (role, v and v.attrs, want,
                                                     role))
        # other_end
        SE = repo.cls("SegmentEnd")
        fe = Abs(SE, segment=sa, end_type=spec.ref_link_end("from", o1),
                 name="a")
        te = Abs(SE, segment=sb, end_type=spec.ref_link_end("to", o2),
                 name="b")
        for given, want in ((fe, te), (te, fe)):
            ctx.instance(R)
            out = eval_function(repo, f_oe, [line, given], hooks=hooks)
            v = out[1] if out[0] == "return" else None
            ok = isinstance(v, Abs) and \
                v.attrs.get("name") == want.attrs["name"] and \
                v.attrs.get("end_type") == want.attrs["end_type"]
            ctx.oblige(ok)
            if not ok:
                ctx.violation(R, f_oe.short,
                              "orient=%s%s,given=%s%s" % (
                                  o1, o2, given.attrs["name"],
                                  given.attrs["end_type"]),
                              "other_end does not return the opposite end")
    ctx.exhaustive[R] = True

    # ------------------------------------------------------------------
    # (6) gaps
    R = "C11.gap_filing"
    ctx.rule(R, "G line: sid1 end is R for '+', L for '-'; sid2 end is L for "
             "'+', R for '-'; table of _refkey_for_s and the back-references "
             "filed by _initialize_references", floor=8)
    G = repo.cls("line.Gap")
    f_g = ctx.anchor("Gap._refkey_for_s", G.find_method("_refkey_for_s"))
    f_gi = ctx.anchor("Gap._initialize_references",
                      G.find_method("_initialize_references"))
    for o1, o2 in itertools.product(spec.ORIENTS, spec.ORIENTS):
        for snum in (1, 2):
            ctx.instance(R)
            g = Abs(G, label="gap", sid1=ol("a", o1), sid2=ol("b", o2))
            out = eval_function(repo, f_g, [g, snum], hooks=hooks)
            ref = spec.ref_gap_key(snum, o1, o2)
            ok = out[0] == "return" and out[1] == ref
            ctx.oblige(ok)
            cell = "snum=%d,orient=%s%s" % (snum, o1, o2)
            if not ok:
                ctx.violation(R, f_g.short, cell,
                              "gap is filed under %r, the specification says "
                              "%s" % (out[1], ref))
        segs = {"a": Abs(S2, label="seg:a", name="a"),
                "b": Abs(S2, label="seg:b", name="b")}
        gfa = Abs(None, label="gfa", __gfa__=True, segments=segs,
                  _segments_first_order=False)
        g = Abs(G, label="gap", sid1=ol("a", o1), sid2=ol("b", o2), _gfa=gfa)
        out = eval_function(repo, f_gi, [g], hooks=hooks)
        got = sorted((e[1], e[2]) for e in out[2] if e[0] == "addref")
        want = sorted([("seg:a", spec.ref_gap_key(1, o1, o2)),
                       ("seg:b", spec.ref_gap_key(2, o1, o2))])
        ok = out[0] == "return" and got == want
        ctx.oblige(ok)
        if not ok:
            ctx.violation(R, f_gi.short, "orient=%s%s" % (o1, o2),
                          "back-references filed %r, the specification says %r"
                          % (got, want))
    ctx.exhaustive[R] = True

    # ------------------------------------------------------------------
    # (7) invert
    R = "C11.invert"
    ctx.rule(R, "gfapy.invert maps + <-> -, L <-> R and refuses anything else "
             "with a library error", floor=5)
    f_inv = ctx.anchor("gfapy.invert", repo.gfapy("invert"))
    for sym in ["+", "-", "L", "R", "x"]:
        ctx.instance(R)
        out = eval_function(repo, f_inv, [sym], hooks=hooks)
        if sym in spec.INVERT:
            ok = out[0] == "return" and out[1] == spec.INVERT[sym]
        else:
            ok = out[0] == "raise" and is_library_error(repo, f_inv.module,
                                                        out[1])
        ctx.oblige(ok)
        if not ok:
            ctx.violation(R, f_inv.short, "symbol=%s" % sym,
                          "invert(%r) gives %r" % (sym, out[1]))
    ctx.exhaustive[R] = True

    # ------------------------------------------------------------------
    # (8) is_dovetail / is_containment / is_internal  and GFA1 type
    R = "C11.type_predicates"
    ctx.rule(R, "is_dovetail/is_containment/is_internal are true exactly for "
             "alignment type L/C/I; for GFA1 lines the alignment type is the "
             "record type", floor=11)
    for name, letter in (("is_dovetail", "L"), ("is_containment", "C"),
                         ("is_internal", "I")):
        f = ctx.anchor("edge.%s" % name, E.find_method(name))
        for t in "LCI":
            ctx.instance(R)
            se = Abs(E, label="edge", _alignment_type=t)
            out = eval_function(repo, f, [se], hooks=hooks)
            ok = out[0] == "return" and bool(out[1]) == (t == letter)
            ctx.oblige(ok)
            if not ok:
                ctx.violation(R, f.short, "type=%s" % t,
                              "%s() is %r for an edge of type %s" %
                              (name, out[1], t))
    for clsname, rt in (("line.edge.Link", "L"), ("line.edge.Containment", "C")):
        ctx.instance(R)
        cls = repo.cls(clsname)
        f = ctx.anchor("%s._alignment_type" % clsname,
                       cls.find_method("_alignment_type"))
        out = eval_function(repo, f, [Abs(cls, label="line")], hooks=hooks)
        ok = out[0] == "return" and out[1] == rt
        ctx.oblige(ok)
        if not ok:
            ctx.violation(R, f.short, "record=%s" % rt,
                          "alignment type of a %s line is %r" % (rt, out[1]))
    ctx.exhaustive[R] = True

    # ------------------------------------------------------------------
    # (9) _segment_role / _is_sid1_from  and agreement with the filing
    R = "C11.gfa1_roles"
    ctx.rule(R, "ToGFA1._segment_role and _is_sid1_from over coordinates and "
             "orientations: the side GFA1 calls 'from' is the container, or "
             "the side whose oriented suffix overlaps; for containments it is "
             "the side filed under edges_to_contained", floor=200)
    f_role = ctx.anchor("ToGFA1._segment_role", E.find_method("_segment_role"))
    f_from = ctx.anchor("ToGFA1._is_sid1_from", E.find_method("_is_sid1_from"))
    for b, e, o in itertools.product(legal, legal, spec.ORIENTS):
        if spec.ref_substring_type(pos_tuple(b), pos_tuple(e)) in ("error",
                                                                   None):
            continue
        ctx.instance(R)
        out = eval_function(repo, f_role, [b, e, o], hooks=hooks)
        ref = spec.ref_segment_role(pos_tuple(b)[0] == 0, pos_tuple(e)[1], o)
        ok = out[0] == "return" and out[1] == ref
        ctx.oblige(ok)
        if not ok:
            ctx.violation(R, f_role.short,
                          "beg=%s,end=%s,orient=%s" % (fmt(b), fmt(e), o),
                          "role is %r, expected %s" % (out[1], ref))
    for b1, e1, b2, e2 in itertools.product(legal, legal, legal, legal):
        k1 = spec.ref_substring_type(pos_tuple(b1), pos_tuple(e1))
        k2 = spec.ref_substring_type(pos_tuple(b2), pos_tuple(e2))
        if k1 in ("error", None) or k2 in ("error", None):
            continue
        for o1, o2 in itertools.product(spec.ORIENTS, spec.ORIENTS):
            ctx.instance(R)
            se = Abs(E, label="edge", sid1=ol("a", o1), sid2=ol("b", o2),
                     beg1=b1, end1=e1, beg2=b2, end2=e2)
            out = eval_function(repo, f_from, [se], hooks=hooks)
            r1 = spec.ref_segment_role(pos_tuple(b1)[0] == 0,
                                       pos_tuple(e1)[1], o1)
            r2 = spec.ref_segment_role(pos_tuple(b2)[0] == 0,
                                       pos_tuple(e2)[1], o2)
            ref = spec.ref_is_sid1_from(r1, r2)
            cell = "beg1=%s,end1=%s,beg2=%s,end2=%s,orient=%s%s" % (
                fmt(b1), fmt(e1), fmt(b2), fmt(e2), o1, o2)
            t = spec.ref_alignment_type(k1, k2, o1, o2)
            if ref is None:
                ok = out[0] == "raise" and is_library_error(
                    repo, f_from.module, out[1])
                # an undefined direction must coincide with an internal edge
                ok = ok and t == "I"
            else:
                ok = out[0] == "return" and out[1] is ref
                if t == "I":
                    ok = False
                if ok and t == "C":
                    from_snum = 1 if ref else 2
                    ok = rk_table[(from_snum, k1, k2, o1, o2)] == \
                        "edges_to_contained"
            ctx.oblige(ok)
            if not ok:
                ctx.violation(R, f_from.short, cell,
                              "_is_sid1_from gives %r for an edge of type %s "
                              "with roles %s/%s (expected %r, and the 'from' "
                              "side of a containment must be the one filed "
                              "under edges_to_contained)" %
                              (out[1], t, r1, r2, ref))
    ctx.exhaustive[R] = True

    # ------------------------------------------------------------------
    # (10) derived queries read the collections the reference names
    R = "C11.query_reads"
    ctx.rule(R, "each derived query of a segment (dovetails, gaps, "
             "containments, neighbours_L/R, containers, contained, edges, "
             "dovetails_of_end, gaps_of_end) reads exactly the collections the "
             "reference names, and containers/contained take the from/to "
             "segment of the edge", floor=9)
    segcls = repo.cls("line.segment.GFA2")
    allkeys = set(record_table(repo, segcls).refkeys) | {
        "dovetails", "containments", "gaps", "internals", "edges"}
    for q, want in spec.SEGMENT_QUERY_READS.items():
        ctx.instance(R)
        f = ctx.anchor("segment.%s" % q, segcls.find_method(q))
        got = {n.attr for n in ast.walk(f.node)
               if isinstance(n, ast.Attribute) and isinstance(n.value, ast.Name)
               and n.value.id == "self" and n.attr in allkeys}
        ok = got == want
        ctx.oblige(ok)
        if not ok:
            ctx.violation(R, f.short, q,
                          "reads %s, the specification says %s" %
                          (sorted(got), sorted(want)))
    for q, attr in (("containers", "from_segment"), ("contained", "to_segment")):
        ctx.instance(R)
        f = segcls.find_method(q)
        elts = [n.elt for n in ast.walk(f.node) if isinstance(n, ast.ListComp)]
        ok = len(elts) == 1 and isinstance(elts[0], ast.Attribute) and \
            elts[0].attr == attr
        ctx.oblige(ok)
        if not ok:
            ctx.violation(R, f.short, q + ".element",
                          "%s must list the %s of each edge" % (q, attr))
    for q in ("neighbours", "neighbours_L", "neighbours_R"):
        ctx.instance(R)
        f = ctx.anchor("segment.%s" % q, segcls.find_method(q))
        elts = [n.elt for n in ast.walk(f.node) if isinstance(n, ast.ListComp)]
        ok = len(elts) == 1 and unparse(elts[0]) in ("l.other(self)",)
        if not ok and len(elts) == 1:
            e = elts[0]
            ok = isinstance(e, ast.Call) and isinstance(e.func, ast.Attribute) \
                and e.func.attr == "other" and len(e.args) == 1 and \
                unparse(e.args[0]) == "self"
        ctx.oblige(ok)
        if not ok:
            ctx.violation(R, f.short, q + ".element",
                          "%s must list edge.other(self) for each dovetail" % q)
    # neighbours reads dovetails; edges = dovetails + containments + internals
    for q, want in (("neighbours", {"dovetails"}),
                    ("edges", {"dovetails", "containments", "internals"})):
        ctx.instance(R)
        f = ctx.anchor("segment.%s" % q, segcls.find_method(q))
        got = {n.attr for n in ast.walk(f.node)
               if isinstance(n, ast.Attribute) and isinstance(n.value, ast.Name)
               and n.value.id == "self" and n.attr in allkeys}
        ok = got == want
        ctx.oblige(ok)
        if not ok:
            ctx.violation(R, f.short, q, "reads %s, the specification says %s"
                          % (sorted(got), sorted(want)))

    class GetattrHooks(LineHooks):
        def function(self, ev, node, args, kwargs):
            if isinstance(node.func, ast.Name) and node.func.id == "getattr" \
                    and len(args) >= 2 and isinstance(args[0], Abs):
                return ev.getattr(args[0], args[1])
            return NotImplemented
    gh = GetattrHooks(repo)
    for q, pfx in (("dovetails_of_end", "dovetails_"), ("gaps_of_end", "gaps_"),
                   ("neighbours_of_end", "neighbours_")):
        f = ctx.anchor("segment.%s" % q, segcls.find_method(q))
        for et in ("L", "R"):
            ctx.instance(R)
            marks = {pfx + "L": "<%sL>" % pfx, pfx + "R": "<%sR>" % pfx}
            s = Abs(segcls, label="seg", **marks)
            out = eval_function(repo, f, [s, et], hooks=gh)
            ok = out[0] == "return" and out[1] == "<%s%s>" % (pfx, et)
            ctx.oblige(ok)
            if not ok:
                ctx.violation(R, f.short, "%s(%s)" % (q, et),
                              "does not return the collection %s%s" % (pfx, et))
    ctx.exhaustive[R] = True

    # ------------------------------------------------------------------
    # (11) Gfa-level collections: dovetails / containments select by type
    R = "C11.gfa_collections"
    ctx.rule(R, "Gfa.dovetails lists GFA1 links and the E lines that are "
             "dovetails; Gfa.containments lists C lines and the E lines that "
             "are containments; for version gfa1, gfa2 and undetermined",
             floor=6)
    gfacls = repo.cls("Gfa")
    for q, gfa1_attr, pred in (("dovetails", "_gfa1_links", "is_dovetail"),
                               ("containments", "_gfa1_containments",
                                "is_containment")):
        f = ctx.anchor("Gfa.%s" % q, gfacls.find_method(q))
        for version in ("gfa1", "gfa2", None):
            ctx.instance(R)
            mk = {}
            edges = []
            for t in "LCI":
                edges.append(Abs(E, label="E:%s" % t, _alignment_type=t))
            g = Abs(gfacls, label="gfa", _version=version,
                    _gfa1_links=["<L>"], _gfa1_containments=["<C>"],
                    _gfa2_edges=edges)
            out = eval_function(repo, f, [g], hooks=hooks)
            letter = "L" if q == "dovetails" else "C"
            e_sel = [e for e in edges if e.attrs["_alignment_type"] == letter]
            want = {"gfa1": ["<%s>" % letter], "gfa2": e_sel,
                    None: ["<%s>" % letter] + e_sel}[version]
            ok = out[0] == "return" and list(out[1]) == want
            ctx.oblige(ok)
            if not ok:
                ctx.violation(R, f.short, "version=%s" % version,
                              "returns %r, expected %r" % (out[1], want))
    ctx.exhaustive[R] = True
    ctx.notes["domain"] = ("positions {0,3,5,7$} (+0$ and 9 for error cells), "
                           "orientations {+,-}, interval kinds "
                           "{pfx,sfx,whole,internal}")


def fmt(p):
    if isinstance(p, Abs):
        return "%s$" % p.attrs["value"]
    return str(p)


def outcome_kind(out):
    if out[0] == "raise":
        return "!" + str(out[1])
    v = out[1]
    if isinstance(v, tuple) and v:
        return v[0]
    return v
