"""CODEC: what the datatype modules of gfapy/field accept and return.

* accept_language(func): the set of strings a string validator accepts, as a
  DFA, by symbolic evaluation of its body over languages (re.match/re.search
  atoms, equality with constants, str.find atoms, calls of sibling validators);
  json.loads is a non-regular residual and is flagged, not modelled.
* return_types(func): classes a decoder can return (static rules).
* accepted_types(func, classes): classes a decoded-value validator / encoder
  lets through its isinstance gate (TABLE evaluation on abstract objects).
"""
import ast

from . import rx
from .model import (AnalysisError, FuncInfo, ClassInfo, Module, External, Const,
                    unparse, dotted)
from .tables import Abs, Evaluator, Hooks, Raised, Unsupported


class Residual(Exception):
    pass


def field_modules(repo):
    """{datatype name: Module} from Field.FIELD_MODULE (fails closed)."""
    fieldcls = repo.cls("Field")
    node = fieldcls.attrs.get("FIELD_MODULE")
    if not isinstance(node, ast.Dict):
        raise AnalysisError("anchor vanished: Field.FIELD_MODULE dict")
    out = {}
    for k, v in zip(node.keys, node.values):
        if not isinstance(k, ast.Constant):
            raise AnalysisError("Field.FIELD_MODULE: non-constant key")
        ent = repo.resolve_expr(fieldcls.module, v)
        if not isinstance(ent, Module):
            raise AnalysisError("Field.FIELD_MODULE[%r] is not a module" %
                                k.value)
        out[k.value] = ent
    return out


def module_func(repo, module, name):
    ent = repo.module_attr(module.name, name)
    return ent if isinstance(ent, FuncInfo) else None


# --------------------------------------------------------------------------
# languages

class LangEval:
    """Symbolic evaluation of a string validator: which strings reach the end
    (or a return) without raising."""

    def __init__(self, repo, func, depth=0):
        self.repo = repo
        self.func = func
        self.param = func.params[0] if func.params else None
        self.residual = []      # non-regular conditions met on the way
        self.depth = depth
        self.regexes = []       # (pattern, mode) used

    def accepted(self):
        acc, cont = self.block(self.func.node.body, rx.everything())
        return acc.union(cont)

    # returns (accepted-by-return language, language that falls through)
    def block(self, body, cur):
        acc = rx.nothing()
        for st in body:
            a, cur = self.stmt(st, cur)
            acc = acc.union(a)
        return acc, cur

    def stmt(self, st, cur):
        if isinstance(st, ast.Return):
            return cur, rx.nothing()
        if isinstance(st, ast.Raise):
            return rx.nothing(), rx.nothing()
        if isinstance(st, ast.Pass):
            return rx.nothing(), cur
        if isinstance(st, ast.Expr):
            if isinstance(st.value, ast.Constant):
                return rx.nothing(), cur
            if isinstance(st.value, ast.Call):
                lang = self.call_language(st.value)
                if lang is not None:
                    return rx.nothing(), cur.intersect(lang)
            raise Unsupported("validator %s: statement %s" %
                              (self.func.qualname, unparse(st)[:60]))
        if isinstance(st, ast.If):
            t = self.test(st.test)
            a1, c1 = self.block(st.body, cur.intersect(t))
            a2, c2 = self.block(st.orelse, cur.minus(t))
            return a1.union(a2), c1.union(c2)
        if isinstance(st, ast.Try):
            # try: json.loads(string) except: raise ...   (non regular)
            if any(isinstance(n, ast.Call) and dotted(n.func) == "json.loads"
                   for n in ast.walk(st)):
                self.residual.append("json.loads")
                return rx.nothing(), cur
        if isinstance(st, ast.Assign):
            # e.g. string = unsafe_encode(obj): not a string validator shape
            raise Unsupported("validator %s: assignment %s" %
                              (self.func.qualname, unparse(st)[:60]))
        raise Unsupported("validator %s: statement %s" %
                          (self.func.qualname, unparse(st)[:60]))

    def is_param(self, node):
        return isinstance(node, ast.Name) and node.id == self.param

    def call_language(self, call):
        """language accepted by calling a sibling validator on the param"""
        if len(call.args) == 1 and self.is_param(call.args[0]) and \
                isinstance(call.func, ast.Name):
            ent = self.repo.module_attr(self.func.module.name, call.func.id)
            if isinstance(ent, FuncInfo):
                if self.depth > 5:
                    raise Unsupported("validator recursion")
                sub = LangEval(self.repo, ent, self.depth + 1)
                lang = sub.accepted()
                self.residual.extend(sub.residual)
                self.regexes.extend(sub.regexes)
                return lang
        return None

    def const_pattern(self, node, compiled):
        """the pattern text behind a module-level name (NAME = "..." or
        NAME = re.compile("...") without flags); None when not that shape"""
        if not isinstance(node, ast.Name):
            return None
        vals = [st.value for st in self.func.module.tree.body
                if isinstance(st, ast.Assign) and len(st.targets) == 1 and
                isinstance(st.targets[0], ast.Name) and
                st.targets[0].id == node.id]
        if len(vals) != 1:
            return None
        v = vals[0]
        if compiled:
            if isinstance(v, ast.Call) and dotted(v.func) == "re.compile" \
                    and len(v.args) == 1 and not v.keywords:
                v = v.args[0]
            else:
                return None
        if isinstance(v, ast.Constant) and isinstance(v.value, str):
            return v.value
        return None

    def test(self, node):
        """language of strings for which the test is true"""
        if isinstance(node, ast.UnaryOp) and isinstance(node.op, ast.Not):
            return self.test(node.operand).complement()
        if isinstance(node, ast.BoolOp):
            langs = [self.test(v) for v in node.values]
            out = langs[0]
            for l in langs[1:]:
                out = out.intersect(l) if isinstance(node.op, ast.And) \
                    else out.union(l)
            return out
        if isinstance(node, ast.Call):
            d = dotted(node.func)
            if d in ("re.match", "re.search", "re.fullmatch") and \
                    len(node.args) == 2 and self.is_param(node.args[1]) and \
                    isinstance(node.args[0], ast.Constant) and \
                    isinstance(node.args[0].value, str):
                mode = d.split(".")[1]
                self.regexes.append((node.args[0].value, mode))
                return rx.from_regex(node.args[0].value, mode)
            # str predicates on the parameter, as languages over the
            # checker's alphabet (ASCII + one class for everything else; the
            # non-ASCII class is taken as accepted: some of it is)
            if isinstance(node.func, ast.Attribute) and not node.args and \
                    self.is_param(node.func.value) and \
                    node.func.attr in STR_PREDICATES:
                pat = STR_PREDICATES[node.func.attr]
                self.regexes.append((pat, "fullmatch"))
                return rx.from_regex(pat, "fullmatch")
            # pattern given by a module constant, or a precompiled pattern
            # object: NAME = re.compile("...") ; NAME.match(string)
            pat = mode = None
            if d in ("re.match", "re.search", "re.fullmatch") and \
                    len(node.args) == 2 and self.is_param(node.args[1]):
                pat = self.const_pattern(node.args[0], compiled=False)
                mode = d.split(".")[1]
            elif isinstance(node.func, ast.Attribute) and \
                    node.func.attr in ("match", "search", "fullmatch") and \
                    len(node.args) == 1 and self.is_param(node.args[0]):
                pat = self.const_pattern(node.func.value, compiled=True)
                mode = node.func.attr
            if pat is not None:
                self.regexes.append((pat, mode))
                return rx.from_regex(pat, mode)
        if isinstance(node, ast.Compare) and len(node.ops) == 1:
            left, op, right = node.left, node.ops[0], node.comparators[0]
            if self.is_param(left) and isinstance(right, ast.Constant) and \
                    isinstance(right.value, str):
                l = rx.literal(right.value)
                if isinstance(op, ast.Eq):
                    return l
                if isinstance(op, ast.NotEq):
                    return l.complement()
            if self.is_param(left) and isinstance(op, (ast.In, ast.NotIn)) and \
                    isinstance(right, (ast.List, ast.Tuple, ast.Set)) and \
                    all(isinstance(e, ast.Constant) and isinstance(e.value, str)
                        for e in right.elts):
                l = rx.nothing()
                for e in right.elts:
                    l = l.union(rx.literal(e.value))
                return l if isinstance(op, ast.In) else l.complement()
            # string.find(c) != -1
            if isinstance(left, ast.Call) and \
                    isinstance(left.func, ast.Attribute) and \
                    left.func.attr == "find" and self.is_param(left.func.value) \
                    and len(left.args) == 1 and \
                    isinstance(left.args[0], ast.Constant) and \
                    isinstance(left.args[0].value, str) and \
                    len(left.args[0].value) == 1 and \
                    isinstance(right, ast.UnaryOp) and \
                    isinstance(right.op, ast.USub) and \
                    isinstance(right.operand, ast.Constant) and \
                    right.operand.value == 1:
                l = rx.containing(left.args[0].value)
                if isinstance(op, ast.NotEq):
                    return l
                if isinstance(op, ast.Eq):
                    return l.complement()
        raise Unsupported("validator %s: test %s" % (self.func.qualname,
                                                     unparse(node)[:70]))


STR_PREDICATES = {
    # str.isprintable(): true for the empty string
    "isprintable": r"(?:[ -~]|[^\x00-\x7f])*",
    "isdigit": r"(?:[0-9]|[^\x00-\x7f])+",
    "isdecimal": r"(?:[0-9]|[^\x00-\x7f])+",
    "isnumeric": r"(?:[0-9]|[^\x00-\x7f])+",
    "isalpha": r"(?:[A-Za-z]|[^\x00-\x7f])+",
    "isalnum": r"(?:[A-Za-z0-9]|[^\x00-\x7f])+",
    "isascii": r"[\x00-\x7f]*",
    "isspace": r"(?:[ \t\n\r\x0b\x0c\x1c-\x1f]|[^\x00-\x7f])+",
    "isupper": r"(?:[^a-z])*[A-Z](?:[^a-z])*",
    "islower": r"(?:[^A-Z])*[a-z](?:[^A-Z])*",
}


def accept_language(repo, func):
    """(DFA, residual list, regexes used)"""
    le = LangEval(repo, func)
    lang = le.accepted()
    return lang, le.residual, le.regexes


# --------------------------------------------------------------------------
# return types of decoders

JSON_TYPES = {"dict", "list", "str", "int", "float", "bool", "NoneType"}


def return_types(repo, func, _seen=None):
    """Set of class names a decoder may return ('?' when unknown)."""
    _seen = _seen or set()
    if func in _seen:
        return set()
    _seen = _seen | {func}
    env = {}
    if func.params:
        env[func.params[0]] = {"str"}
    out = set()

    def ty(node):
        if isinstance(node, ast.Name):
            if node.id in env:
                return set(env[node.id])
            return {"?"}
        if isinstance(node, ast.Constant):
            return {type(node.value).__name__}
        if isinstance(node, (ast.List, ast.ListComp)):
            return {"list"}
        if isinstance(node, (ast.Dict, ast.DictComp)):
            return {"dict"}
        if isinstance(node, ast.IfExp):
            return ty(node.body) | ty(node.orelse)
        if isinstance(node, ast.Call):
            d = dotted(node.func)
            if d in ("int", "float", "str", "list", "dict"):
                return {d}
            if d == "json.loads":
                return set(JSON_TYPES)
            ent = repo.resolve_expr(func.module, node.func) if d else None
            if isinstance(ent, ClassInfo):
                n = ent.name
                if n == "Alignment":
                    ver = None
                    for k in node.keywords:
                        if k.arg == "version" and isinstance(k.value,
                                                             ast.Constant):
                            ver = k.value.value
                    t = {"CIGAR", "AlignmentPlaceholder"}
                    if ver != "gfa1":
                        t.add("Trace")
                    return t
                if n == "LastPos":
                    return {"LastPos", "int"}
                return {n}
            if isinstance(ent, FuncInfo):
                if ent.cls is not None and ent.name == "from_string":
                    return {ent.cls.name}
                return return_types(repo, ent, _seen)
            if isinstance(node.func, ast.Attribute) and \
                    node.func.attr == "split":
                return {"list"}
            return {"?"}
        return {"?"}

    for n in ast.walk(func.node):
        if isinstance(n, ast.Assign) and len(n.targets) == 1 and \
                isinstance(n.targets[0], ast.Name):
            env.setdefault(n.targets[0].id, set()).update(ty(n.value))
    for n in ast.walk(func.node):
        if isinstance(n, ast.Return) and n.value is not None:
            out |= ty(n.value)
    return out


# --------------------------------------------------------------------------
# accepted classes of validate_decoded / encode

class GateHooks(Hooks):
    """Everything past the isinstance gate is accepted: method calls on the
    abstract value return an opaque value, re.* on non-strings is skipped."""
    regex_on_abstract = True

    def method(self, ev, base, name, args, kwargs, node):
        if isinstance(base, Abs):
            return Abs(None, label="opaque")
        if isinstance(base, str) and name in ("format", "find"):
            return NotImplemented
        return NotImplemented

    def getattr(self, ev, base, attr):
        if isinstance(base, Abs):
            if attr in base.attrs:
                return base.attrs[attr]
            return Abs(None, label="%s.%s" % (base.label, attr))
        return NotImplemented

    def function(self, ev, node, args, kwargs):
        d = dotted(node.func)
        if d in ("re.match", "re.search"):
            return True
        if d in ("json.dumps", "str", "repr"):
            return "x"
        if d in ("json.loads",):
            return {}
        if d in ("math.isfinite",):
            return True
        if d in ("map",):
            return []
        return NotImplemented

    def construct(self, ev, cls, args, kwargs):
        return Abs(cls, label="new:%s" % cls.name)

    def order(self, ev, op, a, b):
        return False

    def to_str(self, ev, v):
        return "x"

    def try_stmt(self, ev, st):
        ev.block(st.body)
        return None


def sample_value(repo, clsname):
    """abstract/concrete sample of a value class"""
    simple = {"int": 5, "float": 1.5, "str": "x", "bool": True,
              "NoneType": None, "dict": {"a": 1}}
    if clsname in simple:
        return simple[clsname]
    if clsname == "list":
        return []
    paths = {"Line": "Line", "segment.GFA1": "line.segment.GFA1",
             "segment.GFA2": "line.segment.GFA2"}
    ent = repo.gfapy(paths.get(clsname, clsname))
    if not isinstance(ent, ClassInfo):
        raise AnalysisError("anchor vanished: value class gfapy.%s" % clsname)
    return Abs(ent, label=clsname, name="n", orient="+", line="n", value=3)


def accepts_type(repo, func, value):
    """True if func(value) does not raise gfapy.TypeError at its type gate;
    None if the evaluator cannot follow the function."""
    ev = Evaluator(repo, func.module, {}, None, GateHooks())
    try:
        ev.inline(func, [value], {})
        return True
    except Raised as r:
        return not str(r.cls).endswith("TypeError")
    except Unsupported:
        return None
    except AnalysisError:
        return None


def gate_outcome(repo, func, value):
    """'accept' | 'TypeError' (library) | 'foreign:<class>' | None"""
    ev = Evaluator(repo, func.module, {}, None, GateHooks())
    try:
        ev.inline(func, [value], {})
        return "accept"
    except Raised as r:
        c = str(r.cls)
        if c.startswith("builtins.") or c in ("Exception",):
            return "foreign:" + c
        return "TypeError" if c.endswith("TypeError") else "accept"
    except AnalysisError:
        return None
