"""EFFECT: interprocedural may-write-effect and alias analysis.

Abstract value  = set of locations (root, head, d, k):
    root  'self' | 'p<i>' (i-th parameter, self excluded) | 'glob'
    head  first attribute on the access path from the root ('[]' for an element
          access directly on the root; None while the value is the root itself)
    d     number of dereferences from the root to the aliased object (cap 3)
    k     number of *fresh* containers/objects wrapped around it (cap 3)
The empty set is a completely fresh (or immutable/unknown-pure) value.

Effect          = (root, head, depth, origin) : something `depth` dereferences
                  below `root` (reached through `head`) may be written;
                  origin = (function short name, normalised construct, kind)
Summaries (effects, returned value) are iterated to a fixpoint over the whole
program.  Call resolution: static entities through the namespace, `self` by
class-hierarchy analysis over the leaf classes using a mixin, `super()` by MRO,
anything else by name (every class defining the method) plus the builtin
container methods.  The result over-approximates the writes a call may make.
"""
import ast
import re

from .model import (AnalysisError, ClassInfo, FuncInfo, Module, External, Const,
                    record_classes, record_table, unparse, dotted,
                    walk_no_nested)

CAP = 3

MUTATORS = {"append", "extend", "insert", "pop", "remove", "clear", "update",
            "add", "discard", "sort", "reverse", "setdefault", "popitem",
            "delete"}
SIZE_CHANGING = {"append", "extend", "insert", "pop", "remove", "clear",
                 "popitem", "discard", "add", "update", "setdefault", "delete"}
# builtin / stdlib callables building a new container over the same elements
COPY_FUNCS = {"list", "tuple", "set", "sorted", "reversed", "frozenset",
              "enumerate", "zip", "filter", "iter", "dict"}
FRESH_FUNCS = {"str", "int", "float", "len", "repr", "bool", "isinstance",
               "hasattr", "id", "hash", "type", "range", "sum", "min", "max",
               "abs", "round", "any", "all", "ord", "chr", "print", "format",
               "issubclass", "callable", "open", "deepcopy", "super", "next",
               "vars", "dir", "divmod", "bytes"}
COPY_METHODS = {"copy", "values", "items", "keys"}
DEREF_METHODS = {"get", "index", "count", "__iter__", "__getitem__"}
PURE_STR_METHODS = {"format", "join", "split", "rstrip", "strip", "lstrip",
                    "upper", "lower", "replace", "startswith", "endswith",
                    "isdigit", "find", "translate", "encode", "decode",
                    "groups", "group", "match", "search", "finditer", "sub",
                    "write", "read", "readline", "close", "flush", "maketrans",
                    "hexlify", "unhexlify", "loads", "dumps", "isfinite",
                    "splitlines", "partition", "rsplit", "title", "zfill",
                    "ljust", "rjust", "center", "isalpha", "isupper", "islower",
                    "intersection", "union", "difference", "issubset",
                    "__hash__", "__lt__", "__eq__", "__gt__", "__le__",
                    "__ge__", "__ne__"}

# names that, on a receiver other than `self`, denote the builtin container /
# string method (gfapy defines `append` only as an alias of Gfa.add_line, which
# library code never calls through an untyped receiver)
# every public method of the builtin value types (a call of one of these
# names on a receiver that is not a library object is not an undefined name)
BUILTIN_TYPE_METHODS = {
    n for t in (str, bytes, list, dict, set, frozenset, tuple, int, float)
    for n in dir(t) if not n.startswith("_")}

BUILTIN_ONLY = {"append", "extend", "insert", "pop", "remove", "clear",
                "update", "discard", "sort", "setdefault", "popitem", "keys",
                "values", "items", "copy", "index", "count", "join", "split",
                "format", "rstrip", "strip", "lstrip", "upper", "lower",
                "replace", "startswith", "endswith", "isdigit", "find",
                "translate", "groups", "group", "write", "readline", "read"}

TAG_RE = re.compile(r"^[A-Za-z][A-Za-z0-9]$")


def deref(v, head):
    out = set()
    for (r, h, d, k, via) in v:
        if r == "glob":
            continue        # module/class level tables hold immutable values
        if k > 0:
            if via is not None and head is not None and via != head:
                continue    # this attribute of the fresh object holds no alias
            out.add((r, h, d, k - 1, None))
        else:
            out.add((r, h if h is not None else head, min(CAP, d + 1), 0,
                     None))
    return frozenset(out)


def wrap(v, via=None):
    return frozenset((r, h, d, min(CAP, k + 1), via) for (r, h, d, k, _)
                     in v)


def elems_copy(v, head="[]"):
    """new container over the elements of v"""
    return wrap(deref(v, head), "[]")


EMPTY = frozenset()


class Summary:
    __slots__ = ("effects", "ret", "version", "_groups", "_gv")

    def __init__(self):
        self.effects = set()
        self.ret = EMPTY
        self.version = 0
        self._groups = {}
        self._gv = -1

    def key(self):
        return (len(self.effects), self.ret)

    def groups(self):
        """effects grouped by root: {root: frozenset((head, depth))}"""
        if self._gv != self.version:
            g = {}
            for (r, h, d, w) in self.effects:
                g.setdefault(r, set()).add((h, d, w))
            self._groups = {r: frozenset(v) for r, v in g.items()}
            self._gv = self.version
        return self._groups


class Site:
    """One resolved call/attribute site (for statistics and for rules)."""
    __slots__ = ("node", "callees", "how", "recv")

    def __init__(self, node, callees, how, recv=None):
        self.node = node
        self.callees = callees
        self.how = how
        self.recv = recv


class Program:
    """Whole-program resolver and effect fixpoint."""

    def __init__(self, repo, whitelist=None, size_only=False):
        self.repo = repo
        self.size_only = size_only
        self.Line = repo.cls("Line")
        self.by_name = {}       # method name -> [FuncInfo] (all classes)
        self.setters_by_name = {}
        self.props_by_name = {}
        for c in repo.classes.values():
            for n, f in c.methods.items():
                self.by_name.setdefault(n, []).append(f)
                if f.kind == "property":
                    self.props_by_name.setdefault(n, []).append(f)
            for n, f in c.setters.items():
                self.setters_by_name.setdefault(n, []).append(f)
            for n, a in c.aliases.items():
                f = c.own_method(n)
                if f is not None:
                    self.by_name.setdefault(n, []).append(f)
                    if f.kind == "property":
                        self.props_by_name.setdefault(n, []).append(f)
            for n, (f, kw) in c.generated.items():
                self.by_name.setdefault(n, []).append(f)
        self.field_names = set()
        self.refkeys = set()
        self.rec_tables = {}
        for c in record_classes(repo):
            t = record_table(repo, c)
            self.rec_tables[c] = t
            for f in t.field_accessors:
                self.field_names.add(f)
            for a in t.FIELD_ALIAS:
                self.field_names.add(a)
            self.refkeys.update(t.refkeys)
        self.f_get = repo.method("Line", "get")
        self.f_try_get = repo.method("Line", "try_get")
        self.f_set_existing = [f for f in self.by_name.get(
            "_set_existing_field", [])]
        self.f_set = [f for f in self.by_name.get("set", [])
                      if f.cls is not None and
                      any(self.Line in k.mro for k in repo.leaves_using(f.cls))]
        self.class_const_names = set()
        # class-level attributes initialised with a mutable container: one
        # object shared by every instance (and every Gfa) of the process
        self.class_mutable_names = set()
        for c in repo.classes.values():
            for n, v in c.attrs.items():
                if n.isupper() or n.startswith("_default_tag"):
                    self.class_const_names.add(n)
                if isinstance(v, (ast.List, ast.Dict, ast.Set, ast.ListComp,
                                  ast.DictComp, ast.SetComp)) or (
                        isinstance(v, ast.Call) and
                        (dotted(v.func) or "").split(".")[-1] in (
                            "list", "dict", "set", "defaultdict",
                            "OrderedDict", "bytearray", "deque")):
                    self.class_mutable_names.add(n)
        # tables that some function of the library edits under their own
        # name (Construction._apply_definitions and the register_* class
        # methods complete POSFIELDS, DATATYPE, ... at import) are editable
        # registries by design; the rest are constants that can only change
        # through an alias handed to code that writes its argument
        for m in repo.modules.values():
            for n in ast.walk(m.tree):
                tgt = None
                if isinstance(n, ast.Attribute) and \
                        isinstance(n.ctx, (ast.Store, ast.Del)):
                    tgt = n
                elif isinstance(n, ast.Subscript) and \
                        isinstance(n.ctx, (ast.Store, ast.Del)) and \
                        isinstance(n.value, ast.Attribute):
                    tgt = n.value
                elif isinstance(n, ast.Call) and \
                        isinstance(n.func, ast.Attribute) and \
                        n.func.attr in MUTATORS and \
                        isinstance(n.func.value, ast.Attribute):
                    tgt = n.func.value
                elif isinstance(n, ast.AugAssign) and \
                        isinstance(n.target, ast.Attribute):
                    tgt = n.target
                if tgt is not None:
                    self.class_mutable_names.discard(tgt.attr)
        self.field_module_funcs = self._field_module_funcs()
        self.summaries = {f: Summary() for f in repo.functions.values()}
        self.memo = {}
        self._cidx = {}
        self.whitelist = set(whitelist or ())   # (func short, head, kind-prefix)
        self._leaves = {}
        self._mos = {}
        self.direct = {}        # FuncInfo -> list of (effect) direct only
        self.sites = {}         # FuncInfo -> [Site]
        self.unresolved = []    # (FuncInfo, node)
        self.analyses = {}
        self.rounds = 0

    def _field_module_funcs(self):
        """decode/encode/... of all datatype modules (Field.FIELD_MODULE)."""
        out = {}
        fieldcls = self.repo.cls("Field")
        node = fieldcls.attrs.get("FIELD_MODULE")
        mods = set()
        if isinstance(node, ast.Dict):
            for v in node.values:
                ent = self.repo.resolve_expr(fieldcls.module, v)
                if isinstance(ent, Module):
                    mods.add(ent)
        self.field_modules = sorted(mods, key=lambda m: m.name)
        for m in mods:
            for name in ("decode", "unsafe_decode", "encode", "unsafe_encode",
                         "validate_encoded", "validate_decoded"):
                ent = self.repo.module_attr(m.name, name)
                if isinstance(ent, FuncInfo):
                    out.setdefault(name, []).append(ent)
        return out

    # -------------------------------------------------------------- fixpoint
    def run(self, max_steps=20000):
        import collections
        funcs = sorted(self.repo.functions.values(),
                       key=lambda f: (f.qualname.count("<locals>"),
                                      f.qualname))
        self.callers = {f: set() for f in funcs}
        self.recording = False
        work = collections.deque(funcs)
        queued = set(funcs)
        steps = 0
        while work:
            f = work.popleft()
            queued.discard(f)
            steps += 1
            if steps > max_steps:
                raise AnalysisError("effect fixpoint did not converge")
            fa = FuncAnalysis(self, f)
            fa.run()
            self.analyses[f] = fa
            for c in fa.deps:
                self.callers.setdefault(c, set()).add(f)
            s = self.summaries[f]
            before = s.key()
            s.effects |= fa.effects
            s.ret = s.ret | fa.ret
            if s.key() != before:
                s.version += 1
                for c in self.callers.get(f, ()):
                    if c not in queued:
                        queued.add(c)
                        work.append(c)
                for g in f.nested.values():
                    if g not in queued:
                        queued.add(g)
                        work.append(g)
        self.rounds = steps
        # final recording pass: direct effects, sites, provenance
        self.recording = True
        self.unresolved = []
        self.calls = {}
        for f in funcs:
            fa = FuncAnalysis(self, f)
            fa.run()
            self.analyses[f] = fa
            self.direct[f] = fa.direct
            self.sites[f] = fa.sites
            self.calls[f] = fa.calls
            if not fa.effects <= self.summaries[f].effects:
                raise AnalysisError("effect fixpoint unstable at %s" %
                                    f.qualname)

    def _contrib_index(self, f):
        idx = self._cidx.get(f)
        if idx is None:
            idx = {}
            for (callee, amap, site) in self.calls.get(f, ()):
                for r, hd in self.summaries[callee].groups().items():
                    if r == "glob":
                        for (h, d, w) in hd:
                            idx.setdefault((r, h, d, w), set()).add(
                                (callee, (r, h, d, w), site))
                        continue
                    for loc in amap.get(r, EMPTY):
                        for (h, d, w) in hd:
                            m = map_effect(loc, h, d)
                            if m is not None:
                                idx.setdefault(m + (w,), set()).add(
                                    (callee, (r, h, d, w), site))
            self._cidx[f] = idx
        return idx

    def origins(self, func, eff):
        """Direct-effect origins (function short name, construct, kind, line)
        from which effect `eff` of `func` may stem, with one call chain each:
        {origin: [chain of (function short, call construct)]}"""
        import collections
        out = {}
        queue = collections.deque([(func, eff, ())])
        seen = {(func, eff)}
        while queue:
            f, e, chain = queue.popleft()
            for (de, org) in self.direct.get(f, ()):
                if de == e and org not in out:
                    out[org] = list(chain)
            for (callee, ce, site) in sorted(
                    self._contrib_index(f).get(e, ()),
                    key=lambda x: (x[0].qualname, str(x[1]), x[2])):
                if (callee, ce) not in seen:
                    seen.add((callee, ce))
                    queue.append((callee, ce, chain + ((f.short, site),)))
        return out

    # ------------------------------------------------------------ resolution
    def leaves(self, cls):
        r = self._leaves.get(cls)
        if r is None:
            r = self._leaves[cls] = self.repo.leaves_using(cls)
        return r

    def methods_on_self(self, func, name):
        """Definitions of `name` reached by self.<name> inside `func`."""
        owner = func.owner_cls
        if owner is None:
            return []
        key = (owner, name)
        out = self._mos.get(key)
        if out is None:
            out = []
            for leaf in self.leaves(owner):
                m = leaf.find_method(name)
                if m is not None and m not in out:
                    out.append(m)
            self._mos[key] = out
        return list(out)

    def super_methods(self, func, name, explicit_after=None):
        owner = explicit_after or func.owner_cls
        if owner is None:
            return []
        out = []
        for leaf in self.leaves(func.owner_cls):
            m = leaf.find_method(name, after=owner)
            if m is not None and m not in out:
                out.append(m)
        return out

    def generated_kind(self, name, classes=None):
        """'field' / 'refkey' / None for a generated accessor name."""
        tabs = self.rec_tables
        if classes is not None:
            tabs = {c: t for c, t in tabs.items() if c in classes}
        kinds = set()
        for c, t in tabs.items():
            base = name[8:] if name.startswith("try_get_") else name
            if base in t.field_accessors or base in t.FIELD_ALIAS:
                kinds.add("field")
            if name in t.refkeys:
                kinds.add("refkey")
        return kinds


# --------------------------------------------------------------------------

class FuncAnalysis:
    def __init__(self, prog, func):
        self.prog = prog
        self.repo = prog.repo
        self.func = func
        self.env = {}
        self.effects = set()
        self.direct = []
        self.ret = EMPTY
        self.sites = []
        self.params = {}
        self.origin_of = {}
        self.deps = set()
        self.calls = []
        self.call_info = {}
        self.stmt_direct = {}
        self.cur_stmt = None
        self.all_w = any(f == func.short and h == "*" for (f, h, k) in
                         prog.whitelist)
        self._scalars = None
        self.selflike = set()
        self.notselflike = set(func.params) | set(func.kwonly)
        self.container_names = set()
        self.noncontainer_names = set(func.params) | set(func.kwonly)
        node = func.node
        names = list(func.params)
        self.self_name = None
        if func.has_self and names:
            self.self_name = names[0]
            self.env[names[0]] = frozenset([("self", None, 0, 0, None)])
            names = names[1:]
        elif func.parent is not None and func.parent in prog.analyses:
            # closure: start from the enclosing function's environment
            penv = prog.analyses[func.parent].env
            self.env.update(penv)
            self.self_name = prog.analyses[func.parent].self_name
        self.pnames = names
        for i, n in enumerate(names):
            self.env[n] = frozenset([("p%d" % i, None, 0, 0, None)])
        base = len(names)
        if func.vararg:
            self.env[func.vararg] = frozenset([("p%d" % base, None, 0, 1, "[]")])
            self.vararg_index = base
            base += 1
        else:
            self.vararg_index = None
        for j, n in enumerate(func.kwonly):
            self.env[n] = frozenset([("p%d" % (base + j), None, 0, 0, None)])
        self.kwonly_index = {n: base + j for j, n in enumerate(func.kwonly)}
        if func.kwarg:
            self.env[func.kwarg] = EMPTY

    # ---------------------------------------------------------------- driver
    def run(self):
        for _ in range(3):
            before = dict(self.env)
            self.sites = []
            self.direct = []
            self.call_info = {}     # id(call node) -> [(callee, amap, effs)]
            self.stmt_direct = {}   # id(statement) -> {direct effects}
            self.cur_stmt = None
            self.block(self.func.node.body)
            if before == self.env:
                break

    def bind(self, name, value):
        self.env[name] = self.env.get(name, EMPTY) | value

    def origin(self, node, kind):
        st = node
        while st is not None and not isinstance(st, ast.stmt):
            st = getattr(st, "_parent", None)
        text = unparse(node)
        if len(text) > 120:
            text = text[:117] + "..."
        return (self.func.short, text, kind,
                getattr(node, "lineno", 0))

    def is_whitelisted(self, head, kind, node):
        wl = self.prog.whitelist
        if not wl:
            return False
        fn = self.func.short
        for (f, h, k) in wl:
            if f == fn and (h is None or h == head) and \
                    (k is None or kind.startswith(k)):
                return True
            # ("*", attr, kind): a store to the attribute named `attr`
            # wherever it occurs (e.g. the recursion-guard flag __error__)
            if f == "*" and isinstance(node, ast.Assign) and any(
                    isinstance(t, ast.Attribute) and t.attr == h
                    for t in node.targets) and \
                    (k is None or kind.startswith(k)):
                return True
            if f == "*" and isinstance(node, ast.Attribute) and \
                    node.attr == h and (k is None or kind.startswith(k)):
                return True
        return False

    NONREF_CONTAINERS = {"_data", "_datatype", "_records", "_line_queue",
                         "_default", "_positional_fieldnames", "__data"}

    def resized_container_is_not_refs(self, node):
        """ITER mode: the container resized by this statement is certainly
        not a back-reference list (it is a line's _data/_datatype dict, a
        field value, the Gfa's registry or queue, a new object, ...)"""
        recv = None
        if isinstance(node, ast.Call) and isinstance(node.func, ast.Attribute):
            recv = node.func.value
        elif isinstance(node, ast.Subscript):
            recv = node.value
        elif isinstance(node, ast.Delete):
            t = node.targets[0]
            recv = t.value if isinstance(t, (ast.Subscript, ast.Attribute)) \
                else None
        elif isinstance(node, ast.AugAssign):
            recv = node.target
        if recv is None:
            return False
        return self.container_class(recv, 0) == "nonref"

    def container_class(self, recv, depth):
        """'nonref' | 'refs' | 'unknown'"""
        if depth > 8:
            return "unknown"
        if isinstance(recv, ast.NamedExpr):
            # (x := container[k]).pop(...): the container is the value
            return self.container_class(recv.value, depth + 1)
        if isinstance(recv, ast.Attribute):
            if recv.attr in self.NONREF_CONTAINERS:
                return "nonref"
            if recv.attr == "_refs":
                return "refs"
            if recv.attr in self.prog.refkeys:
                return "refs"
            return self.container_class(recv.value, depth + 1)
        if isinstance(recv, ast.Subscript):
            return self.container_class(recv.value, depth + 1)
        if isinstance(recv, ast.Call):
            f = recv.func
            if isinstance(f, ast.Attribute) and f.attr == "get":
                inner = f.value
                if isinstance(inner, ast.Attribute) and \
                        inner.attr in ("_refs", "_records"):
                    return self.container_class(inner, depth + 1)
                if isinstance(inner, ast.Subscript):
                    return self.container_class(inner, depth + 1)
                return "nonref"     # X.get(fieldname): a field value
            ent = self.repo.resolve_expr(self.func.module, f) \
                if dotted(f) else None
            if isinstance(ent, ClassInfo):
                return "nonref"     # a newly constructed object
            return "unknown"
        if isinstance(recv, ast.Name):
            if recv.id in self.pnames or recv.id == self.self_name:
                return "unknown"

            def root_name(e):
                while isinstance(e, (ast.Attribute, ast.Subscript)):
                    e = e.value
                return e.id if isinstance(e, ast.Name) else None
            assigns = [n.value for n in walk_no_nested(self.func.node)
                       if isinstance(n, ast.Assign) and any(
                           isinstance(t, ast.Name) and t.id == recv.id
                           for t in n.targets)]
            assigns += [n.value for n in walk_no_nested(self.func.node)
                        if isinstance(n, ast.NamedExpr) and
                        n.target.id == recv.id]
            assigns = [a for a in assigns if root_name(a) != recv.id]
            if not assigns:
                return "unknown"
            kinds = {self.container_class(a, depth + 1) for a in assigns}
            if kinds == {"nonref"}:
                return "nonref"
            if "refs" in kinds:
                return "refs"
            return "unknown"
        if isinstance(recv, (ast.List, ast.Dict, ast.Set, ast.ListComp,
                             ast.DictComp, ast.SetComp)):
            return "nonref"
        return "unknown"

    def site_text(self, node):
        t = unparse(node)
        return t if len(t) <= 100 else t[:97] + "..."

    def write(self, value, head, node, kind):
        """Record a write into the object(s) denoted by `value`; `head` names
        the attribute written when the object is a root itself."""
        if self.prog.size_only:
            if not size_changing_kind(kind):
                return
            if self.resized_container_is_not_refs(node):
                return
        org = None
        for (r, h, d, k, via) in value:
            if k > 0:
                continue
            hh = h if h is not None else head
            w = self.all_w or self.is_whitelisted(hh, kind, node)
            eff = (r, hh, d, w)
            self.effects.add(eff)
            if self.prog.recording:
                if org is None:
                    org = self.origin(node, kind)
                self.direct.append((eff, org))
                if self.cur_stmt is not None:
                    self.stmt_direct.setdefault(id(self.cur_stmt),
                                                set()).add(eff)

    # ------------------------------------------------------------ statements
    def block(self, body):
        for st in body:
            self.stmt(st)

    def stmt(self, st):
        outer = self.cur_stmt
        self.cur_stmt = st
        try:
            self._stmt(st)
        finally:
            self.cur_stmt = outer

    def _stmt(self, st):
        if isinstance(st, ast.Expr):
            self.ev(st.value)
        elif isinstance(st, ast.Assign):
            v = self.ev(st.value)
            for t in st.targets:
                self.assign(t, v, st)
        elif isinstance(st, ast.AnnAssign):
            if st.value is not None:
                self.assign(st.target, self.ev(st.value), st)
        elif isinstance(st, ast.AugAssign):
            v = self.ev(st.value)
            cur = self.ev_target_load(st.target)
            if isinstance(st.target, ast.Name) and \
                    st.target.id in self.scalar_names():
                # number/string accumulator: `x += e` only rebinds x
                return
            # in-place mutation of the current object (lists), then rebinding
            self.write(cur, "[]", st, "augassign")
            self.assign(st.target, cur | wrap(deref(v, "[]"), "[]") | v, st)
        elif isinstance(st, ast.Return):
            if st.value is not None:
                self.ret = self.ret | self.ev(st.value)
        elif isinstance(st, ast.If):
            self.ev(st.test)
            self.block(st.body)
            self.block(st.orelse)
        elif isinstance(st, ast.While):
            self.ev(st.test)
            self.block(st.body)
            self.block(st.orelse)
        elif isinstance(st, ast.For):
            it = self.ev(st.iter)
            self.assign(st.target, self.iter_elems(st.iter, it), st)
            self.block(st.body)
            self.block(st.orelse)
        elif isinstance(st, ast.With):
            for item in st.items:
                v = self.ev(item.context_expr)
                if item.optional_vars is not None:
                    self.assign(item.optional_vars, v, st)
            self.block(st.body)
        elif isinstance(st, ast.Try):
            self.block(st.body)
            for h in st.handlers:
                if h.name:
                    self.bind(h.name, EMPTY)
                self.block(h.body)
            self.block(st.orelse)
            self.block(st.finalbody)
        elif isinstance(st, ast.Raise):
            if st.exc is not None:
                self.ev(st.exc)
        elif isinstance(st, ast.Delete):
            for t in st.targets:
                if isinstance(t, ast.Subscript):
                    self.write(self.ev(t.value), "[]", st, "del")
                    self.ev(t.slice)
                elif isinstance(t, ast.Attribute):
                    self.write(self.ev(t.value), t.attr, st, "del")
        elif isinstance(st, ast.Assert):
            self.ev(st.test)
        elif isinstance(st, ast.Match):
            v = self.ev(st.subject)
            for case in st.cases:
                # every capture name may hold the subject, one of its
                # elements or one of its attributes
                for n in ast.walk(case.pattern):
                    if isinstance(n, ast.MatchValue):
                        self.ev(n.value)
                    name = None
                    if isinstance(n, (ast.MatchAs, ast.MatchStar)):
                        name = n.name
                    elif isinstance(n, ast.MatchMapping):
                        name = n.rest
                    if name:
                        val = v | deref(v, "[]")
                        self.bind(name, val)
                        self.notselflike.add(name)
                    if isinstance(n, ast.MatchClass):
                        for attr, sub in zip(n.kwd_attrs, n.kwd_patterns):
                            for m in ast.walk(sub):
                                if isinstance(m, ast.MatchAs) and m.name:
                                    self.bind(m.name, deref(v, attr))
                if case.guard is not None:
                    self.ev(case.guard)
                self.block(case.body)
        elif isinstance(st, (ast.FunctionDef, ast.AsyncFunctionDef,
                             ast.ClassDef, ast.Pass, ast.Break, ast.Continue,
                             ast.Import, ast.ImportFrom, ast.Global,
                             ast.Nonlocal)):
            pass
        else:
            raise AnalysisError("effect engine: statement %s in %s" %
                                (type(st).__name__, self.func.qualname))

    def iter_elems(self, iter_node, it):
        # enumerate(x) / zip: elements are tuples around the elements
        if isinstance(iter_node, ast.Call) and \
                isinstance(iter_node.func, ast.Name) and \
                iter_node.func.id in ("enumerate", "zip"):
            return deref(it, "[]")
        return deref(it, "[]")

    def ev_target_load(self, t):
        if isinstance(t, ast.Name):
            return self.env.get(t.id, EMPTY)
        if isinstance(t, ast.Attribute):
            return deref(self.ev(t.value), t.attr)
        if isinstance(t, ast.Subscript):
            return deref(self.ev(t.value), "[]")
        return EMPTY

    def scalar_names(self):
        """locals initialised from a number/string/None constant"""
        if self._scalars is None:
            out = set()
            for n in walk_no_nested(self.func.node):
                if isinstance(n, ast.Assign) and \
                        isinstance(n.value, ast.Constant) and \
                        isinstance(n.value.value, (int, float, str, type(None))):
                    for t in n.targets:
                        if isinstance(t, ast.Name):
                            out.add(t.id)
            self._scalars = out
        return self._scalars

    def is_selflike_expr(self, val):
        """self, self.clone(), self.__class__(...): same class as self"""
        if isinstance(val, ast.Name):
            return val.id == self.self_name or val.id in self.selflike
        if isinstance(val, ast.Call) and isinstance(val.func, ast.Attribute):
            f = val.func
            if isinstance(f.value, ast.Name) and (
                    f.value.id == self.self_name or
                    f.value.id in self.selflike):
                return f.attr in ("clone", "__class__")
        return False

    def is_self_node(self, node):
        return isinstance(node, ast.Name) and self.self_name is not None and \
            (node.id == self.self_name or node.id in self.selflike)

    def assign(self, t, v, st):
        if isinstance(t, ast.Name):
            self.bind(t.id, v)
            val = getattr(st, "value", None)
            if isinstance(st, ast.Assign) and val is not None and \
                    self.self_name is not None and t.id != self.self_name:
                if self.is_selflike_expr(val) and \
                        t.id not in self.notselflike:
                    self.selflike.add(t.id)
                else:
                    self.notselflike.add(t.id)
                    self.selflike.discard(t.id)
            if isinstance(st, ast.Assign) and val is not None:
                if self.is_container_expr(val):
                    if t.id not in self.noncontainer_names:
                        self.container_names.add(t.id)
                else:
                    self.noncontainer_names.add(t.id)
                    self.container_names.discard(t.id)
            elif not isinstance(st, ast.AugAssign):
                self.noncontainer_names.add(t.id)
                self.container_names.discard(t.id)
        elif isinstance(t, (ast.Tuple, ast.List)):
            for e in t.elts:
                if isinstance(e, ast.Starred):
                    e = e.value
                # tuple unpacking: each target gets the elements of v and
                # (for enumerate/items pairs) their elements
                self.assign(e, deref(v, "[]") | v, st)
        elif isinstance(t, ast.Attribute):
            base = self.ev(t.value)
            self.store_attr(t, base, v, st)
        elif isinstance(t, ast.Subscript):
            base = self.ev(t.value)
            self.ev(t.slice)
            kind = "slice-store" if isinstance(t.slice, ast.Slice) else \
                "subscript-store"
            self.write(base, "[]", t, kind)
            self.grow(t.value, base, v)
        elif isinstance(t, ast.Starred):
            self.assign(t.value, v, st)

    def grow(self, container_node, base, v):
        """the container now also holds v"""
        if isinstance(container_node, ast.Name) and v:
            # only fresh layers can grow (a shared container is an effect)
            self.bind(container_node.id, wrap(v, "[]"))

    def store_attr(self, t, base, v, st):
        attr = t.attr
        prog = self.prog
        is_self = self.is_self_node(t.value)
        callees = []
        how = "store"
        if is_self:
            for m in self.self_setters(attr):
                callees.append(m)
            kinds = self.self_generated(attr)
        else:
            callees.extend(prog.setters_by_name.get(attr, []))
            kinds = prog.generated_kind(attr)
        line_like = self.may_be_line(t.value, is_self)
        if "field" in kinds and line_like:
            callees.extend(self.set_existing_for(is_self))
        elif TAG_RE.match(attr) and line_like and not is_self:
            callees.extend(prog.f_set)
        for m in callees:
            self.apply_call(m, base, [v], {}, t, want_ret=False)
        if callees:
            self.sites.append(Site(t, callees, "attr-store", base))
        # the plain instance-attribute store itself
        mangled = attr
        self.write(base, mangled, t, "attr-store")
        if isinstance(t.value, ast.Name) and v and \
                t.value.id != self.self_name:
            # a local object now also holds v (field-insensitive)
            self.bind(t.value.id, wrap(v, attr))

    def may_be_line(self, node, is_self):
        if is_self:
            oc = self.func.owner_cls
            return oc is not None and any(self.prog.Line in k.mro
                                          for k in self.prog.leaves(oc))
        return True

    def set_existing_for(self, is_self):
        if is_self:
            return self.prog.methods_on_self(self.func, "_set_existing_field")
        return list(self.prog.f_set_existing)

    def self_setters(self, attr):
        oc = self.func.owner_cls
        out = []
        if oc is None:
            return out
        for leaf in self.prog.leaves(oc):
            m = leaf.find_method(attr, setter=True)
            if m is not None and m not in out:
                out.append(m)
        return out

    def self_generated(self, attr):
        oc = self.func.owner_cls
        if oc is None:
            return set()
        leaves = set(self.prog.leaves(oc))
        return self.prog.generated_kind(attr, leaves)

    # ----------------------------------------------------------- expressions
    def ev(self, node):
        m = getattr(self, "ev_" + type(node).__name__, None)
        if m is None:
            raise AnalysisError("effect engine: expression %s in %s" %
                                (type(node).__name__, self.func.qualname))
        return m(node)

    def ev_Constant(self, node):
        return EMPTY

    def ev_JoinedStr(self, node):
        for v in node.values:
            if isinstance(v, ast.FormattedValue):
                self.ev(v.value)
        return EMPTY

    def ev_FormattedValue(self, node):
        self.ev(node.value)
        return EMPTY

    def ev_Name(self, node):
        if node.id in self.env:
            return self.env[node.id]
        ent = self.repo.resolve_expr(self.func.module, node)
        if isinstance(ent, Const):
            return frozenset([("glob", node.id, 0, 0, None)])
        return EMPTY

    def ev_Tuple(self, node):
        out = EMPTY
        for e in node.elts:
            out |= wrap(self.ev(e.value if isinstance(e, ast.Starred) else e),
                        "[]")
        return out

    ev_List = ev_Tuple
    ev_Set = ev_Tuple

    def ev_Dict(self, node):
        out = EMPTY
        for k, v in zip(node.keys, node.values):
            if k is not None:
                self.ev(k)
            out |= wrap(self.ev(v), "[]")
        return out

    def ev_BoolOp(self, node):
        out = EMPTY
        for v in node.values:
            out |= self.ev(v)
        return out

    def ev_UnaryOp(self, node):
        self.ev(node.operand)
        return EMPTY

    def ev_BinOp(self, node):
        a = self.ev(node.left)
        b = self.ev(node.right)
        if isinstance(node.op, (ast.Add, ast.Mult)):
            # list concatenation builds a new list over the same elements
            # (operator overloads of repository classes -- Placeholder.__add__,
            # FieldArray.__add__, LastPos.__sub__ -- are not resolved: no
            # library code applies them to shared state; see assumptions)
            return elems_copy(a) | elems_copy(b)
        return EMPTY

    def ev_Compare(self, node):
        nodes = [node.left] + list(node.comparators)
        vals = [self.ev(n) for n in nodes]
        ops = node.ops
        for i, op in enumerate(ops):
            if isinstance(nodes[i], ast.Constant) or \
                    isinstance(nodes[i + 1], ast.Constant):
                continue
            if not vals[i] and not vals[i + 1]:
                continue
            if isinstance(nodes[i + 1], (ast.List, ast.Tuple, ast.Set)) and \
                    all(isinstance(e, ast.Constant) for e in nodes[i + 1].elts):
                continue
            if isinstance(op, (ast.Eq, ast.NotEq)):
                for f in self.prog.by_name.get("__eq__", []):
                    self.apply_call(f, vals[i], [vals[i + 1]], {}, node,
                                    want_ret=False)
                    self.apply_call(f, vals[i + 1], [vals[i]], {}, node,
                                    want_ret=False)
            elif isinstance(op, (ast.In, ast.NotIn)):
                # membership compares with ==
                for f in self.prog.by_name.get("__eq__", []):
                    self.apply_call(f, vals[i], [deref(vals[i + 1], "[]")],
                                    {}, node, want_ret=False)
        return EMPTY

    def ev_IfExp(self, node):
        self.ev(node.test)
        return self.ev(node.body) | self.ev(node.orelse)

    def ev_Lambda(self, node):
        for a in node.args.args:
            self.env.setdefault(a.arg, EMPTY)
        self.ev(node.body)
        return EMPTY

    def ev_Starred(self, node):
        return self.ev(node.value)

    def ev_Slice(self, node):
        for p in (node.lower, node.upper, node.step):
            if p is not None:
                self.ev(p)
        return EMPTY

    def ev_Yield(self, node):
        if node.value is not None:
            self.ret = self.ret | wrap(self.ev(node.value), "[]")
        return EMPTY

    def ev_YieldFrom(self, node):
        self.ret = self.ret | self.ev(node.value)
        return EMPTY

    def ev_NamedExpr(self, node):
        v = self.ev(node.value)
        self.assign(node.target, v, node)
        return v

    def comp(self, node, elt_nodes):
        for g in node.generators:
            it = self.ev(g.iter)
            self.assign(g.target, self.iter_elems(g.iter, it), node)
            for c in g.ifs:
                self.ev(c)
        out = EMPTY
        for e in elt_nodes:
            out |= wrap(self.ev(e), "[]")
        return out

    def ev_ListComp(self, node):
        # two passes so that targets are bound before the element is read
        self.comp(node, [node.elt])
        return self.comp(node, [node.elt])

    ev_SetComp = ev_ListComp
    ev_GeneratorExp = ev_ListComp

    def ev_DictComp(self, node):
        self.comp(node, [node.key, node.value])
        return self.comp(node, [node.key, node.value])

    def ev_Subscript(self, node):
        base = self.ev(node.value)
        self.ev(node.slice)
        if isinstance(node.slice, ast.Slice):
            return elems_copy(base)
        for f in self.prog.by_name.get("__getitem__", []):
            self.apply_call(f, base, [EMPTY], {}, node, want_ret=False)
        return deref(base, "[]")

    def ev_Attribute(self, node):
        # static entity (module function, class, constant)?
        d = dotted(node)
        if d is not None:
            root = d.split(".")[0]
            if root not in self.env:
                ent = self.repo.resolve_expr(self.func.module, node)
                if isinstance(ent, (FuncInfo, ClassInfo, Module, External)):
                    return EMPTY
                if isinstance(ent, Const):
                    return frozenset([("glob", node.attr, 0, 0, None)])
        base = self.ev(node.value)
        return self.load_attr(node, base)

    def load_attr(self, node, base):
        attr = node.attr
        prog = self.prog
        is_self = self.is_self_node(node.value)
        out = EMPTY
        callees = []
        plain = True
        if attr == "__class__":
            return EMPTY
        if attr in self.prog.class_mutable_names and attr not in \
                self.prog.field_names and not any(
                    attr in c.methods or attr in c.setters
                    for c in self.repo.classes.values()):
            # the shared class-level container itself (process-wide state)
            return frozenset([("glob", attr, 0, 0, None)])
        if attr in self.prog.class_const_names and attr not in \
                self.prog.field_names:
            return EMPTY
        if is_self:
            meths = prog.methods_on_self(self.func, attr)
            kinds = self.self_generated(attr)
            props = [m for m in meths if m.kind == "property"]
            if meths and not props and not kinds:
                return EMPTY          # bound method value
            callees.extend(props)
            if props or kinds:
                plain = False
        else:
            props = prog.props_by_name.get(attr, [])
            callees.extend(props)
            kinds = prog.generated_kind(attr)
        for m in callees:
            out |= self.apply_call(m, base, [], {}, node)
        if "field" in kinds and self.may_be_line(node.value, is_self):
            f = prog.f_try_get if attr.startswith("try_get_") else prog.f_get
            if attr.startswith("try_get_"):
                pass    # bound method; the call is handled in ev_Call
            else:
                out |= self.apply_call(f, base, [EMPTY], {}, node)
                callees.append(f)
        if "refkey" in kinds:
            # generated reference getter: self._refs.get(k, []) -- live list
            out |= deref(deref(base, "_refs"), "_refs")
        if callees:
            self.sites.append(Site(node, callees, "attr-load", base))
        if plain or not is_self:
            out |= deref(base, attr)
        return out

    # ------------------------------------------------------------------ calls
    def ev_Call(self, node):
        f = node.func
        args = [self.ev(a) for a in node.args]
        kwargs = {k.arg: self.ev(k.value) for k in node.keywords}
        starred = any(isinstance(a, ast.Starred) for a in node.args)
        # ---- plain names
        if isinstance(f, ast.Name) and f.id not in self.env:
            return self.call_name(node, f.id, args, kwargs)
        if isinstance(f, (ast.Name, ast.Call)) and self.self_name and \
                self.is_self_class_expr(f):
            return self.construct_self_class(args, kwargs)
        if isinstance(f, ast.Name):
            # a local holding a function: nested def or parameter
            nested = self.lookup_nested(f.id)
            if nested is not None:
                return self.apply_call(nested, None, args, kwargs, node)
            return wrap(join(args))
        if isinstance(f, ast.Attribute):
            return self.call_attr(node, f, args, kwargs)
        if isinstance(f, ast.Call):
            # e.g. getattr(line, method)(...), super().__x()
            inner = self.ev(f)
            return inner | wrap(join(args))
        self.ev(f)
        return wrap(join(args))

    def _denotes_field_module(self, node):
        """is `node` a value taken from Field.FIELD_MODULE: the expression
        mentions the table, or it is a local name assigned from such an
        expression in this function (`mod = gfapy.Field.FIELD_MODULE.get(dt)`)"""
        def mentions(e):
            return any((isinstance(n, ast.Attribute) and
                        n.attr == "FIELD_MODULE") or
                       (isinstance(n, ast.Name) and n.id == "FIELD_MODULE")
                       for n in ast.walk(e))
        if mentions(node):
            return True
        if not isinstance(node, ast.Name):
            return False
        cache = self.__dict__.setdefault("_fm_locals", None)
        if cache is None:
            cache = set()
            for n in walk_no_nested(self.func.node):
                if isinstance(n, ast.Assign) and mentions(n.value):
                    for t in n.targets:
                        if isinstance(t, ast.Name):
                            cache.add(t.id)
                elif isinstance(n, ast.NamedExpr) and mentions(n.value):
                    cache.add(n.target.id)
            self._fm_locals = cache
        return node.id in cache

    def construct_self_class(self, args, kwargs):
        """self.__class__(...), type(self)(...), or a local bound to either:
        a new object of the receiver's class"""
        allargs = join(args) | join(kwargs.values())
        oc = self.func.owner_cls
        if oc is not None and any(self.prog.Line in k.mro
                                  for k in self.prog.leaves(oc)):
            data = args[0] if args else kwargs.get("data", EMPTY)
            return wrap(wrap(deref(data, "[]"), "[]"), "_data")
        return wrap(allargs)

    def is_self_class_expr(self, e, depth=0):
        if depth > 3:
            return False
        if isinstance(e, ast.Attribute) and e.attr == "__class__":
            return self.is_self_node(e.value)
        if isinstance(e, ast.Call) and isinstance(e.func, ast.Name) and \
                e.func.id == "type" and len(e.args) == 1 and not e.keywords:
            return self.is_self_node(e.args[0])
        if isinstance(e, ast.Name):
            fn = self.func
            while fn is not None:
                vals = [n.value for n in walk_no_nested(fn.node)
                        if isinstance(n, ast.Assign) and len(n.targets) == 1
                        and isinstance(n.targets[0], ast.Name) and
                        n.targets[0].id == e.id]
                if vals:
                    return all(self.is_self_class_expr(v, depth + 1)
                               for v in vals)
                fn = fn.parent
        return False

    def lookup_nested(self, name):
        fn = self.func
        while fn is not None:
            if name in fn.nested:
                return fn.nested[name]
            fn = fn.parent
        return None

    def call_name(self, node, name, args, kwargs):
        nested = self.lookup_nested(name)
        if nested is not None:
            return self.apply_call(nested, None, args, kwargs, node)
        ent = self.repo.resolve_expr(self.func.module, node.func)
        if isinstance(ent, FuncInfo):
            self.sites.append(Site(node, [ent], "static"))
            return self.apply_call(ent, None, args, kwargs, node)
        if isinstance(ent, ClassInfo):
            return self.construct(node, ent, args, kwargs)
        if name in COPY_FUNCS:
            if name == "dict" and not args:
                return EMPTY
            out = EMPTY
            for a in args:
                out |= elems_copy(a)
            if name in ("filter",) and args:
                out = elems_copy(args[-1])
            return out
        if name == "map":
            # map(f, xs): call f on the elements
            fn = node.args[0] if node.args else None
            el = deref(args[1], "[]") if len(args) > 1 else EMPTY
            callees = self.callees_of_funcref(fn)
            out = EMPTY
            for c, recv in callees:
                out |= self.apply_call(c, recv, [el], {}, node)
            return wrap(out, "[]")
        if name == "getattr":
            return self.call_getattr(node, args)
        if name == "setattr":
            if len(args) >= 3:
                head = node.args[1].value if isinstance(
                    node.args[1], ast.Constant) else "*"
                self.write(args[0], head, node, "setattr")
            return EMPTY
        if name == "super":
            return self.env.get(self.self_name, EMPTY) if self.self_name \
                else EMPTY
        if name in ("partial", "partialmethod", "MethodType", "DynamicField"):
            return EMPTY
        if name in FRESH_FUNCS or isinstance(ent, External) or ent is None:
            if name in ("str", "repr", "hash", "len", "int", "bool", "float") \
                    and args:
                dunder = {"str": "__str__", "repr": "__repr__",
                          "hash": "__hash__", "len": "__len__",
                          "int": "__int__", "bool": "__bool__",
                          "float": "__float__"}[name]
                cands = self.prog.by_name.get(dunder, [])
                if cands:
                    self.sites.append(Site(node, cands, "dunder", args[0]))
                for c in cands:
                    self.apply_call(c, args[0], [], {}, node, want_ret=False)
            if ent is None and name not in FRESH_FUNCS and \
                    name not in __builtins_names__:
                self.prog.unresolved.append((self.func, node))
            return EMPTY
        return EMPTY

    def callees_of_funcref(self, fn):
        """[(FuncInfo, receiver value)] for an expression denoting a function."""
        if fn is None:
            return []
        if isinstance(fn, ast.Name):
            nested = self.lookup_nested(fn.id)
            if nested is not None:
                return [(nested, None)]
            ent = self.repo.resolve_expr(self.func.module, fn)
            if isinstance(ent, FuncInfo):
                return [(ent, None)]
            return []
        if isinstance(fn, ast.Attribute):
            if isinstance(fn.value, ast.Name) and fn.value.id == self.self_name:
                recv = self.env.get(self.self_name, EMPTY)
                return [(m, recv) for m in
                        self.prog.methods_on_self(self.func, fn.attr)]
            ent = self.repo.resolve_expr(self.func.module, fn)
            if isinstance(ent, FuncInfo):
                return [(ent, None)]
        if isinstance(fn, ast.Lambda):
            self.ev(fn)
        return []

    def call_getattr(self, node, args):
        """getattr(obj, "<pattern>")  -> attribute load by (partial) name."""
        if len(node.args) < 2:
            return EMPTY
        base = args[0]
        names = self.getattr_names(node.args[1])
        out = EMPTY
        for n in names:
            fake = ast.Attribute(value=node.args[0], attr=n, ctx=ast.Load())
            ast.copy_location(fake, node)
            fake._parent = getattr(node, "_parent", None)
            out |= self.load_attr(fake, base)
            # the attribute may be a method that the caller then calls
            if isinstance(node.args[0], ast.Name) and \
                    node.args[0].id == self.self_name:
                meths = self.prog.methods_on_self(self.func, n)
            else:
                meths = self.prog.by_name.get(n, [])
            par = getattr(node, "_parent", None)
            if isinstance(par, ast.Call) and par.func is node:
                cargs = [self.ev(a) for a in par.args]
                ckw = {k.arg: self.ev(k.value) for k in par.keywords}
                for m in meths:
                    if m.kind != "property":
                        out |= self.apply_call(m, base, cargs, ckw, par)
                if meths:
                    self.sites.append(Site(par, meths, "getattr", base))
        return out

    def getattr_names(self, node):
        """Attribute names a getattr() name expression can evaluate to."""
        if isinstance(node, ast.Constant) and isinstance(node.value, str):
            return [node.value]
        if isinstance(node, ast.Name):
            # a local assigned from constants / a conditional of constants
            vals = self.const_strings_of(node.id)
            if vals:
                return vals
        pat = self.string_pattern(node)
        if pat is None:
            return []
        rx = re.compile("^" + pat + "$")
        names = set(self.prog.by_name) | self.prog.field_names | \
            self.prog.refkeys | set(self.prog.props_by_name)
        return sorted(n for n in names if rx.match(n))

    def const_strings_of(self, name):
        out = []
        for n in walk_no_nested(self.func.node):
            if isinstance(n, ast.Assign) and any(
                    isinstance(t, ast.Name) and t.id == name
                    for t in n.targets):
                v = n.value
                cands = [v.body, v.orelse] if isinstance(v, ast.IfExp) else [v]
                for c in cands:
                    if isinstance(c, ast.Constant) and isinstance(c.value, str):
                        out.append(c.value)
                    else:
                        return []
        return out

    def string_pattern(self, node):
        """regex for "pfx{}".format(x), "a"+x+"b" (unknown parts -> .*)"""
        if isinstance(node, ast.Constant) and isinstance(node.value, str):
            return re.escape(node.value)
        if isinstance(node, ast.BinOp) and isinstance(node.op, ast.Add):
            a = self.string_pattern(node.left)
            b = self.string_pattern(node.right)
            return (a if a is not None else ".*") + \
                (b if b is not None else ".*")
        if isinstance(node, ast.Call) and isinstance(node.func, ast.Attribute) \
                and node.func.attr == "format" and \
                isinstance(node.func.value, ast.Constant):
            s = node.func.value.value
            return re.sub(r"\\\{[^}]*\\\}", ".*", re.escape(s))
        if isinstance(node, ast.Name):
            return ".*"
        return None

    def construct(self, node, cls, args, kwargs):
        allargs = join(args) | join(kwargs.values())
        builtin = set(cls.builtin_bases())
        if self.prog.Line in cls.mro:
            # a line keeps the *elements* of its first argument (data) in its
            # own fresh _data; vlevel/virtual/version/dialect are scalars
            data = args[0] if args else kwargs.get("data", EMPTY)
            out = wrap(wrap(deref(data, "[]"), "[]"), "_data")
        elif builtin & {"list", "set", "dict", "tuple"}:
            out = elems_copy(allargs)
        elif builtin & {"bytes", "str", "int", "float"} or \
                cls.name in ("Gfa", "Logger", "Placeholder",
                             "AlignmentPlaceholder"):
            out = EMPTY
        else:
            # value classes keep their arguments as attributes
            out = wrap(allargs)
        new = cls.find_method("__new__")
        init = cls.find_method("__init__")
        callees = []
        if new is not None:
            callees.append(new)
            # __new__(cls, *args): first parameter is the class.  The identity
            # constructors of gfapy (OrientedLine, SegmentEnd, Alignment,
            # LastPos) can return their argument only when called with one
            # positional argument.
            r = self.apply_call(new, EMPTY, args, kwargs, node, is_new=True)
            if len(args) == 1:
                out |= r
        if init is not None:
            callees.append(init)
            self.apply_call(init, EMPTY, args, kwargs, node, want_ret=False)
        self.sites.append(Site(node, callees, "constructor"))
        return out

    def call_attr(self, node, f, args, kwargs):
        prog = self.prog
        name = f.attr
        # super().m(...)
        if isinstance(f.value, ast.Call) and isinstance(f.value.func, ast.Name) \
                and f.value.func.id == "super":
            after = None
            if f.value.args:
                ent = self.repo.resolve_expr(self.func.module, f.value.args[0])
                if isinstance(ent, ClassInfo):
                    after = ent
            recv = self.env.get(self.self_name, EMPTY) if self.self_name \
                else EMPTY
            meths = prog.super_methods(self.func, name, after)
            out = EMPTY
            for m in meths:
                out |= self.apply_call(m, recv, args, kwargs, node)
            self.sites.append(Site(node, meths, "super", recv))
            return out
        # self.__class__(...)  /  object.__new__(cls)
        if name == "__class__":
            pass
        if isinstance(f.value, ast.Attribute) and f.value.attr == "__class__" \
                and name not in ("__name__",):
            # self.__class__.X(...)  class-level access
            pass
        d = dotted(f)
        if d == "object.__new__":
            return EMPTY
        # static entity
        if d is not None and d.split(".")[0] not in self.env:
            ent = self.repo.resolve_expr(self.func.module, f)
            if isinstance(ent, FuncInfo):
                self.sites.append(Site(node, [ent], "static"))
                if ent.has_self and ent.kind != "classmethod":
                    # unbound call Class.method(obj, ...)
                    if args:
                        return self.apply_call(ent, args[0], args[1:], kwargs,
                                               node)
                    return EMPTY
                return self.apply_call(ent, EMPTY, args, kwargs, node)
            if isinstance(ent, ClassInfo):
                return self.construct(node, ent, args, kwargs)
            if isinstance(ent, External):
                if ent.name.endswith("deepcopy") or \
                        ent.name.startswith(("json.", "re.", "binascii.",
                                             "math.", "sys.", "os.")):
                    return EMPTY
                return EMPTY
        # `mod.decode(...)` where mod comes from Field.FIELD_MODULE
        if name in prog.field_module_funcs and \
                self._denotes_field_module(f.value):
            out = EMPTY
            cands = prog.field_module_funcs[name]
            for c in cands:
                out |= self.apply_call(c, None, args, kwargs, node)
            self.sites.append(Site(node, cands, "field-module"))
            return out
        # self.__class__(...) constructor
        if isinstance(f, ast.Attribute) and name == "__class__":
            return self.construct_self_class(args, kwargs)
        recv_node = f.value
        recv = self.ev(recv_node)
        is_self = self.is_self_node(recv_node)
        if isinstance(recv_node, ast.Name) and recv_node.id == "cls" and \
                self.func.kind == "classmethod":
            is_self = True
        out = EMPTY
        if is_self:
            meths = prog.methods_on_self(self.func, name)
            kinds = self.self_generated(name)
            if name.startswith("try_get_") and "field" in kinds:
                meths = meths + [prog.f_try_get]
            how = "self"
            if not meths:
                # attribute holding a callable / container method on self
                # (e.g. CIGAR(list).append) or an undefined name
                builtin_bases = set()
                for leaf in prog.leaves(self.func.owner_cls):
                    builtin_bases.update(leaf.builtin_bases())
                if builtin_bases & {"list", "dict", "set", "bytes"}:
                    return self.builtin_method(node, name, recv, args)
                prog.unresolved.append((self.func, node))
                return wrap(join(args))
        else:
            if self.is_container_expr(recv_node) or name in BUILTIN_ONLY:
                meths = []
            else:
                meths = list(prog.by_name.get(name, []))
            how = "name"
            # a method called on a class object: self.__class__.m / X.m
            meths = [m for m in meths if m.kind != "property"]
        for m in meths:
            if m.kind == "staticmethod":
                out |= self.apply_call(m, EMPTY, args, kwargs, node)
            else:
                out |= self.apply_call(m, recv, args, kwargs, node)
        if meths:
            self.sites.append(Site(node, meths, how, recv))
        if not is_self or not meths:
            out |= self.builtin_method(node, name, recv, args)
        if not meths and not is_self and name not in MUTATORS and \
                name not in COPY_METHODS and name not in DEREF_METHODS and \
                name not in PURE_STR_METHODS and \
                name not in BUILTIN_TYPE_METHODS:
            self.prog.unresolved.append((self.func, node))
        return out

    CONTAINER_ATTRS = {"_data", "_datatype", "_refs", "_records",
                       "_line_queue", "_default", "_positional_fieldnames"}

    def is_container_expr(self, node):
        """The expression certainly denotes a builtin container/str (so a
        method called on it is the builtin one, not a repository method)."""
        if isinstance(node, (ast.List, ast.Dict, ast.Set, ast.Tuple,
                             ast.ListComp, ast.DictComp, ast.SetComp,
                             ast.JoinedStr)):
            return True
        if isinstance(node, ast.Constant):
            return True
        if isinstance(node, ast.Attribute):
            if node.attr in self.CONTAINER_ATTRS:
                return True
            d = dotted(node)
            if d is not None and d.split(".")[0] not in self.env:
                ent = self.repo.resolve_expr(self.func.module, node)
                if isinstance(ent, Const):
                    return True
            return False
        if isinstance(node, ast.Name):
            return node.id in self.container_names
        if isinstance(node, ast.Subscript):
            v = node.value
            if isinstance(v, ast.Attribute) and v.attr == "_records":
                return isinstance(node.slice, ast.Constant) and \
                    node.slice.value != "H"
            if isinstance(v, ast.Attribute) and v.attr in ("_refs",):
                return True
            return False
        if isinstance(node, ast.Call):
            f = node.func
            if isinstance(f, ast.Name) and f.id in (
                    "list", "dict", "set", "sorted", "tuple", "str", "repr",
                    "reversed", "enumerate", "zip", "range", "frozenset"):
                return True
            if isinstance(f, ast.Attribute) and f.attr in (
                    "split", "join", "format", "keys", "values", "items",
                    "copy", "strip", "rstrip", "upper", "lower", "replace",
                    "groups", "intersection", "union"):
                return True
            if isinstance(f, ast.Attribute) and f.attr == "get" and \
                    isinstance(f.value, ast.Attribute) and \
                    f.value.attr in ("_refs", "_records"):
                return True
        if isinstance(node, ast.BinOp) and isinstance(node.op, ast.Mod):
            return True
        return False

    def builtin_method(self, node, name, recv, args):
        if name in MUTATORS:
            self.write(recv, "[]", node, "mutator:" + name)
            if name in ("append", "add", "insert", "extend", "update",
                        "setdefault"):
                # (the key of setdefault / the position of insert is not
                # stored as an element)
                v = join(args[1:]) if name in ("setdefault", "insert") \
                    else join(args)
                if name in ("extend", "update"):
                    v = deref(v, "[]")
                self.grow(node.func.value, recv, v)
            if name in ("pop", "setdefault", "popitem"):
                return deref(recv, "[]")
            return EMPTY
        if name in COPY_METHODS:
            return elems_copy(recv)
        if name in DEREF_METHODS:
            return deref(recv, "[]") | (join(args[1:]) if name == "get"
                                        else EMPTY)
        return EMPTY

    # ------------------------------------------------- applying a summary
    def apply_call(self, callee, recv, args, kwargs, node, want_ret=True,
                   is_new=False):
        """Map the callee's summary into this function.  recv: abstract value of
        the receiver (None for plain functions)."""
        summ = self.prog.summaries.get(callee)
        if summ is None:
            return EMPTY
        if self.prog.size_only and callee is self.func:
            # ITER mode: a direct self-recursion on a sub-element (e.g.
            # _remove_backreference(ref[i], k)) re-applies the same cases one
            # container level down; it is summarised by the non-recursive
            # cases so that nesting does not inflate the depth of effects
            return EMPTY
        amap = {}
        if callee.has_self:
            amap["self"] = recv if recv is not None else EMPTY
        elif is_new:
            pass
        pn = list(callee.params)
        if callee.has_self or is_new:
            pn = pn[1:] if pn else pn
        n_fixed = len(pn)
        for i, n in enumerate(pn):
            if i < len(args):
                amap["p%d" % i] = args[i]
            elif n in kwargs:
                amap["p%d" % i] = kwargs[n]
            else:
                amap["p%d" % i] = EMPTY
        base = n_fixed
        if callee.vararg:
            amap["p%d" % base] = join(args[n_fixed:])
            base += 1
        for j, n in enumerate(callee.kwonly):
            amap["p%d" % (base + j)] = kwargs.get(n, EMPTY)
        self.deps.add(callee)
        memo = self.prog.memo
        ver = summ.version
        rec = [] if self.prog.recording else None
        for r, hd in summ.groups().items():
            if r == "glob":
                for (h, d, w) in hd:
                    self.effects.add((r, h, d, w or self.all_w))
                    if rec is not None:
                        rec.append((r, h, d, w or self.all_w))
                continue
            for loc in amap.get(r, EMPTY):
                key = (callee, ver, r, loc)
                mapped = memo.get(key)
                if mapped is None:
                    ms = set()
                    for (h, d, w) in hd:
                        m = map_effect(loc, h, d)
                        if m is not None:
                            ms.add(m + (w,))
                    mapped = memo[key] = frozenset(ms)
                if mapped:
                    if self.all_w:
                        mapped = frozenset((a, b, c, True)
                                           for (a, b, c, w) in mapped)
                    self.effects |= mapped
                    if rec is not None:
                        rec.extend(mapped)
        if rec is not None:
            # per call node: (callee, argument map, effects in this frame)
            self.call_info.setdefault(id(node), []).append(
                (callee, amap, frozenset(rec)))
        if self.prog.recording and summ.effects:
            self.calls.append((callee, amap, self.site_text(node)))
        if not want_ret:
            return EMPTY
        out = set()
        for (r, h, d, k, via) in summ.ret:
            if r == "glob":
                out.add((r, h, d, k, via))
                continue
            for loc in amap.get(r, EMPTY):
                m = map_value(loc, h, d, k, via)
                if m is not None:
                    out.add(m)
        return frozenset(out)


def map_effect(loc, h_c, d_c):
    """Effect `d_c` dereferences below the callee's root, seen through the
    caller's value `loc` for that root."""
    (r, h, d0, k, via) = loc
    if d_c < k:
        return None                     # lands in a fresh wrapper
    if k > 0 and via is not None and h_c is not None and via != h_c:
        return None                     # other attribute of the fresh object
    depth = min(CAP, d0 + d_c - k)
    head = h if h is not None else h_c
    return (r, head, depth)


def map_value(loc, h_c, d_c, k_c, via_c):
    (r, h, d0, k, via) = loc
    if d_c == 0:
        # the callee returns (a wrapper around) its root itself
        return (r, h, d0, min(CAP, k + k_c), via_c if k_c > 0 else via)
    if k > 0 and via is not None and h_c is not None and via != h_c:
        return None
    if d_c <= k:
        nk = k_c + (k - d_c)
        return (r, h, d0, min(CAP, nk), via_c if k_c > 0 else None)
    head = h if h is not None else h_c
    return (r, head, min(CAP, d0 + d_c - k), k_c, via_c if k_c > 0 else None)


def size_changing_kind(kind):
    """does a write of this kind change the length of a container in place?"""
    if kind.startswith("mutator:"):
        return kind.split(":", 1)[1] in SIZE_CHANGING
    return kind in ("del", "slice-store", "augassign")


def join(values):
    out = EMPTY
    for v in values:
        out |= v
    return out


__builtins_names__ = set(dir(__builtins__)) if not isinstance(
    __builtins__, dict) else set(__builtins__)
