"""CLI:  python -m gfaverif check <property> [--tier quick|thorough] [--repo DIR]
          python -m gfaverif explain <replay.json>
          python -m gfaverif list

exit 0: the decided clauses hold on everything analysed (known findings are
        printed as KNOWN-FINDING lines)
exit 1: at least one violation not listed in known_findings.txt
        (line "VIOLATION property=<id> replay=<path>")
exit 2: ANALYSIS-ERROR (anchor vanished, unsupported construct, rule matched
        fewer instances than its floor, internal error)
"""
import argparse
import importlib
import json
import os
import sys
import traceback

from .context import Context, COMMON_ASSUMPTIONS
from .model import AnalysisError

PROPERTIES = ["C01", "C02", "C03", "C04", "C05", "C06", "C07", "C08", "C09",
              "C10", "C11", "C12", "C13", "C15", "C16", "C18", "C19", "C20"]


def run_check(prop, tier, seed, repo_root, out=None):
    out = out or sys.stdout
    try:
        mod = importlib.import_module("gfaverif.rules.%s" % prop.lower())
    except ImportError as e:
        out.write("ANALYSIS-ERROR property=%s no rule module (%s)\n" % (prop, e))
        return 2
    ctx = None
    try:
        ctx = Context(prop, tier, seed, repo_root)
        for a in COMMON_ASSUMPTIONS:
            ctx.assume(a)
        try:
            mod.run(ctx)
            if tier == "thorough" and \
                    os.environ.get("GFAVERIF_SELFTEST", "1") != "0":
                from . import selftest
                selftest.run(ctx)
        except AnalysisError as e:
            ctx.error(str(e))
        except RecursionError:
            ctx.error("internal: recursion limit")
        except Exception as e:  # never let a traceback look like a violation
            tb = traceback.format_exc().strip().splitlines()
            ctx.error("internal error %s: %s | %s" % (
                type(e).__name__, e, " / ".join(tb[-6:])))
        return ctx.finish(out)
    except AnalysisError as e:
        out.write("ANALYSIS-ERROR property=%s %s\n" % (prop, e))
        return 2
    except Exception as e:
        out.write("ANALYSIS-ERROR property=%s internal error %s: %s\n" %
                  (prop, type(e).__name__, e))
        traceback.print_exc(file=sys.stderr)
        return 2


def main(argv=None):
    ap = argparse.ArgumentParser(prog="gfaverif")
    sub = ap.add_subparsers(dest="cmd", required=True)
    c = sub.add_parser("check")
    c.add_argument("property")
    c.add_argument("--tier", default=None, choices=["quick", "thorough"])
    c.add_argument("--repo", default=os.environ.get("GFAVERIF_REPO", "/repo"))
    e = sub.add_parser("explain")
    e.add_argument("path")
    sub.add_parser("list")
    args = ap.parse_args(argv)
    if args.cmd == "list":
        for p in PROPERTIES:
            print(p)
        return 0
    if args.cmd == "explain":
        with open(args.path) as f:
            d = json.load(f)
        print(json.dumps(d, indent=1, sort_keys=True))
        print("re-running the check of property %s on %s" %
              (d["property"], d.get("repo", "/repo")))
        # a replay never rewrites the evidence of the registered commands
        import tempfile
        import shutil
        from . import context
        tmp = tempfile.mkdtemp(prefix="gfaverif_explain_")
        context.EVIDENCE_DIR = tmp
        try:
            return run_check(d["property"], "quick", 0,
                             d.get("repo", "/repo"))
        finally:
            shutil.rmtree(tmp, ignore_errors=True)
    tier = args.tier or os.environ.get("VERIF_TIER") or "quick"
    if tier not in ("quick", "thorough"):
        tier = "quick"
    try:
        seed = int(os.environ.get("VERIF_SEED", "0"))
    except ValueError:
        seed = 0
    sys.setrecursionlimit(10000)
    return run_check(args.property.upper(), tier, seed, args.repo)


if __name__ == "__main__":
    sys.exit(main())
