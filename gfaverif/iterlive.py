"""ITER: a live back-reference list must not be iterated while the loop body can
change its length.

Live lists: `X._refs[k]`, `X._refs.get(k, ...)`, the generated reference
getters (`X.dovetails_L`, `X.paths`, ...), `dovetails_of_end()/gaps_of_end()`
(which return the generated getter's list), the values of `X._refs.items()`,
lazy views of those (`reversed`, `enumerate`, `iter`, `zip`) and local names
bound to them.  `list(...)`, `.copy()`, slices, `a + b`, `sorted(...)` and the
list-building properties (`dovetails`, `edges`, ...) are copies.

For every loop / comprehension over a live list of owner line E the body is
analysed with the size-changing effect summaries (EFFECT engine in
`size_only` mode) and the loop variable bound to a pseudo root `lv`:
  (a) an in-place size change of a `_refs` list of E itself, or
  (b) a size change of a list reachable from the *state* of the loop element
      (depth >= 4 from `lv`: element -> _data/_refs -> line -> _refs -> list):
      the lines found in an element's fields are exactly the lines that may be
      E, so E's list may shrink under the iteration
is a violation.  Size changes of the element's own lists (depth 2 from `lv`)
are harmless and are what `_update_references` does.
"""
import ast
import re

from . import effects
from .effects import Program, FuncAnalysis, EMPTY
from .model import unparse, walk_no_nested

LAZY_VIEWS = {"reversed", "enumerate", "iter", "zip"}


def build_program(repo, whitelist=None):
    """size-changing effect summaries with a depth cap that can tell the
    element's own lists (2) from its neighbours' lists (4, 5)"""
    old = effects.CAP
    effects.CAP = 6
    try:
        prog = Program(repo, whitelist, size_only=True)
        prog.run()
    finally:
        effects.CAP = old
    prog.cap = 6
    return prog


def live_getter_methods(prog):
    """methods returning getattr(self, "<pattern>") where the pattern only
    matches generated reference getters"""
    out = set()
    for f in prog.repo.functions.values():
        if f.cls is None or f.kind != "method":
            continue
        rets = [n for n in ast.walk(f.node) if isinstance(n, ast.Return)]
        if len(rets) != 1 or rets[0].value is None:
            continue
        v = rets[0].value
        if isinstance(v, ast.Call) and isinstance(v.func, ast.Name) and \
                v.func.id == "getattr" and len(v.args) == 2 and \
                isinstance(v.args[0], ast.Name) and \
                v.args[0].id == f.self_name:
            pat = string_pattern(v.args[1])
            if pat is None:
                continue
            rx = re.compile("^" + pat + "$")
            # attributes that evaluate to a value (plain methods evaluate
            # to bound methods, which nobody iterates)
            names = prog.field_names | prog.refkeys | set(prog.props_by_name)
            m = {n for n in names if rx.match(n)}
            if m and m <= prog.refkeys:
                out.add(f.name)
    return out


def string_pattern(node):
    if isinstance(node, ast.Constant) and isinstance(node.value, str):
        return re.escape(node.value)
    if isinstance(node, ast.Call) and isinstance(node.func, ast.Attribute) and \
            node.func.attr == "format" and \
            isinstance(node.func.value, ast.Constant):
        return re.sub(r"\\\{[^}]*\\\}", ".*", re.escape(node.func.value.value))
    if isinstance(node, ast.BinOp) and isinstance(node.op, ast.Add):
        a, b = string_pattern(node.left), string_pattern(node.right)
        return (a or ".*") + (b or ".*")
    if isinstance(node, ast.Name):
        return ".*"
    return None


class Iter:
    def __init__(self, prog):
        self.prog = prog
        self.getters = live_getter_methods(prog)
        self.generators = {}
        self.find_live_generators()

    def find_live_generators(self):
        """generator methods that yield from inside a loop over a live list
        of their receiver (or `yield from` one): iterating their result is
        iterating that list.  Name -> functions; iterated to a fixpoint so a
        generator over a generator is seen too."""
        prog = self.prog
        cands = []
        for f in prog.repo.functions.values():
            if f.cls is None or not f.module.name.startswith("gfapy"):
                continue
            if any(isinstance(n, (ast.Yield, ast.YieldFrom))
                   for n in walk_no_nested(f.node)):
                cands.append(f)
        changed = True
        while changed:
            changed = False
            for f in cands:
                if f in self.generators.get(f.name, ()):
                    continue
                fa = FuncAnalysis(prog, f)
                fa.run()
                if self.yields_live(fa, f):
                    self.generators.setdefault(f.name, []).append(f)
                    changed = True

    def yields_live(self, fa, f):
        def visit(stmts, live):
            for n in stmts:
                for sub in walk_no_nested(n) if not isinstance(
                        n, (ast.For, ast.While, ast.If, ast.Try, ast.With)) \
                        else [n]:
                    if isinstance(sub, ast.YieldFrom) and \
                            self.receiver_live(fa, f, sub.value):
                        return True
                    if isinstance(sub, ast.Yield) and live:
                        return True
                if isinstance(n, ast.For):
                    inner = live or self.receiver_live(fa, f, n.iter)
                    if visit(n.body, inner) or visit(n.orelse, live):
                        return True
                elif isinstance(n, (ast.While, ast.If)):
                    if any(isinstance(x, ast.Yield) for x in
                           walk_no_nested(n.test)) and live:
                        return True
                    if visit(n.body, live) or visit(n.orelse, live):
                        return True
                elif isinstance(n, ast.With):
                    if visit(n.body, live):
                        return True
                elif isinstance(n, ast.Try):
                    blocks = [n.body, n.orelse, n.finalbody] + \
                        [h.body for h in n.handlers]
                    if any(visit(b, live) for b in blocks):
                        return True
            return False
        return visit(f.node.body, False)

    def receiver_live(self, fa, f, node):
        """is `node` a live list owned by the receiver of method f"""
        owner = self.live_owner(fa, node)
        if owner is None:
            return False
        return any(r == f.self_name and d == 0 for (r, h, d, k, _) in owner)

    # ------------------------------------------------------------------
    def live_owner(self, fa, node, depth=0):
        """abstract value of the line owning the live list `node` denotes, or
        None if the expression is not (known to be) a live list"""
        if depth > 6:
            return None
        if isinstance(node, ast.Call):
            f = node.func
            if isinstance(f, ast.Name) and f.id in LAZY_VIEWS and node.args:
                for a in node.args:
                    o = self.live_owner(fa, a, depth + 1)
                    if o is not None:
                        return o
                return None
            if isinstance(f, ast.Attribute):
                if f.attr == "get" and isinstance(f.value, ast.Attribute) and \
                        f.value.attr == "_refs":
                    return self.val(fa, f.value.value)
                if f.attr in self.getters or f.attr in self.generators:
                    return self.val(fa, f.value)
            return None
        if isinstance(node, ast.Subscript):
            if isinstance(node.value, ast.Attribute) and \
                    node.value.attr == "_refs" and \
                    not isinstance(node.slice, ast.Slice):
                return self.val(fa, node.value.value)
            return None
        if isinstance(node, ast.Attribute):
            if node.attr in self.prog.refkeys:
                return self.val(fa, node.value)
            return None
        if isinstance(node, ast.Name):
            owners = []
            for n in walk_no_nested(fa.func.node):
                if isinstance(n, ast.Assign) and any(
                        isinstance(t, ast.Name) and t.id == node.id
                        for t in n.targets):
                    o = self.live_owner(fa, n.value, depth + 1)
                    if o is None:
                        return None
                    owners.append(o)
                elif isinstance(n, (ast.For, ast.comprehension)):
                    # for k, v in X._refs.items():  -> v is a live list
                    t = n.target
                    it = n.iter
                    if isinstance(t, ast.Tuple) and len(t.elts) == 2 and \
                            isinstance(t.elts[1], ast.Name) and \
                            t.elts[1].id == node.id and \
                            isinstance(it, ast.Call) and \
                            isinstance(it.func, ast.Attribute) and \
                            it.func.attr == "items" and \
                            isinstance(it.func.value, ast.Attribute) and \
                            it.func.value.attr == "_refs":
                        owners.append(self.val(fa, it.func.value.value))
                    elif any(isinstance(x, ast.Name) and x.id == node.id
                             for x in ast.walk(t)):
                        return None
            if not owners:
                return None
            out = EMPTY
            for o in owners:
                out |= o
            return out if out else frozenset([("?", None, 0, 0, None)])
        return None

    def val(self, fa, node):
        v = fa.ev(node)
        return v if v else frozenset([("?", None, 0, 0, None)])

    # ------------------------------------------------------------------
    def loops(self, func):
        """(kind, node, target, iter expr, body nodes)"""
        for n in walk_no_nested(func.node):
            if isinstance(n, ast.For):
                yield ("for", n, n.target, n.iter, n.body)
            elif isinstance(n, (ast.ListComp, ast.SetComp, ast.GeneratorExp,
                                ast.DictComp)):
                elts = [n.key, n.value] if isinstance(n, ast.DictComp) \
                    else [n.elt]
                for g in n.generators:
                    yield ("comprehension", n, g.target, g.iter,
                           list(g.ifs) + elts)

    def analyse(self):
        """Returns (instances, violations): instances = list of dicts for every
        live-list loop; violations = subset with the offending effects."""
        prog = self.prog
        old = effects.CAP
        effects.CAP = prog.cap
        instances = []
        try:
            for func in sorted(prog.repo.functions.values(),
                               key=lambda f: f.qualname):
                if not func.module.name.startswith("gfapy"):
                    continue
                fa = None
                for kind, node, target, it, body in self.loops(func):
                    if fa is None:
                        fa = FuncAnalysis(prog, func)
                        fa.run()
                    owner = self.live_owner(fa, it)
                    if owner is None:
                        continue
                    inst = {"function": func.short,
                            "iterable": unparse(it),
                            "line": getattr(node, "lineno", 0),
                            "kind": kind, "offending": []}
                    fb = FuncAnalysis(prog, func)
                    fb.run()
                    fb.effects = set()
                    fb.calls = []
                    lv = frozenset([("lv", None, 0, 0, None)])
                    self.rebind(fb, target, lv)
                    prog.recording = True
                    for b in body:
                        if isinstance(b, ast.stmt):
                            fb.stmt(b)
                        else:
                            fb.ev(b)
                    for (r, h, d, w) in sorted(fb.effects, key=str):
                        if w:
                            continue        # whitelisted (paired swap)
                        if r == "lv" and d >= 4:
                            inst["offending"].append({
                                "why": "the body changes the length of a list "
                                       "reachable from the state of the loop "
                                       "element (depth %d): lines found there "
                                       "may be the owner of the iterated "
                                       "list" % d,
                                "effect": [r, h, d],
                                "via": self.via(prog, fb, (r, h, d, w))})
                        for (orr, oh, od, ok_, _) in owner:
                            if ok_ != 0:
                                continue
                            if r == orr and d == od + 2 and \
                                    (h == "_refs" if od == 0 else h == oh):
                                inst["offending"].append({
                                    "why": "the body changes the length of a "
                                           "_refs list of the owner of the "
                                           "iterated list in place",
                                    "effect": [r, h, d],
                                    "via": self.via(prog, fb, (r, h, d, w))})
                    instances.append(inst)
        finally:
            effects.CAP = old
        return instances

    def rebind(self, fb, target, value):
        if isinstance(target, ast.Name):
            fb.env[target.id] = value
        elif isinstance(target, (ast.Tuple, ast.List)):
            for e in target.elts:
                self.rebind(fb, e, value)

    def via(self, prog, fb, eff):
        """call sites of the body through which the effect arrives"""
        out = []
        for (callee, amap, site) in fb.calls:
            for (r, h, d, w) in prog.summaries[callee].effects:
                for loc in amap.get(r, EMPTY):
                    m = effects.map_effect(loc, h, d)
                    if m is not None and m == eff[:3]:
                        out.append("%s -> %s" % (site, callee.short))
                        break
        return sorted(set(out))[:4]
