"""RX: regular-language engine with Python `re` semantics.

`re._parser.parse` gives the regex AST; Thompson NFA -> subset construction
over 129 symbols (ASCII 0..127 and one class for every non-ASCII character).
Modelled exactly for the constructs gfapy uses:
  * re.match anchors at the start only; a pattern not ending in `$` accepts any
    suffix;
  * `$` accepts at the end of the string or before one trailing newline;
    `\\Z` only at the end;
  * `.` excludes newline;  re.search is unanchored;  re.fullmatch is anchored
    at both ends.
Equality / inclusion are decided on the product automaton and come with a
shortest distinguishing string.
"""
import re
try:
    import re._parser as sre_parse
    import re._constants as sre_constants
except ImportError:      # python < 3.11
    import sre_parse
    import sre_constants

from .model import AnalysisError

NSYM = 129
OTHER = 128
ALL = frozenset(range(NSYM))
NL = ord("\n")


def sym(ch):
    o = ord(ch)
    return o if o < 128 else OTHER


def sym_to_char(s):
    return chr(s) if s < 128 else "é"


class NFA:
    def __init__(self):
        self.eps = []      # state -> set of states
        self.tr = []       # state -> list of (frozenset symbols, target)
        self.accept = set()

    def new(self):
        self.eps.append(set())
        self.tr.append([])
        return len(self.eps) - 1

    def closure(self, states):
        stack = list(states)
        seen = set(states)
        while stack:
            s = stack.pop()
            for t in self.eps[s]:
                if t not in seen:
                    seen.add(t)
                    stack.append(t)
        return frozenset(seen)


CATEGORIES = {
    "CATEGORY_DIGIT": frozenset(range(48, 58)),
    "CATEGORY_SPACE": frozenset([9, 10, 11, 12, 13, 32]),
    "CATEGORY_WORD": frozenset(list(range(48, 58)) + list(range(65, 91)) +
                               list(range(97, 123)) + [95]),
}


class Builder:
    def __init__(self, pattern, mode):
        self.pattern = pattern
        self.mode = mode
        self.nfa = NFA()
        self.imprecise = False
        try:
            tree = sre_parse.parse(pattern)
        except re.error as e:
            raise AnalysisError("regex %r does not parse: %s" % (pattern, e))
        if tree.state.flags & ~re.UNICODE:
            raise AnalysisError("regex flags are not modelled: %r" % pattern)
        n = self.nfa
        start = n.new()
        self.end_strict = n.new()     # accepts only at end of input
        self.end_nl = n.new()         # reached through one trailing newline
        n.accept.add(self.end_strict)
        n.accept.add(self.end_nl)
        self.loop = n.new()           # accepts any suffix
        n.accept.add(self.loop)
        n.tr[self.loop].append((ALL, self.loop))
        body_start = n.new()
        self.body_start = body_start
        if mode == "search":
            pre = n.new()
            n.eps[start].add(pre)
            n.tr[pre].append((ALL, pre))
            n.eps[pre].add(body_start)
            self.search_entry = start
            n.eps[start].add(body_start)
            self.unlooped = body_start
        else:
            n.eps[start].add(body_start)
        end = self.seq(list(tree), body_start, top=True)
        if end is not None:
            if mode == "fullmatch":
                n.eps[end].add(self.end_strict)
            else:
                n.eps[end].add(self.loop)
        self.start = start

    def seq(self, items, cur, top=False):
        """build items from state cur; returns the end state, or None when the
        sequence ended in an end-anchor (nothing may follow)"""
        n = self.nfa
        for idx, (op, av) in enumerate(items):
            name = str(op)
            if cur is None:
                # something after `$`: only further end anchors are harmless
                if name == "AT" and str(av) in ("AT_END", "AT_END_STRING"):
                    continue
                raise AnalysisError("regex %r: tokens after an end anchor are "
                                    "not modelled" % self.pattern)
            if name == "LITERAL":
                nxt = n.new()
                n.tr[cur].append((frozenset([av if av < 128 else OTHER]), nxt))
                cur = nxt
            elif name == "NOT_LITERAL":
                nxt = n.new()
                n.tr[cur].append((ALL - frozenset([av if av < 128 else OTHER])
                                  | (frozenset([OTHER])), nxt))
                cur = nxt
            elif name == "ANY":
                nxt = n.new()
                n.tr[cur].append((ALL - frozenset([NL]), nxt))
                cur = nxt
            elif name == "IN":
                nxt = n.new()
                n.tr[cur].append((self.charset(av), nxt))
                cur = nxt
            elif name == "SUBPATTERN":
                sub = av[-1]
                cur = self.seq(list(sub), cur)
            elif name == "BRANCH":
                out = n.new()
                any_open = False
                for alt in av[1]:
                    s = n.new()
                    n.eps[cur].add(s)
                    e = self.seq(list(alt), s)
                    if e is not None:
                        n.eps[e].add(out)
                        any_open = True
                cur = out if any_open else None
            elif name in ("MAX_REPEAT", "MIN_REPEAT", "POSSESSIVE_REPEAT"):
                lo, hi, sub = av
                sub = list(sub)
                for _ in range(lo):
                    cur = self.seq(sub, cur)
                    if cur is None:
                        raise AnalysisError("regex %r: end anchor inside a "
                                            "repeat" % self.pattern)
                if hi == sre_constants.MAXREPEAT:
                    s = n.new()
                    n.eps[cur].add(s)
                    e = self.seq(sub, s)
                    if e is None:
                        raise AnalysisError("regex %r: end anchor inside a "
                                            "repeat" % self.pattern)
                    n.eps[e].add(s)
                    out = n.new()
                    n.eps[s].add(out)
                    cur = out
                else:
                    out = n.new()
                    n.eps[cur].add(out)
                    for _ in range(hi - lo):
                        cur = self.seq(sub, cur)
                        if cur is None:
                            raise AnalysisError("regex %r: end anchor inside "
                                                "a repeat" % self.pattern)
                        n.eps[cur].add(out)
                    cur = out
            elif name == "AT":
                at = str(av)
                if at in ("AT_BEGINNING", "AT_BEGINNING_STRING"):
                    if self.mode == "search":
                        # only reachable without consuming a prefix
                        if not self.at_pattern_start(cur):
                            raise AnalysisError(
                                "regex %r: '^' not at the start is not "
                                "modelled" % self.pattern)
                        self.anchor_search(cur)
                    else:
                        if not self.at_pattern_start(cur):
                            raise AnalysisError(
                                "regex %r: '^' not at the start is not "
                                "modelled" % self.pattern)
                elif at == "AT_END":
                    n.eps[cur].add(self.end_strict)
                    n.tr[cur].append((frozenset([NL]), self.end_nl))
                    cur = None
                elif at == "AT_END_STRING":
                    n.eps[cur].add(self.end_strict)
                    cur = None
                else:
                    raise AnalysisError("regex %r: anchor %s not modelled" %
                                        (self.pattern, at))
            elif name == "GROUPREF" or name.startswith("ASSERT"):
                raise AnalysisError("regex %r: %s not modelled" %
                                    (self.pattern, name))
            else:
                raise AnalysisError("regex %r: op %s not modelled" %
                                    (self.pattern, name))
        return cur

    def at_pattern_start(self, cur):
        """cur is reachable from the pattern entry by epsilon moves only and
        nothing has been consumed"""
        n = self.nfa
        # states reachable by eps from the body start
        seen = set()
        stack = [self.body_start]
        while stack:
            s = stack.pop()
            if s in seen:
                continue
            seen.add(s)
            stack.extend(n.eps[s])
        return cur in seen

    def anchor_search(self, cur):
        # remove the possibility of reaching `cur`'s continuation after a
        # consumed prefix: mark by building a separate entry.  The simple
        # construction used here: patterns with '^' under re.search are built
        # as match patterns.
        raise AnalysisError("regex %r: '^' under re.search -- use match "
                            "semantics" % self.pattern)

    def charset(self, items):
        out = set()
        negate = False
        for op, av in items:
            name = str(op)
            if name == "NEGATE":
                negate = True
            elif name == "LITERAL":
                out.add(av if av < 128 else OTHER)
            elif name == "RANGE":
                lo, hi = av
                for c in range(lo, min(hi, 127) + 1):
                    out.add(c)
                if hi >= 128:
                    out.add(OTHER)
                    self.imprecise = True
            elif name == "CATEGORY":
                cat = str(av)
                if cat in CATEGORIES:
                    out |= CATEGORIES[cat]
                    self.imprecise = True   # unicode members not modelled
                elif cat.startswith("CATEGORY_NOT_") and \
                        "CATEGORY_" + cat[13:] in CATEGORIES:
                    out |= (ALL - CATEGORIES["CATEGORY_" + cat[13:]])
                    self.imprecise = True
                else:
                    raise AnalysisError("regex %r: category %s" %
                                        (self.pattern, cat))
            else:
                raise AnalysisError("regex %r: set item %s" %
                                    (self.pattern, name))
        s = frozenset(out)
        if negate:
            s = ALL - s
        return s


class DFA:
    """Complete deterministic automaton over NSYM symbols."""

    def __init__(self, trans, accept, start=0, note=""):
        self.trans = trans      # list of lists (state -> symbol -> state)
        self.accept = accept    # set of states
        self.start = start
        self.note = note

    @staticmethod
    def from_nfa(nfa, start):
        s0 = nfa.closure([start])
        index = {s0: 0}
        order = [s0]
        trans = []
        i = 0
        while i < len(order):
            cur = order[i]
            row = [None] * NSYM
            # group transitions
            moves = {}
            for s in cur:
                for (symset, t) in nfa.tr[s]:
                    for a in symset:
                        moves.setdefault(a, set()).add(t)
            cache = {}
            for a in range(NSYM):
                tg = moves.get(a)
                if not tg:
                    key = frozenset()
                else:
                    fk = frozenset(tg)
                    key = cache.get(fk)
                    if key is None:
                        key = cache[fk] = nfa.closure(fk)
                j = index.get(key)
                if j is None:
                    j = index[key] = len(order)
                    order.append(key)
                row[a] = j
            trans.append(row)
            i += 1
            if len(order) > 20000:
                raise AnalysisError("regex automaton too large")
        accept = {index[k] for k in order if k & nfa.accept}
        return DFA(trans, accept)

    # ---- queries
    def accepts(self, string):
        s = self.start
        for ch in string:
            s = self.trans[s][sym(ch)]
        return s in self.accept

    def n_states(self):
        return len(self.trans)

    # ---- boolean operations
    def complement(self):
        return DFA(self.trans, set(range(len(self.trans))) - self.accept,
                   self.start)

    def product(self, other, op):
        index = {(self.start, other.start): 0}
        order = [(self.start, other.start)]
        trans = []
        i = 0
        while i < len(order):
            a, b = order[i]
            row = [None] * NSYM
            ra, rb = self.trans[a], other.trans[b]
            for c in range(NSYM):
                key = (ra[c], rb[c])
                j = index.get(key)
                if j is None:
                    j = index[key] = len(order)
                    order.append(key)
                row[c] = j
            trans.append(row)
            i += 1
        accept = {index[(a, b)] for (a, b) in order
                  if op(a in self.accept, b in other.accept)}
        return DFA(trans, accept)

    def intersect(self, o):
        return self.product(o, lambda x, y: x and y)

    def union(self, o):
        return self.product(o, lambda x, y: x or y)

    def minus(self, o):
        return self.product(o, lambda x, y: x and not y)

    def witness(self):
        """shortest accepted string, or None if the language is empty"""
        import collections
        prev = {self.start: None}
        q = collections.deque([self.start])
        while q:
            s = q.popleft()
            if s in self.accept:
                out = []
                while prev[s] is not None:
                    s, c = prev[s]
                    out.append(sym_to_char(c))
                return "".join(reversed(out))
            row = self.trans[s]
            # prefer printable symbols for readable witnesses
            for c in PREFERRED:
                t = row[c]
                if t not in prev:
                    prev[t] = (s, c)
                    q.append(t)
        return None

    def is_empty(self):
        return self.witness() is None

    def equals(self, other):
        """(True, None) or (False, shortest distinguishing string, side)"""
        d = self.product(other, lambda x, y: x != y)
        w = d.witness()
        if w is None:
            return True, None, None
        return False, w, ("left" if self.accepts(w) else "right")

    def subset_of(self, other):
        w = self.minus(other).witness()
        return (w is None), w


PREFERRED = [ord(c) for c in "0123456789abcdefghijklmnopqrstuvwxyz"
             "ABCDEFGHIJKLMNOPQRSTUVWXYZ*+-.,:;=_$#!\"%&'()/<>?@[\\]^`{|}~ "] + \
    [9, 10, 13] + [c for c in range(NSYM) if c < 32 and c not in (9, 10, 13)] \
    + [127, 128]
_seen = set()
PREFERRED = [c for c in PREFERRED if not (c in _seen or _seen.add(c))]
assert len(PREFERRED) == NSYM


_cache = {}


def from_regex(pattern, mode="match"):
    """Language { s | re.<mode>(pattern, s) is not None }."""
    key = (pattern, mode)
    if key not in _cache:
        if mode == "search" and pattern.startswith("^"):
            b = Builder(pattern, "match")
        else:
            b = Builder(pattern, mode)
        d = DFA.from_nfa(b.nfa, b.start)
        d.note = "%s(%r)" % (mode, pattern)
        d.imprecise = b.imprecise
        _cache[key] = d
    return _cache[key]


def strict(pattern):
    """Language of the grammar regex: exactly the strings it describes
    (anchored at both ends, no trailing-newline allowance)."""
    return from_regex(pattern, "fullmatch")


def everything():
    return DFA([[0] * NSYM], {0})


def nothing():
    return DFA([[0] * NSYM], set())


def literal(s):
    trans = []
    for i, ch in enumerate(s):
        row = [len(s) + 1] * NSYM
        row[sym(ch)] = i + 1
        trans.append(row)
    trans.append([len(s) + 1] * NSYM)      # accepting, then dead
    trans.append([len(s) + 1] * NSYM)      # dead
    return DFA(trans, {len(s)})


def containing(ch):
    """strings that contain the character ch  (str.find(ch) != -1)"""
    c = sym(ch)
    t0 = [0] * NSYM
    t0[c] = 1
    return DFA([t0, [1] * NSYM], {1})


def self_test(patterns, n_random=2000, seed=0):
    """Cross-check the automata with the stdlib re module on random strings.
    Returns the number of comparisons; raises AnalysisError on a mismatch."""
    import random
    rnd = random.Random(seed)
    alphabet = "01259aAzZ*+-.,:$= \t\n\r~!éeE"
    count = 0
    for (pat, mode) in patterns:
        d = from_regex(pat, mode)
        fn = {"match": re.match, "search": re.search,
              "fullmatch": re.fullmatch}[mode]
        rx = re.compile(pat)
        for _ in range(n_random):
            ln = rnd.randint(0, 7)
            s = "".join(rnd.choice(alphabet) for _ in range(ln))
            want = getattr(rx, mode)(s) is not None
            if d.accepts(s) != want:
                raise AnalysisError(
                    "RX self-test: automaton of %s(%r) disagrees with re on "
                    "%r" % (mode, pat, s))
            count += 1
    return count
