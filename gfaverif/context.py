"""Run context shared by all rules: findings, known findings, evidence."""
import json
import os
import re
import time

from .model import AnalysisError, Repo

VERIF_DIR = os.path.dirname(os.path.dirname(os.path.abspath(__file__)))
KNOWN_FINDINGS = os.path.join(VERIF_DIR, "known_findings.txt")
# the self-test / seed runs point this elsewhere so that they never touch the
# evidence written by the registered commands
EVIDENCE_DIR = os.environ.get("GFAVERIF_EVIDENCE_DIR") or \
    os.path.join(VERIF_DIR, "evidence")

_FINDING_RE = re.compile(
    r'^finding:\s+property=(C\d+)\s+key=("(?:[^"\\]|\\.)*")\s+(.*)$')


def load_known_findings(path=KNOWN_FINDINGS):
    """{(property, key): text}"""
    out = {}
    if not os.path.exists(path):
        return out
    with open(path, encoding="utf8") as f:
        for line in f:
            line = line.rstrip("\n")
            if not line.startswith("finding:"):
                continue
            m = _FINDING_RE.match(line)
            if not m:
                raise AnalysisError("malformed line in known_findings.txt: %s"
                                    % line[:80])
            out[(m.group(1), json.loads(m.group(2)))] = m.group(3)
    return out


class Violation:
    def __init__(self, rule, where, construct, message, witness=None):
        self.rule = rule
        self.where = where
        self.construct = construct
        self.message = message
        self.witness = witness or {}

    @property
    def key(self):
        return "%s|%s|%s" % (self.rule, self.where, self.construct)

    def as_dict(self):
        return {"rule": self.rule, "where": self.where,
                "construct": self.construct, "message": self.message,
                "key": self.key, "witness": self.witness}


class Context:
    def __init__(self, prop, tier, seed, repo_root):
        self.prop = prop
        self.tier = tier
        self.seed = seed
        self.repo_root = repo_root
        self.t0 = time.time()
        self.repo = Repo(repo_root)
        self.violations = []
        self.errors = []            # analysis errors (-> exit 2)
        self.rule_text = {}         # rule -> statement of the rule
        self.instances = {}         # rule -> count of matched instances
        self.floors = {}            # rule -> minimum count
        self.obligations = 0
        self.discharged = 0
        self.samples = []
        self.assumptions = []
        self.notes = {}
        self.exhaustive = {}
        self.undecided = []
        self._seen_keys = set()

    # -- recording
    def rule(self, name, text, floor=1):
        self.rule_text[name] = text
        self.instances.setdefault(name, 0)
        self.floors[name] = floor

    def instance(self, rule, n=1):
        self.instances[rule] = self.instances.get(rule, 0) + n

    def oblige(self, ok=True, n=1):
        self.obligations += n
        if ok:
            self.discharged += n

    def sample(self, obj, limit=40):
        if len(self.samples) < limit:
            self.samples.append(obj)

    def assume(self, text):
        if text not in self.assumptions:
            self.assumptions.append(text)

    def violation(self, rule, where, construct, message, witness=None):
        v = Violation(rule, where, construct, message, witness)
        if v.key in self._seen_keys:
            return
        self._seen_keys.add(v.key)
        self.violations.append(v)

    def error(self, text):
        self.errors.append(text)

    def anchor(self, what, value):
        """Fail closed when an anchor has vanished."""
        if value is None or value is False:
            raise AnalysisError("anchor vanished: %s" % what)
        return value

    # -- finish
    def finish(self, out=None):
        import sys
        out = out or sys.stdout
        known = load_known_findings()
        new = []
        seen_known = []
        for v in self.violations:
            txt = known.get((self.prop, v.key))
            if txt is not None:
                seen_known.append(v)
                out.write("KNOWN-FINDING: property=%s %s %s\n" %
                          (self.prop, v.key, txt))
            else:
                new.append(v)
        for rule, n in sorted(self.instances.items()):
            floor = self.floors.get(rule, 1)
            if n < floor:
                self.errors.append(
                    "rule %s matched %d instance(s), fewer than its floor %d "
                    "(the rule would pass vacuously)" % (rule, n, floor))
        status = 0
        replay_paths = []
        if new:
            status = 1
            rdir = os.path.join(EVIDENCE_DIR, "replay")
            os.makedirs(rdir, exist_ok=True)
            for i, v in enumerate(new):
                path = os.path.join(rdir, "%s-%02d.json" % (self.prop, i))
                with open(path, "w", encoding="utf8") as f:
                    json.dump({"property": self.prop, "repo": self.repo_root,
                               **v.as_dict()}, f, indent=1, sort_keys=True)
                replay_paths.append(path)
                out.write("%s: %s\n    construct: %s\n    %s\n" % (
                    v.rule, v.where, v.construct, v.message))
                out.write("VIOLATION property=%s replay=%s\n" %
                          (self.prop, path))
        if self.errors:
            for e in self.errors:
                out.write("ANALYSIS-ERROR property=%s %s\n" % (self.prop, e))
            if status == 0:
                status = 2
        wall = time.time() - self.t0
        ev = {
            "property_id": self.prop,
            "tier": self.tier,
            "seed": self.seed,
            "level": "other",
            "coverage": {
                "explanation": " ; ".join(
                    "%s: %s" % (r, t) for r, t in sorted(self.rule_text.items())),
                "obligations": self.obligations,
                "discharged": self.discharged,
                "rule_instances": dict(sorted(self.instances.items())),
                "rule_floors": dict(sorted(self.floors.items())),
                "samples": self.samples,
                "exhaustive": bool(self.exhaustive) and
                all(self.exhaustive.values()),
                "exhaustive_rules": self.exhaustive,
                "undecided": self.undecided,
                "known_findings_seen": [v.key for v in seen_known],
                "new_violations": [v.as_dict() for v in new],
                "analysis_errors": self.errors,
                **self.repo.stats(),
                **self.notes,
            },
            "assumptions": self.assumptions,
            "wall_s": round(wall, 3),
            "violations": len(new),
        }
        os.makedirs(EVIDENCE_DIR, exist_ok=True)
        with open(os.path.join(EVIDENCE_DIR, "%s.json" % self.prop), "w",
                  encoding="utf8") as f:
            json.dump(ev, f, indent=1, sort_keys=True, default=str)
        out.write("%s %s tier=%s: %d obligations, %d discharged, %d new "
                  "violation(s), %d known finding(s), %d analysis error(s), "
                  "%.2fs\n" % (
                      self.prop,
                      {0: "OK", 1: "VIOLATED", 2: "ANALYSIS-ERROR"}[status],
                      self.tier, self.obligations, self.discharged, len(new),
                      len(seen_known), len(self.errors), wall))
        for rule, n in sorted(self.instances.items()):
            out.write("  rule %-22s instances=%d floor=%d\n" %
                      (rule, n, self.floors.get(rule, 1)))
        return status


COMMON_ASSUMPTIONS = [
    "the analysed program is the working tree under the --repo root; nothing "
    "of it is imported or executed",
    "no monkey-patching other than Line.register_extension / "
    "Field.register_datatype; Line.EXTENSIONS is empty (tests/extension.py is "
    "not part of the library)",
    "the import-time post-processing of record tables "
    "(Construction._apply_definitions) behaves as modelled in "
    "gfaverif/model.py: STORAGE_KEY := 'name' when NAME_FIELD is set, alias "
    "name -> NAME_FIELD, PREDEFINED_TAGS := DATATYPE keys minus POSFIELDS "
    "when empty, one accessor per field/alias/reference key",
    "the resolver of gfaverif (namespace, C3 MRO, class-hierarchy analysis of "
    "self-calls) is trusted",
]
