"""ATOM: commit-before-raise ordering on top of EFFECT.

For a *frame* (function, set of parameter roots that denote persistent
objects) every path through the statement tree is walked with a small state:
the set of commit sites already passed (empty = nothing committed yet).

  COMMIT  a direct write, or a call whose mapped effects contain a write, to
          persistent state: an object rooted at a persistent parameter, or
          anything reached *through* a `_gfa` attribute (the Gfa and every
          line registered in it);
  RAISE   an explicit `raise` of a library error other than AssertionError
          that no enclosing handler of the function catches, or a call of a
          function from which such a raise may escape.

A RAISE met in a state that contains a commit site is a violation: the call
fails and leaves the persistent state changed.  Callees that both commit (in
the caller's frame) and may raise are scheduled as frames of their own, with
the persistent roots translated through the argument map, so the whole
cascade below an entry point is covered.  Loops are iterated until the state
is stable (iteration n may commit, iteration n+1 may raise).
"""
import ast
import collections

from .model import FuncInfo, unparse, dotted, walk_no_nested
from .effects import EMPTY

IGNORED_HEADS = {
    # counters / explanations the property does not list as observable
    "_n_input_header_lines", "_max_int_name", "_version_explanation",
    "_progress_log_data", "_progress", "__error__",
}
WIDE = {"Exception", "BaseException", "*", "Error"}
# call sites whose callees are taken into account for RAISE and COMMIT: calls
# on self (resolved through the hierarchy), static calls, constructors,
# super(), datatype-module dispatch, attribute loads/stores of properties and
# generated accessors, and calls resolved by method name.  Operator and
# builtin dispatch to special methods (== in str() len() ...) is left out: the
# by-name candidates of `__eq__` & co. cover every class of the tree.
PRECISE_SITES = {"self", "static", "constructor", "super", "field-module",
                 "attr-load", "attr-store", "name", "getattr"}
NOT_A_RAISE = {"AssertionError"}


def handler_names(h):
    if h.type is None:
        return {"*"}
    elts = h.type.elts if isinstance(h.type, ast.Tuple) else [h.type]
    return {(dotted(e) or unparse(e)).split(".")[-1] for e in elts}


def raise_class(node):
    """class name of an explicit raise; None for a bare re-raise; '?' when
    it is not a plain class (e.g. err.__class__)"""
    if node.exc is None:
        return None
    e = node.exc.func if isinstance(node.exc, ast.Call) else node.exc
    d = dotted(e)
    if d is None or d.endswith("__class__"):
        return "?"
    return d.split(".")[-1]


# Functions whose raises are not counted as the failure of a mutation (one
# reason each; they are reviewed assumptions, listed in the evidence)
QUIET = {
    "line.common.field_data.FieldData.get":
        "raises only while parsing a field still stored as unparsed text "
        "(vlevel 0 / value set to a string by the user)",
    "line.common.field_data.FieldData.try_get":
        "as get; NotFoundError only for an absent field",
    "lines.collections.Collections._api_private_check_gfa_line":
        "argument-type check of a private API",
    "lines.finders.Finders.line": "lookup; raises nothing itself",
    "lines.finders.Finders.segment": "lookup",
    "lines.finders.Finders._search_duplicate": "lookup",
    "lines.finders.Finders._search_link": "lookup",
    "oriented_line.OrientedLine.__init__":
        "ArgumentError only for a wrong number/type of arguments",
    "oriented_line.OrientedLine.__new__": "as __init__",
    "segment_end.SegmentEnd.__init__": "as OrientedLine",
    "segment_end.SegmentEnd.__new__": "as OrientedLine",
    "symbol_invert.invert":
        "ValueError only for a symbol that is not an orientation / end type",
    "line.common.writer.Writer.__str__": "message formatting",
    "line.common.writer.Writer.to_str": "message formatting",
    "line.common.writer.Writer.refstr": "message formatting",
}


class Atom:
    def __init__(self, prog):
        self.prog = prog
        self.repo = prog.repo
        self._callees = {}
        self._precise = {}
        self.raises = {}
        self._compute_raises()

    # ------------------------------------------------------------- call sites
    def callees_at(self, f, node):
        """[(callee, amap, effects in f's frame)] for a call / property load"""
        fa = self.prog.analyses.get(f)
        if fa is None:
            return []
        infos = fa.call_info.get(id(node), [])
        if not infos:
            return infos
        ok = self._precise.get(f)
        if ok is None:
            ok = self._precise[f] = {}
            for s in self.prog.sites.get(f, ()):
                if s.how in PRECISE_SITES:
                    ok.setdefault(id(s.node), set()).update(
                        c for c in s.callees if isinstance(c, FuncInfo))
        allowed = ok.get(id(node), ())
        return [i for i in infos if i[0] in allowed]

    def eval_order(self, node):
        """call / attribute-load / raise nodes of an expression or simple
        statement in evaluation order (arguments before the call)"""
        out = []

        def visit(n):
            if isinstance(n, (ast.Lambda, ast.FunctionDef, ast.ClassDef)):
                return
            for c in ast.iter_child_nodes(n):
                visit(c)
            if isinstance(n, (ast.Call, ast.Attribute, ast.Subscript,
                              ast.Compare, ast.BinOp)):
                out.append(n)
        visit(node)
        return out

    # ---------------------------------------------------------------- raises
    def _explicit(self, f):
        """[(raise node, handler stack)] and [(call-ish node, handler stack)]
        of f; the handler stack lists the try statements whose *body*
        encloses the node"""
        raises, calls = [], []

        def walk(body, stack, in_handler):
            for st in body:
                if isinstance(st, (ast.FunctionDef, ast.ClassDef)):
                    continue
                if isinstance(st, ast.Try):
                    walk(st.body, stack + [st], in_handler)
                    for h in st.handlers:
                        walk(h.body, stack, st)
                    walk(st.orelse, stack, in_handler)
                    walk(st.finalbody, stack, in_handler)
                    continue
                if isinstance(st, ast.Raise):
                    raises.append((st, list(stack), in_handler))
                for field in ("body", "orelse", "finalbody"):
                    sub = getattr(st, field, None)
                    if isinstance(sub, list) and sub and \
                            isinstance(sub[0], ast.stmt):
                        walk(sub, stack, in_handler)
                # expressions of this statement (not of nested statements)
                for ch in ast.iter_child_nodes(st):
                    if isinstance(ch, ast.expr):
                        for n in self.eval_order(ch):
                            calls.append((n, list(stack)))
                    elif isinstance(ch, (ast.withitem,)):
                        for n in self.eval_order(ch.context_expr):
                            calls.append((n, list(stack)))
        walk(f.node.body, [], None)
        return raises, calls

    @staticmethod
    def escapes(classes, stack):
        """classes not caught by any try of the stack"""
        out = set(classes)
        for t in stack:
            caught = set()
            for h in t.handlers:
                caught |= handler_names(h)
            if caught & WIDE:
                return set()
            out -= caught
        return out

    def _compute_raises(self):
        funcs = list(self.repo.functions.values())
        info = {}
        self.quiet = set()
        for f in funcs:
            info[f] = self._explicit(f)
            self.raises[f] = frozenset()
            if f.short in QUIET:
                self.quiet.add(f)
                info[f] = ([], [])
        self._info = info
        changed = True
        rounds = 0
        while changed:
            changed = False
            rounds += 1
            for f in funcs:
                rs, calls = info[f]
                cur = set(self.raises[f])
                for (st, stack, in_handler) in rs:
                    c = raise_class(st)
                    if c is None or c == "?":
                        # re-raise of what the try body raised
                        if in_handler is not None:
                            cls = self.body_raises(f, in_handler)
                        else:
                            cls = set()
                    else:
                        cls = {c}
                    cur |= self.escapes(cls - NOT_A_RAISE, stack)
                for (n, stack) in calls:
                    for (callee, amap, effs) in self.callees_at(f, n):
                        cur |= self.escapes(self.raises.get(callee, ()), stack)
                if cur != self.raises[f]:
                    self.raises[f] = frozenset(cur)
                    changed = True
        self.rounds = rounds

    def body_raises(self, f, trystmt):
        out = set()
        for st in trystmt.body:
            for n in ast.walk(st):
                if isinstance(n, ast.Raise):
                    c = raise_class(n)
                    if c and c != "?":
                        out.add(c)
                for (callee, amap, effs) in self.callees_at(f, n):
                    out |= set(self.raises.get(callee, ()))
        return out - NOT_A_RAISE

    # --------------------------------------------------------------- commits
    @staticmethod
    def is_commit(eff, P):
        root, head, depth, w = eff
        if w or head in IGNORED_HEADS or root == "glob":
            return False
        if root in P:
            return True
        return head == "_gfa" and depth >= 2

    @staticmethod
    def persistent_loc(loc, P):
        root, head, d, k, via = loc
        if k > 0 or root == "glob":
            return False
        if root in P:
            return True
        return head == "_gfa" and d >= 1

    def callee_frame(self, callee, amap, P):
        roots = set()
        for r, locs in amap.items():
            if any(self.persistent_loc(l, P) for l in locs):
                roots.add(r)
        return (callee, frozenset(roots))

    # ------------------------------------------------------------------ walk
    def analyse(self, entries, max_frames=2000):
        """entries: [(FuncInfo, set of persistent roots)].  Returns
        (violations, frames analysed)"""
        work = collections.deque((f, frozenset(P)) for f, P in entries)
        seen = set(work)
        violations = []
        frames = []
        while work:
            frame = work.popleft()
            frames.append(frame)
            if len(frames) > max_frames:
                raise RuntimeError("ATOM: frame budget exceeded")
            w = Walk(self, frame)
            w.run()
            violations.extend(w.violations)
            for fr in w.scheduled:
                if fr not in seen:
                    seen.add(fr)
                    work.append(fr)
        return violations, frames


class Walk:
    def __init__(self, atom, frame):
        self.atom = atom
        self.f, self.P = frame
        self.fa = atom.prog.analyses.get(self.f)
        self.violations = []
        self.scheduled = []
        self.stack = []         # enclosing try statements (bodies)
        self.handler_entry = {}     # id(try) -> set of states
        self.cur_handler = None

    def run(self):
        if self.fa is None:
            return
        self.block(self.f.node.body, frozenset([()]))

    # state = tuple of commit sites (at most 2 kept); the state set is a
    # frozenset of such tuples; () = nothing committed
    @staticmethod
    def add_commit(states, site):
        out = set()
        for s in states:
            out.add(s if s else (site,))
        return frozenset(out)

    def site(self, node):
        t = unparse(node)
        return t if len(t) <= 70 else t[:67] + "..."

    def raise_event(self, states, classes, node, via=None):
        """an exception of `classes` may be raised at node"""
        if not classes:
            return
        esc = set(classes)
        for t in reversed(self.stack):
            caught = set()
            for h in t.handlers:
                caught |= handler_names(h)
            if caught & WIDE:
                hit = set(esc)
            else:
                hit = esc & caught
            if hit:
                self.handler_entry.setdefault(id(t), set()).update(states)
                esc -= hit
            if not esc:
                return
        for s in states:
            if s:
                self.violations.append(dict(
                    function=self.f, P=self.P, commit=s[0],
                    raise_site=self.site(node), classes=sorted(esc),
                    via=via))

    def expr(self, node, states):
        for n in self.atom.eval_order(node):
            infos = self.atom.callees_at(self.f, n)
            if not infos:
                continue
            rcls = set()
            commits = False
            via = None
            for (callee, amap, effs) in infos:
                r = self.atom.raises.get(callee, frozenset())
                c = any(Atom.is_commit(e, self.P) for e in effs)
                if r and via is None:
                    via = callee.short
                rcls |= set(r)
                commits = commits or c
                if r and c:
                    self.scheduled.append(
                        self.atom.callee_frame(callee, amap, self.P))
            self.raise_event(states, rcls, n, via=via)
            if commits:
                states = self.add_commit(states, self.site(n))
        return states

    def direct_commit(self, st, states):
        effs = self.fa.stmt_direct.get(id(st), ())
        if any(Atom.is_commit(e, self.P) for e in effs):
            states = self.add_commit(states, self.site(st))
        return states

    def block(self, body, states):
        """returns the states that fall through the end of the block"""
        for st in body:
            if not states:
                break
            states = self.stmt(st, states)
        return states

    def stmt(self, st, states):
        if isinstance(st, (ast.FunctionDef, ast.ClassDef)):
            return states
        if isinstance(st, ast.If):
            states = self.expr(st.test, states)
            states = self.direct_commit(st, states)
            a = self.block(st.body, states)
            b = self.block(st.orelse, states)
            return a | b
        if isinstance(st, (ast.For, ast.While)):
            head = st.iter if isinstance(st, ast.For) else st.test
            states = self.expr(head, states)
            states = self.direct_commit(st, states)
            self.loop_exit = getattr(self, "loop_exit", [])
            self.loop_exit.append({"brk": set(), "cont": set()})
            cur = states
            allst = set(states)
            for _ in range(4):
                nxt = set(self.block(st.body, frozenset(cur)))
                nxt |= self.loop_exit[-1]["cont"]
                if isinstance(st, ast.While) and nxt:
                    nxt = set(self.expr(st.test, frozenset(nxt)))
                new = nxt - allst
                allst |= nxt
                if not new:
                    break
                cur = allst
            brk = self.loop_exit.pop()["brk"]
            out = frozenset(allst | brk)
            return self.block(st.orelse, out) if st.orelse else out
        if isinstance(st, ast.Try):
            self.stack.append(st)
            a = self.block(st.body, states)
            self.stack.pop()
            a = self.block(st.orelse, a) if st.orelse else a
            entry = frozenset(self.handler_entry.pop(id(st), set()))
            out = set(a)
            for h in st.handlers:
                if entry:
                    out |= self.block(h.body, entry)
            out = frozenset(out)
            if st.finalbody:
                out = self.block(st.finalbody, out)
            return out
        if isinstance(st, ast.With):
            for item in st.items:
                states = self.expr(item.context_expr, states)
            return self.block(st.body, states)
        if isinstance(st, ast.Raise):
            if st.exc is not None:
                states = self.expr(st.exc, states)
            c = raise_class(st)
            if c is None or c == "?":
                cls = {"<re-raise>"}
            else:
                cls = {c} - NOT_A_RAISE
            self.raise_event(states, cls, st)
            return frozenset()
        if isinstance(st, ast.Return):
            if st.value is not None:
                self.expr(st.value, states)
            return frozenset()
        if isinstance(st, (ast.Break, ast.Continue)):
            if getattr(self, "loop_exit", None):
                self.loop_exit[-1]["brk" if isinstance(st, ast.Break)
                                   else "cont"] |= set(states)
            return frozenset()
        # simple statement: its calls in evaluation order, then its own
        # direct writes
        for ch in ast.iter_child_nodes(st):
            if isinstance(ch, ast.expr):
                states = self.expr(ch, states)
        return self.direct_commit(st, states)
