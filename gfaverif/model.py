"""MODEL: parsed program, namespace, classes, MRO, record tables.

Nothing of the analysed repository is imported; everything is derived from the
syntax trees of the files under <root>/gfapy and <root>/bin.
"""
import ast
import os
import sys


class AnalysisError(Exception):
    """The analysis cannot give a verdict (anchor vanished, unsupported
    construct inside a function a rule must understand, ...) -> exit 2."""


# --------------------------------------------------------------------------
# small AST helpers

def unparse(node):
    """Normalised source text of a node (positions dropped)."""
    try:
        return ast.unparse(node)
    except Exception:  # pragma: no cover
        return "<%s>" % type(node).__name__


def set_parents(tree):
    for parent in ast.walk(tree):
        for child in ast.iter_child_nodes(parent):
            child._parent = parent
    tree._parent = None


def dotted(node):
    """'a.b.c' for a Name/Attribute chain, else None."""
    parts = []
    while isinstance(node, ast.Attribute):
        parts.append(node.attr)
        node = node.value
    if isinstance(node, ast.Name):
        parts.append(node.id)
        return ".".join(reversed(parts))
    return None


def walk_no_nested(node):
    """Walk a function body without entering nested function/class/lambda
    definitions (the definition node itself is yielded)."""
    stack = list(ast.iter_child_nodes(node))
    while stack:
        n = stack.pop()
        yield n
        if isinstance(n, (ast.FunctionDef, ast.AsyncFunctionDef, ast.ClassDef,
                          ast.Lambda)):
            continue
        stack.extend(ast.iter_child_nodes(n))


# --------------------------------------------------------------------------
# entities

class Module:
    def __init__(self, name, path, tree, src, is_pkg):
        self.name = name
        self.path = path
        self.tree = tree
        self.src = src
        self.is_pkg = is_pkg
        self.bindings = {}      # name -> list of binding tuples (in order)
        self.star = []          # module names star-imported
        self.classes = {}       # local class name -> ClassInfo
        self.functions = {}     # local function name -> FuncInfo

    def __repr__(self):
        return "<Module %s>" % self.name


class _Normalise(ast.NodeTransformer):
    """Rewrites that change no run-time behaviour, applied to every parsed
    module so that no engine has to know the construct: an annotated assignment
    `x: T = v` is the assignment `x = v`; a bare annotation `x: T` binds
    nothing (only `__annotations__`, which gfapy never reads)."""

    def visit_AnnAssign(self, node):
        self.generic_visit(node)
        if node.value is None:
            return ast.copy_location(ast.Pass(), node)
        return ast.copy_location(
            ast.Assign(targets=[node.target], value=node.value), node)


class External:
    """A module or object that is not part of the repository."""
    def __init__(self, name):
        self.name = name

    def __repr__(self):
        return "<External %s>" % self.name

    def __eq__(self, o):
        return isinstance(o, External) and o.name == self.name

    def __hash__(self):
        return hash(("ext", self.name))


class Const:
    """Value bound by an assignment (unevaluated expression)."""
    def __init__(self, module, node, cls=None):
        self.module = module
        self.node = node
        self.cls = cls

    def __repr__(self):
        return "<Const %s>" % unparse(self.node)[:40]


class FuncInfo:
    def __init__(self, name, node, module, cls=None, kind="function",
                 parent=None):
        self.name = name
        self.node = node
        self.module = module
        self.cls = cls
        self.kind = kind    # function method staticmethod classmethod property setter
        self.parent = parent
        self.nested = {}    # name -> FuncInfo
        a = node.args
        self.params = [x.arg for x in a.posonlyargs + a.args]
        self.kwonly = [x.arg for x in a.kwonlyargs]
        self.vararg = a.vararg.arg if a.vararg else None
        self.kwarg = a.kwarg.arg if a.kwarg else None

    @property
    def qualname(self):
        if self.parent is not None:
            return self.parent.qualname + ".<locals>." + self.name
        if self.cls is not None:
            q = self.cls.qualname + "." + self.name
        else:
            q = self.module.name + "." + self.name
        if self.kind == "setter":
            q += "[setter]"
        return q

    @property
    def short(self):
        q = self.qualname
        return q[6:] if q.startswith("gfapy.") else q

    @property
    def has_self(self):
        return self.cls is not None and self.kind in ("method", "property",
                                                      "setter", "classmethod")

    @property
    def self_name(self):
        if self.has_self and self.params:
            return self.params[0]
        return None

    def __repr__(self):
        return "<Func %s>" % self.qualname


class ClassInfo:
    def __init__(self, name, node, module, outer=None):
        self.name = name
        self.node = node
        self.module = module
        self.outer = outer
        self.bases = []         # ClassInfo | str (builtin/external name)
        self.mro = None
        self.methods = {}       # name -> FuncInfo (plain/static/class/property getter)
        self.setters = {}       # name -> FuncInfo
        self.attrs = {}         # name -> value node (class-level assignment)
        self.aliases = {}       # name -> other name in this class body
        self.nested = {}        # name -> ClassInfo
        self.applies_definitions = False
        self.generated = {}     # name -> (FuncInfo, {kw: value}) from setattr loops
        self.subclasses = []

    @property
    def qualname(self):
        if self.outer is not None:
            return self.outer.qualname + "." + self.name
        return self.module.name + "." + self.name

    @property
    def short(self):
        q = self.qualname
        return q[6:] if q.startswith("gfapy.") else q

    def __repr__(self):
        return "<Class %s>" % self.qualname

    # -- lookup along the MRO
    def mro_classes(self):
        return [c for c in self.mro if isinstance(c, ClassInfo)]

    def builtin_bases(self):
        return [c for c in self.mro if isinstance(c, str)]

    def find_method(self, name, after=None, setter=False):
        """First definition of `name` in the MRO (after class `after`)."""
        seq = self.mro_classes()
        if after is not None:
            if after in seq:
                seq = seq[seq.index(after) + 1:]
            else:
                return None
        for c in seq:
            hit = c.own_method(name, setter=setter)
            if hit is not None:
                return hit
        return None

    def own_method(self, name, setter=False, _seen=None):
        tab = self.setters if setter else self.methods
        if name in tab:
            return tab[name]
        if name in self.aliases:
            _seen = _seen or set()
            if name in _seen:
                return None
            _seen.add(name)
            return self.own_method(self.aliases[name], setter=setter,
                                   _seen=_seen)
        if not setter and name in self.generated:
            return self.generated[name][0]
        return None

    def find_attr(self, name):
        """(class, node) of the first class-level assignment of `name`."""
        for c in self.mro_classes():
            if name in c.attrs:
                return c, c.attrs[name]
        return None

    def is_subclass_of(self, other):
        return other in self.mro

    def defines(self, name):
        return (name in self.methods or name in self.setters or
                name in self.attrs or name in self.aliases or
                name in self.generated or name in self.nested)


# --------------------------------------------------------------------------

BUILTIN_CLASS_NAMES = {
    "object", "list", "dict", "set", "frozenset", "bytes", "bytearray", "str",
    "int", "float", "bool", "tuple", "Exception", "BaseException", "type",
}


class Repo:
    def __init__(self, root):
        self.root = os.path.abspath(root)
        self.modules = {}
        self.classes = {}      # qualname -> ClassInfo
        self.functions = {}    # qualname -> FuncInfo
        self.files = []
        self._load()
        self._index()
        self._link_classes()
        self._scan_module_level()

    # ---------------------------------------------------------------- load
    def _load(self):
        pkg = os.path.join(self.root, "gfapy")
        if not os.path.isdir(pkg):
            raise AnalysisError("no gfapy package under %s" % self.root)
        for dirpath, dirnames, filenames in os.walk(pkg):
            dirnames.sort()
            for fn in sorted(filenames):
                if not fn.endswith(".py"):
                    continue
                path = os.path.join(dirpath, fn)
                rel = os.path.relpath(path, self.root)[:-3]
                parts = rel.split(os.sep)
                is_pkg = parts[-1] == "__init__"
                if is_pkg:
                    parts = parts[:-1]
                self._parse(".".join(parts), path, is_pkg)
        bindir = os.path.join(self.root, "bin")
        if os.path.isdir(bindir):
            for fn in sorted(os.listdir(bindir)):
                path = os.path.join(bindir, fn)
                if os.path.isfile(path):
                    try:
                        with open(path, encoding="utf8") as f:
                            head = f.readline()
                    except Exception:
                        continue
                    if "python" in head or fn.endswith(".py"):
                        self._parse("bin." + fn, path, False)

    def _parse(self, name, path, is_pkg):
        with open(path, encoding="utf8") as f:
            src = f.read()
        try:
            tree = ast.parse(src, filename=path)
        except SyntaxError as e:
            raise AnalysisError("cannot parse %s: %s" % (path, e))
        tree = _Normalise().visit(tree)
        ast.fix_missing_locations(tree)
        set_parents(tree)
        m = Module(name, path, tree, src, is_pkg)
        for n in ast.walk(tree):
            n._module = m
        self.modules[name] = m
        self.files.append(path)

    # --------------------------------------------------------------- index
    def _index(self):
        for m in self.modules.values():
            self._index_body(m, m.tree.body)

    def _bind(self, m, name, b):
        m.bindings.setdefault(name, []).append(b)

    def _index_body(self, m, body):
        for st in body:
            if isinstance(st, ast.ClassDef):
                c = self._index_class(m, st, None)
                m.classes[st.name] = c
                self._bind(m, st.name, ("class", c))
            elif isinstance(st, (ast.FunctionDef, ast.AsyncFunctionDef)):
                f = self._index_func(m, st, None, None)
                m.functions[st.name] = f
                self._bind(m, st.name, ("func", f))
            elif isinstance(st, ast.Import):
                for a in st.names:
                    if a.asname:
                        self._bind(m, a.asname, ("module", a.name))
                    else:
                        self._bind(m, a.name.split(".")[0],
                                   ("module", a.name.split(".")[0]))
            elif isinstance(st, ast.ImportFrom):
                src = self._from_module(m, st)
                for a in st.names:
                    if a.name == "*":
                        m.star.append(src)
                    else:
                        self._bind(m, a.asname or a.name, ("from", src, a.name))
            elif isinstance(st, ast.Assign):
                for t in st.targets:
                    if isinstance(t, ast.Name):
                        self._bind(m, t.id, ("assign", st.value))
            elif isinstance(st, ast.AnnAssign):
                if isinstance(st.target, ast.Name) and st.value is not None:
                    self._bind(m, st.target.id, ("assign", st.value))
            elif isinstance(st, ast.Try):
                self._index_body(m, st.body)
                # handlers are compatibility fallbacks: the body wins
                for h in st.handlers:
                    for s2 in h.body:
                        if isinstance(s2, (ast.FunctionDef,)) and \
                                s2.name not in m.bindings:
                            self._index_body(m, [s2])
            elif isinstance(st, ast.If):
                self._index_body(m, st.body)
                self._index_body(m, st.orelse)

    def _from_module(self, m, st):
        if st.level == 0:
            return st.module
        parts = m.name.split(".")
        if not m.is_pkg:
            parts = parts[:-1]
        if st.level > 1:
            parts = parts[:-(st.level - 1)]
        base = ".".join(parts)
        if st.module:
            return base + "." + st.module if base else st.module
        return base

    def _index_class(self, m, node, outer):
        c = ClassInfo(node.name, node, m, outer)
        self.classes[c.qualname] = c
        node._classinfo = c
        for st in node.body:
            if isinstance(st, (ast.FunctionDef, ast.AsyncFunctionDef)):
                kind = "method"
                for d in st.decorator_list:
                    dn = dotted(d)
                    if dn == "property":
                        kind = "property"
                    elif dn == "staticmethod":
                        kind = "staticmethod"
                    elif dn == "classmethod":
                        kind = "classmethod"
                    elif dn and dn.endswith(".setter"):
                        kind = "setter"
                    elif dn and dn.endswith(".getter"):
                        kind = "property"
                f = self._index_func(m, st, c, None, kind)
                if kind == "setter":
                    c.setters[st.name] = f
                else:
                    c.methods[st.name] = f
            elif isinstance(st, ast.ClassDef):
                c.nested[st.name] = self._index_class(m, st, c)
            elif isinstance(st, ast.Assign):
                for t in st.targets:
                    if isinstance(t, ast.Name):
                        if isinstance(st.value, ast.Name) and (
                                st.value.id in c.methods or
                                st.value.id in c.aliases):
                            c.aliases[t.id] = st.value.id
                        else:
                            c.attrs[t.id] = st.value
            elif isinstance(st, ast.AnnAssign):
                if isinstance(st.target, ast.Name) and st.value is not None:
                    c.attrs[st.target.id] = st.value
        return c

    def _index_func(self, m, node, cls, parent, kind=None):
        if kind is None:
            kind = "function"
        f = FuncInfo(node.name, node, m, cls if parent is None else None,
                     kind if parent is None else "function", parent)
        if parent is not None:
            f.owner_cls = parent.owner_cls
        else:
            f.owner_cls = cls
        node._funcinfo = f
        self.functions[f.qualname] = f
        for n in walk_no_nested(node):
            if isinstance(n, (ast.FunctionDef, ast.AsyncFunctionDef)):
                g = self._index_func(m, n, None, f)
                f.nested[n.name] = g
        return f

    # -------------------------------------------------------------- lookup
    def module_attr(self, modname, name, _seen=None):
        """Entity bound to `name` in module `modname` (following imports)."""
        _seen = _seen if _seen is not None else set()
        key = (modname, name)
        if key in _seen:
            return None
        _seen.add(key)
        m = self.modules.get(modname)
        if m is None:
            root = modname.split(".")[0]
            if root in self.modules:
                return None
            return External(modname + "." + name)
        if name in m.bindings:
            b = m.bindings[name][-1]
            ent = self._entity_of_binding(m, b, _seen)
            if ent is not None:
                return ent
        for src in m.star:
            ent = self.module_attr(src, name, _seen)
            if ent is not None and not (isinstance(ent, External) and
                                        src.split(".")[0] in self.modules):
                return ent
        sub = modname + "." + name
        if sub in self.modules:
            return self.modules[sub]
        return None

    def _entity_of_binding(self, m, b, _seen):
        k = b[0]
        if k == "class" or k == "func":
            return b[1]
        if k == "module":
            if b[1] in self.modules:
                return self.modules[b[1]]
            return External(b[1])
        if k == "from":
            src, name = b[1], b[2]
            if src.split(".")[0] not in self.modules:
                return External(src + "." + name)
            ent = self.module_attr(src, name, _seen)
            return ent
        if k == "assign":
            node = b[1]
            if isinstance(node, (ast.Name, ast.Attribute)):
                ent = self.resolve_expr(m, node, _seen=_seen)
                if ent is not None and not isinstance(ent, Const):
                    return ent
            return Const(m, node)
        return None

    def resolve_expr(self, m, node, _seen=None):
        """Entity denoted by a Name/Attribute chain evaluated at module level
        of module `m` (no local scope)."""
        if isinstance(node, ast.Name):
            ent = self.module_attr(m.name, node.id, _seen)
            if ent is None and node.id in BUILTIN_CLASS_NAMES:
                return External("builtins." + node.id)
            return ent
        if isinstance(node, ast.Attribute):
            base = self.resolve_expr(m, node.value, _seen)
            return self.attr_of(base, node.attr)
        return None

    def attr_of(self, base, attr):
        if base is None:
            return None
        if isinstance(base, Module):
            return self.module_attr(base.name, attr)
        if isinstance(base, External):
            return External(base.name + "." + attr)
        if isinstance(base, ClassInfo):
            if attr in base.nested:
                return base.nested[attr]
            f = base.find_method(attr) if base.mro else base.own_method(attr)
            if f is not None:
                return f
            for c in (base.mro_classes() if base.mro else [base]):
                if attr in c.nested:
                    return c.nested[attr]
                if attr in c.attrs:
                    return Const(c.module, c.attrs[attr], cls=c)
            return None
        return None

    def gfapy(self, path):
        """Entity for 'gfapy.<path>' resolved through gfapy/__init__.py."""
        ent = self.modules.get("gfapy")
        for part in path.split("."):
            ent = self.attr_of(ent, part)
            if ent is None:
                return None
        return ent

    def cls(self, path):
        ent = self.gfapy(path) if not path.startswith("gfapy.") else \
            self.gfapy(path[6:])
        if not isinstance(ent, ClassInfo):
            raise AnalysisError("anchor vanished: class gfapy.%s" %
                                path.replace("gfapy.", ""))
        return ent

    def func(self, qualname):
        """FuncInfo by qualified name, e.g.
        'gfapy.line.common.connection.Connection.connect'."""
        f = self.functions.get(qualname)
        if f is None:
            raise AnalysisError("anchor vanished: function %s" % qualname)
        return f

    def method(self, clspath, name, setter=False):
        c = self.cls(clspath)
        f = c.find_method(name, setter=setter)
        if f is None:
            raise AnalysisError("anchor vanished: method %s.%s" %
                                (c.qualname, name))
        return f

    # ----------------------------------------------------------- class links
    def _link_classes(self):
        for c in list(self.classes.values()):
            c.bases = []
            for b in c.node.bases:
                ent = self.resolve_expr(c.module, b)
                if isinstance(ent, ClassInfo):
                    c.bases.append(ent)
                elif isinstance(ent, External):
                    c.bases.append(ent.name.split(".")[-1])
                else:
                    d = dotted(b)
                    if d in BUILTIN_CLASS_NAMES:
                        c.bases.append(d)
                    else:
                        raise AnalysisError(
                            "cannot resolve base %s of class %s" %
                            (unparse(b), c.qualname))
        for c in self.classes.values():
            self._mro(c, ())
        for c in self.classes.values():
            for b in c.bases:
                if isinstance(b, ClassInfo):
                    b.subclasses.append(c)

    def _mro(self, c, stack):
        if c.mro is not None:
            return c.mro
        if c in stack:
            raise AnalysisError("inheritance cycle at %s" % c.qualname)
        seqs = []
        for b in c.bases:
            if isinstance(b, ClassInfo):
                seqs.append(list(self._mro(b, stack + (c,))))
            else:
                seqs.append([b] if b == "object" else [b, "object"])
        seqs.append(list(c.bases))
        res = [c]
        seqs = [s for s in seqs if s]
        while seqs:
            for s in seqs:
                cand = s[0]
                if not any(cand in t[1:] for t in seqs):
                    break
            else:
                raise AnalysisError("C3 conflict in MRO of %s" % c.qualname)
            res.append(cand)
            seqs = [[x for x in s if x != cand] for s in seqs]
            seqs = [s for s in seqs if s]
        if "object" not in res:
            res.append("object")
        c.mro = res
        return res

    def leaves_using(self, cls):
        """Concrete (leaf) classes whose MRO contains `cls` (cls itself if
        nothing subclasses it)."""
        out = [k for k in self.classes.values()
               if not k.subclasses and cls in k.mro]
        return sorted(out, key=lambda k: k.qualname)

    # ------------------------------------------------- module-level statements
    def _scan_module_level(self):
        for m in self.modules.values():
            for st in m.tree.body:
                if isinstance(st, ast.Expr) and isinstance(st.value, ast.Call):
                    call = st.value
                    if isinstance(call.func, ast.Attribute) and \
                            call.func.attr == "_apply_definitions":
                        ent = self.resolve_expr(m, call.func.value)
                        if isinstance(ent, ClassInfo):
                            ent.applies_definitions = True
                elif isinstance(st, ast.For):
                    self._setattr_loop(m, st)

    def _setattr_loop(self, m, st):
        """for v in [consts]: setattr(Class, <str expr>, partialmethod(Class.meth, kw=v))"""
        if not isinstance(st.target, ast.Name):
            return
        try:
            values = const_eval(st.iter, {})
        except AnalysisError:
            return
        for v in values:
            env = {st.target.id: v}
            for s in st.body:
                if not (isinstance(s, ast.Expr) and isinstance(s.value, ast.Call)
                        and dotted(s.value.func) == "setattr"
                        and len(s.value.args) == 3):
                    continue
                tgt = self.resolve_expr(m, s.value.args[0])
                if not isinstance(tgt, ClassInfo):
                    continue
                name = const_eval(s.value.args[1], env)
                val = s.value.args[2]
                if isinstance(val, ast.Call) and \
                        dotted(val.func) in ("partialmethod", "partial") \
                        and val.args:
                    f = self.resolve_expr(m, val.args[0])
                    if isinstance(f, FuncInfo):
                        kws = {k.arg: const_eval(k.value, env)
                               for k in val.keywords}
                        tgt.generated[name] = (f, kws)

    # ------------------------------------------------------------ statistics
    def stats(self):
        return {
            "files_parsed": len(self.files),
            "modules": len(self.modules),
            "classes": len(self.classes),
            "functions": len(self.functions),
        }


# --------------------------------------------------------------------------
# constant folding (fail closed)

_UNSET = object()


def const_eval(node, env, lookup=None):
    """Evaluate a constant expression.  `env` maps names to values; `lookup`
    (optional) is called for unknown names/attribute chains and must return a
    value or raise AnalysisError."""
    if isinstance(node, ast.Constant):
        return node.value
    if isinstance(node, (ast.List, ast.Tuple, ast.Set)):
        vals = [const_eval(e, env, lookup) for e in node.elts]
        if isinstance(node, ast.Tuple):
            return tuple(vals)
        if isinstance(node, ast.Set):
            return set(vals)
        return vals
    if isinstance(node, ast.Dict):
        out = {}
        for k, v in zip(node.keys, node.values):
            if k is None:
                out.update(const_eval(v, env, lookup))
            else:
                out[const_eval(k, env, lookup)] = const_eval(v, env, lookup)
        return out
    if isinstance(node, ast.Name):
        if node.id in env:
            return env[node.id]
        if node.id in ("True", "False", "None"):
            return {"True": True, "False": False, "None": None}[node.id]
        if lookup is not None:
            return lookup(node)
        raise AnalysisError("constant folder: unknown name %s" % node.id)
    if isinstance(node, ast.Attribute):
        if lookup is not None:
            return lookup(node)
        raise AnalysisError("constant folder: attribute %s" % unparse(node))
    if isinstance(node, ast.UnaryOp):
        v = const_eval(node.operand, env, lookup)
        if isinstance(node.op, ast.USub):
            return -v
        if isinstance(node.op, ast.UAdd):
            return +v
        if isinstance(node.op, ast.Not):
            return not v
    if isinstance(node, ast.BinOp):
        a = const_eval(node.left, env, lookup)
        b = const_eval(node.right, env, lookup)
        if isinstance(node.op, ast.Add):
            return a + b
        if isinstance(node.op, ast.Sub):
            return a - b
        if isinstance(node.op, ast.Mult):
            return a * b
        if isinstance(node.op, ast.Pow):
            if isinstance(b, int) and abs(b) > 4096:
                raise AnalysisError("constant folder: exponent too large")
            return a ** b
        if isinstance(node.op, ast.FloorDiv):
            return a // b
        if isinstance(node.op, ast.Mod) and isinstance(a, str):
            return a % b
        if isinstance(node.op, ast.BitOr) and isinstance(a, (dict, set)) \
                and type(a) is type(b):
            return a | b
        if isinstance(node.op, ast.BitAnd) and isinstance(a, set) and \
                isinstance(b, set):
            return a & b
    if isinstance(node, ast.ListComp) and len(node.generators) == 1:
        g = node.generators[0]
        if isinstance(g.target, ast.Name) and not g.is_async:
            out = []
            for v in const_eval(g.iter, env, lookup):
                e2 = dict(env)
                e2[g.target.id] = v
                if all(const_eval(c, e2, lookup) for c in g.ifs):
                    out.append(const_eval(node.elt, e2, lookup))
            return out
    if isinstance(node, ast.Call):
        f = node.func
        if isinstance(f, ast.Attribute) and not node.keywords:
            if f.attr in ("upper", "lower") and not node.args:
                return getattr(const_eval(f.value, env, lookup), f.attr)()
            if f.attr == "format":
                s = const_eval(f.value, env, lookup)
                if isinstance(s, str):
                    return s.format(*[const_eval(a, env, lookup)
                                      for a in node.args])
            if f.attr == "keys" and not node.args:
                return list(const_eval(f.value, env, lookup).keys())
        if isinstance(f, ast.Name) and not node.keywords:
            if f.id in ("list", "tuple", "set", "sorted", "len", "str") and \
                    len(node.args) == 1:
                v = const_eval(node.args[0], env, lookup)
                return {"list": list, "tuple": tuple, "set": set,
                        "sorted": sorted, "len": len, "str": str}[f.id](v)
            if f.id == "range":
                return list(range(*[const_eval(a, env, lookup)
                                    for a in node.args]))
    if isinstance(node, ast.Compare) and len(node.ops) == 1:
        a = const_eval(node.left, env, lookup)
        b = const_eval(node.comparators[0], env, lookup)
        op = node.ops[0]
        if isinstance(op, ast.Eq):
            return a == b
        if isinstance(op, ast.NotEq):
            return a != b
        if isinstance(op, ast.In):
            return a in b
        if isinstance(op, ast.NotIn):
            return a not in b
    if isinstance(node, ast.JoinedStr):
        out = ""
        for v in node.values:
            if isinstance(v, ast.Constant):
                out += v.value
            else:
                out += str(const_eval(v.value, env, lookup))
        return out
    if isinstance(node, ast.Call) and dotted(node.func) == "re.compile" and \
            len(node.args) == 1 and not node.keywords:
        # a precompiled pattern kept as a module / class constant
        import re as _re
        pat = const_eval(node.args[0], env, lookup)
        if isinstance(pat, str):
            return _re.compile(pat)
    raise AnalysisError("constant folder: unsupported %s" % unparse(node)[:80])


# --------------------------------------------------------------------------
# record tables

RECORD_CONSTANTS = ["RECORD_TYPE", "POSFIELDS", "PREDEFINED_TAGS", "DATATYPE",
                    "NAME_FIELD", "STORAGE_KEY", "FIELD_ALIAS",
                    "REFERENCE_FIELDS", "BACKREFERENCE_RELATED_FIELDS",
                    "DEPENDENT_LINES", "OTHER_REFERENCES",
                    "REFERENCE_INITIALIZERS", "VERSION"]


class RecordTable:
    """Record definition constants of one line class, after the post-processing
    Construction._apply_definitions performs at import time."""

    def __init__(self, repo, cls):
        self.cls = cls
        raw = {}
        for k in RECORD_CONSTANTS:
            hit = cls.find_attr(k)
            if hit is None:
                raw[k] = None
                continue
            owner, node = hit
            raw[k] = class_const(repo, owner, node)
        self.raw = raw
        self.RECORD_TYPE = raw["RECORD_TYPE"]
        self.POSFIELDS = list(raw["POSFIELDS"] or [])
        self.DATATYPE = dict(raw["DATATYPE"] or {})
        self.NAME_FIELD = raw["NAME_FIELD"]
        self.STORAGE_KEY = raw["STORAGE_KEY"]
        self.FIELD_ALIAS = dict(raw["FIELD_ALIAS"] or {})
        self.REFERENCE_FIELDS = list(raw["REFERENCE_FIELDS"] or [])
        self.BACKREFERENCE_RELATED_FIELDS = list(
            raw["BACKREFERENCE_RELATED_FIELDS"] or [])
        self.DEPENDENT_LINES = list(raw["DEPENDENT_LINES"] or [])
        self.OTHER_REFERENCES = list(raw["OTHER_REFERENCES"] or [])
        self.VERSION = raw["VERSION"]
        pt = list(raw["PREDEFINED_TAGS"] or [])
        if not pt:
            pt = sorted(set(self.DATATYPE.keys()) - set(self.POSFIELDS))
        self.PREDEFINED_TAGS = pt
        # _define_field_aliases
        if self.STORAGE_KEY is None and self.NAME_FIELD is not None:
            self.STORAGE_KEY = "name"
        if self.NAME_FIELD is not None and "name" not in self.POSFIELDS:
            self.FIELD_ALIAS["name"] = self.NAME_FIELD
        # _define_field_accessors
        fn = self.POSFIELDS + self.PREDEFINED_TAGS
        if self.NAME_FIELD and self.NAME_FIELD not in fn:
            fn = fn + [self.NAME_FIELD]
        self.field_accessors = fn
        self.refkeys = self.DEPENDENT_LINES + self.OTHER_REFERENCES

    def accessor_names(self):
        """All attribute names generated on the class."""
        out = set()
        for f in self.field_accessors:
            out.add(f)
            out.add("try_get_" + f)
        for a in self.FIELD_ALIAS:
            out.add(a)
            out.add("try_get_" + a)
        for k in self.refkeys:
            out.add(k)
        return out


def class_const(repo, owner, node):
    """Evaluate a class-level constant of class `owner`."""
    def lookup(n):
        if isinstance(n, ast.Name):
            # a name bound earlier in the class body
            if n.id in owner.attrs:
                return class_const(repo, owner, owner.attrs[n.id])
            ent = repo.resolve_expr(owner.module, n)
        else:
            ent = repo.resolve_expr(owner.module, n)
        if isinstance(ent, Const):
            if ent.cls is not None:
                return class_const(repo, ent.cls, ent.node)
            return module_const(repo, ent.module, ent.node)
        raise AnalysisError("constant folder: %s in class %s is not constant" %
                            (unparse(n), owner.qualname))
    return const_eval(node, {}, lookup)


def module_const(repo, module, node):
    def lookup(n):
        ent = repo.resolve_expr(module, n)
        if isinstance(ent, Const):
            if ent.cls is not None:
                return class_const(repo, ent.cls, ent.node)
            return module_const(repo, ent.module, ent.node)
        raise AnalysisError("constant folder: %s in module %s is not constant" %
                            (unparse(n), module.name))
    return const_eval(node, {}, lookup)


def record_classes(repo):
    """Line classes on which _apply_definitions() is called at import."""
    line = repo.cls("Line")
    out = [c for c in repo.classes.values()
           if c.applies_definitions and line in c.mro]
    return sorted(out, key=lambda c: c.qualname)


_table_cache = {}


def record_table(repo, cls):
    key = (id(repo), cls.qualname)
    if key not in _table_cache:
        _table_cache[key] = RecordTable(repo, cls)
    return _table_cache[key]
