"""TABLE: decision-table extraction by abstract evaluation over a finite domain.

A function body built from if/elif/else, return, raise, local assignments,
conditional expressions, boolean operators, comparisons and calls of other
functions of the repository (inlined) is evaluated on every point of a finite
abstract domain.  Objects of repository classes are represented by `Abs`
values carrying the attributes the rule declares; attribute reads that hit a
property of the class are evaluated by inlining the getter.  Anything outside
this fragment raises AnalysisError (exit 2, never a pass).

The analysed code is not executed: the evaluator walks its syntax tree.
"""
import ast
import re as _re
import itertools

from .model import (walk_no_nested, AnalysisError, ClassInfo, FuncInfo, Const, External, Module,
                    unparse, dotted)


class Raised(Exception):
    def __init__(self, cls):
        self.cls = cls


class _Return(Exception):
    def __init__(self, value):
        self.value = value


class Unsupported(AnalysisError):
    pass


class Abs:
    """Abstract object of a repository class."""
    _n = 0

    def __init__(self, cls=None, label=None, **attrs):
        self.cls = cls
        self.attrs = dict(attrs)
        Abs._n += 1
        self.label = label or "%s#%d" % (cls.name if cls else "obj", Abs._n)

    def __repr__(self):
        return "<%s>" % self.label

    def __hash__(self):
        # a rule marks an abstract object whose class has no usable __hash__
        # (it returns NotImplemented / None): hashing it is a TypeError
        if self.attrs.get("__unhashable__"):
            raise Raised("builtins.TypeError")
        return id(self) >> 4

    def __eq__(self, other):
        return self is other

    def isa(self, other):
        if self.cls is None:
            return False
        if isinstance(other, ClassInfo):
            return other in self.cls.mro
        if isinstance(other, str):
            return other in self.cls.mro
        return False


def stdlib_class(name):
    """the class a dotted name denotes in the standard library, or None"""
    import importlib
    import sys
    mod, _, attr = name.rpartition(".")
    if not mod or mod.split(".")[0] not in sys.stdlib_module_names:
        return None
    try:
        obj = getattr(importlib.import_module(mod), attr)
    except Exception:
        return None
    return obj if isinstance(obj, type) else None


BUILTIN_TYPES = {"str": str, "int": int, "float": float, "list": list,
                 "dict": dict, "tuple": tuple, "bool": bool, "set": set}


def _next(it, *default):
    if hasattr(it, "__next__"):
        return next(it, *default)
    return next(iter(it), *default)


# builtins applied to concrete (non-abstract) values exactly as Python does
PURE_BUILTINS = {
    "abs": abs, "all": all, "any": any, "bool": bool, "divmod": divmod,
    "enumerate": enumerate, "filter": filter, "frozenset": frozenset,
    "iter": iter, "map": map, "max": max, "min": min, "next": _next,
    "ord": ord, "chr": chr, "range": range, "reversed": reversed,
    "round": round, "sorted": sorted, "sum": sum, "zip": zip,
    "callable": callable,
}


class Evaluator:
    def __init__(self, repo=None, module=None, env=None, atoms=None,
                 hooks=None, depth=0, shared=None):
        self.repo = repo
        self.module = module
        self.env = dict(env or {})
        self.atoms = atoms or {}
        self.hooks = hooks
        self.depth = depth
        self.shared = shared if shared is not None else {"steps": 0,
                                                        "events": []}
        self.func = None
        self.self_name = None

    @property
    def events(self):
        return self.shared["events"]

    def tick(self):
        self.shared["steps"] += 1
        if self.shared["steps"] > 200000:
            raise Unsupported("table evaluator: step limit")

    # ---- name resolution
    def resolve(self, node):
        """Repository entity denoted by a Name/Attribute chain, or None."""
        if self.repo is None or self.module is None:
            return None
        if isinstance(node, ast.Name) and node.id in self.env:
            return None
        d = dotted(node)
        if d is None:
            return None
        root = d.split(".")[0]
        if root in self.env:
            return None
        return self.repo.resolve_expr(self.module, node)

    # ---- expressions
    def ev(self, node):
        self.tick()
        key = None
        if self.atoms:
            key = unparse(node)
            if key in self.atoms:
                return self.atoms[key]
        if isinstance(node, ast.Constant):
            return node.value
        if isinstance(node, ast.Name):
            if node.id in self.env:
                return self.env[node.id]
            if node.id in ("True", "False", "None"):
                return {"True": True, "False": False, "None": None}[node.id]
            if node.id == "NotImplemented":
                return NotImplemented
            ent = self.resolve(node)
            if isinstance(ent, (ClassInfo, FuncInfo, External, Module)):
                return ent
            if isinstance(ent, Const):
                return self.const(ent)
            if node.id in BUILTIN_TYPES or node.id in (
                    "len", "repr", "sorted", "min", "max", "sum", "abs",
                    "any", "all", "id", "bool", "frozenset", "bytes"):
                return External("builtins." + node.id)
            raise Unsupported("table evaluator: free name %s" % node.id)
        if isinstance(node, (ast.Tuple, ast.List)):
            items = []
            for e in node.elts:
                if isinstance(e, ast.Starred):
                    v = self.ev(e.value)
                    if isinstance(v, Abs):
                        raise Unsupported("table evaluator: *%s" %
                                          unparse(e.value))
                    items.extend(list(v))
                else:
                    items.append(self.ev(e))
            return tuple(items) if isinstance(node, ast.Tuple) else items
        if isinstance(node, ast.Dict):
            out = {}
            for k, v in zip(node.keys, node.values):
                if k is None:
                    out.update(self.ev(v))
                else:
                    out[self.ev(k)] = self.ev(v)
            return out
        if isinstance(node, ast.BoolOp):
            if isinstance(node.op, ast.And):
                v = True
                for e in node.values:
                    v = self.ev(e)
                    if not self.truth(v):
                        return v
                return v
            v = False
            for e in node.values:
                v = self.ev(e)
                if self.truth(v):
                    return v
            return v
        if isinstance(node, ast.UnaryOp) and isinstance(node.op, ast.Not):
            return not self.truth(self.ev(node.operand))
        if isinstance(node, ast.UnaryOp) and isinstance(node.op, ast.USub):
            return -self.ev(node.operand)
        if isinstance(node, ast.IfExp):
            return self.ev(node.body) if self.truth(self.ev(node.test)) else \
                self.ev(node.orelse)
        if isinstance(node, ast.Compare):
            return self.compare(node)
        if isinstance(node, ast.Subscript):
            v = self.ev(node.value)
            if isinstance(node.slice, ast.Slice):
                sl = node.slice
                i = slice(self.ev(sl.lower) if sl.lower else None,
                          self.ev(sl.upper) if sl.upper else None,
                          self.ev(sl.step) if sl.step else None)
            else:
                i = self.ev(node.slice)
            if isinstance(v, Abs):
                raise Unsupported("table evaluator: subscript of %r" % v)
            try:
                return v[i]
            except (KeyError, IndexError) as e:
                # what Python raises for a missing key / index
                raise Raised("builtins." + type(e).__name__)
            except Exception:
                raise Unsupported("table evaluator: subscript %s" %
                                  unparse(node))
        if isinstance(node, ast.BinOp):
            a, b = self.ev(node.left), self.ev(node.right)
            if isinstance(a, Abs) or isinstance(b, Abs):
                dunder = {ast.Add: "__add__", ast.Sub: "__sub__"}.get(
                    type(node.op))
                if dunder and isinstance(a, Abs) and a.cls is not None and \
                        hasattr(a.cls, "find_method"):
                    m = a.cls.find_method(dunder)
                    if m is not None:
                        return self.inline(m, [a, b], {})
                raise Unsupported("table evaluator: arithmetic on abstract "
                                  "object in %s" % unparse(node))
            try:
                if isinstance(node.op, ast.Add):
                    return a + b
                if isinstance(node.op, ast.Sub):
                    return a - b
                if isinstance(node.op, ast.Mult):
                    return a * b
                if isinstance(node.op, ast.FloorDiv):
                    return a // b
                if isinstance(node.op, ast.Mod):
                    return a % b        # also printf-style formatting
                if isinstance(node.op, ast.BitOr) and \
                        isinstance(a, (dict, set, frozenset)):
                    return a | b
                if isinstance(node.op, ast.BitAnd) and \
                        isinstance(a, (set, frozenset)):
                    return a & b
                if isinstance(node.op, ast.Div):
                    return a / b
                if isinstance(node.op, ast.Pow):
                    return a ** b
            except Exception:
                pass
            raise Unsupported("table evaluator: %s" % unparse(node))
        if isinstance(node, ast.Attribute):
            return self.attribute(node)
        if isinstance(node, ast.Call):
            return self.call(node)
        if isinstance(node, ast.JoinedStr):
            parts = []
            for v in node.values:
                if isinstance(v, ast.Constant):
                    parts.append(str(v.value))
                elif isinstance(v, ast.FormattedValue) and \
                        v.format_spec is None:
                    x = self.ev(v.value)
                    if isinstance(x, Abs):
                        return "<fstring>"
                    parts.append(str(x) if v.conversion != 114 else repr(x))
                else:
                    return "<fstring>"
            return "".join(parts)
        if isinstance(node, (ast.ListComp, ast.GeneratorExp, ast.SetComp)):
            out = []
            self.comp(node.generators, 0, node.elt, out)
            return set(out) if isinstance(node, ast.SetComp) else out
        if isinstance(node, ast.DictComp):
            out = []
            self.comp(node.generators, 0, (node.key, node.value), out)
            return dict(out)
        if isinstance(node, ast.Set):
            return set(self.ev(e) for e in node.elts)
        if isinstance(node, ast.Lambda):
            return Closure(node, self)
        if isinstance(node, ast.NamedExpr):
            v = self.ev(node.value)
            self.bind(node.target, v)
            return v
        if isinstance(node, ast.Starred):
            return self.ev(node.value)
        raise Unsupported("table evaluator: expression %s" %
                          unparse(node)[:80])

    def match_pattern(self, pat, subject):
        """structural pattern matching on concrete subjects (value, or,
        wildcard / capture, singleton, sequence and class-free patterns)"""
        if isinstance(pat, ast.MatchValue):
            v = self.ev(pat.value)
            r = None
            if self.hooks is not None:
                r = self.hooks.eq(self, subject, v)
                if r is NotImplemented:
                    r = None
            if r is None:
                r = self.class_eq(subject, v)
                if r is NotImplemented:
                    r = subject is v if isinstance(subject, Abs) or \
                        isinstance(v, Abs) else subject == v
            return bool(r)
        if isinstance(pat, ast.MatchSingleton):
            return subject is pat.value
        if isinstance(pat, ast.MatchOr):
            return any(self.match_pattern(p, subject) for p in pat.patterns)
        if isinstance(pat, ast.MatchAs):
            if pat.pattern is not None and \
                    not self.match_pattern(pat.pattern, subject):
                return False
            if pat.name is not None:
                self.env[pat.name] = subject
            return True
        if isinstance(pat, ast.MatchSequence) and \
                isinstance(subject, (list, tuple)):
            pats = pat.patterns
            star = [i for i, p in enumerate(pats)
                    if isinstance(p, ast.MatchStar)]
            if not star:
                return len(pats) == len(subject) and all(
                    self.match_pattern(p, x) for p, x in zip(pats, subject))
            k = star[0]
            after = len(pats) - k - 1
            if len(subject) < len(pats) - 1:
                return False
            if pats[k].name:
                self.env[pats[k].name] = list(
                    subject[k:len(subject) - after])
            return all(self.match_pattern(p, x) for p, x in
                       zip(pats[:k], subject[:k])) and all(
                self.match_pattern(p, x) for p, x in
                zip(pats[k + 1:], subject[len(subject) - after:]))
        if isinstance(pat, ast.MatchClass):
            if not self.isinstance(subject, pat.cls):
                return False
            if pat.patterns:
                raise Unsupported("table evaluator: positional class "
                                  "pattern")
            for attr, sub in zip(pat.kwd_attrs, pat.kwd_patterns):
                try:
                    v = self.getattr(subject, attr)
                except Unsupported:
                    return False
                if not self.match_pattern(sub, v):
                    return False
            return True
        raise Unsupported("table evaluator: match pattern %s" %
                          type(pat).__name__)

    def bind(self, target, value):
        """assignment to a name or to a (nested, possibly starred) tuple"""
        if isinstance(target, ast.Name):
            self.env[target.id] = value
            return
        if isinstance(target, (ast.Tuple, ast.List)):
            if isinstance(value, Abs):
                raise Unsupported("table evaluator: unpacking an abstract "
                                  "value")
            vals = list(value)
            elts = target.elts
            star = [i for i, e in enumerate(elts)
                    if isinstance(e, ast.Starred)]
            if star:
                k = star[0]
                after = len(elts) - k - 1
                self.bind(elts[k].value, vals[k:len(vals) - after])
                for e, x in zip(elts[:k], vals[:k]):
                    self.bind(e, x)
                for e, x in zip(elts[k + 1:], vals[len(vals) - after:]):
                    self.bind(e, x)
                return
            if len(vals) != len(elts):
                raise Raised("builtins.ValueError")
            for e, x in zip(elts, vals):
                self.bind(e, x)
            return
        raise Unsupported("table evaluator: store %s" % unparse(target))

    def comp(self, gens, i, elt, out):
        if i == len(gens):
            out.append(self.ev(elt) if not isinstance(elt, tuple) else
                       (self.ev(elt[0]), self.ev(elt[1])))
            return
        g = gens[i]
        it = self.iterable(self.ev(g.iter))
        saved = dict(self.env)
        for v in it:
            self.bind(g.target, v)
            if all(self.truth(self.ev(c)) for c in g.ifs):
                self.comp(gens, i + 1, elt, out)
        self.env = saved

    def iterable(self, it):
        if isinstance(it, Abs):
            if it.cls is not None and not isinstance(it.cls, str) and \
                    hasattr(it.cls, "find_method"):
                m = it.cls.find_method("__iter__")
                if m is not None:
                    r = self.inline(m, [it], {})
                    if not isinstance(r, Abs):
                        return r
            raise Unsupported("table evaluator: loop over abstract %r" % it)
        return it

    def truth(self, v):
        if isinstance(v, Abs):
            if v.attrs.get("__bool__") is not None:
                return v.attrs["__bool__"]
            return True
        return bool(v)

    def const(self, ent):
        from .model import class_const, module_const
        try:
            if ent.cls is not None:
                return class_const(self.repo, ent.cls, ent.node)
            return module_const(self.repo, ent.module, ent.node)
        except Unsupported:
            raise
        except AnalysisError:
            # e.g. a list of classes: evaluate in the defining module
            return Evaluator(self.repo, ent.module, None, None, self.hooks,
                             self.depth + 1, self.shared).ev(ent.node)

    def compare(self, node):
        left = self.ev(node.left)
        for op, c in zip(node.ops, node.comparators):
            right = self.ev(c)
            if isinstance(op, (ast.Eq, ast.NotEq)):
                if self.hooks is not None:
                    r = self.hooks.eq(self, left, right)
                else:
                    r = NotImplemented
                if r is NotImplemented:
                    r = self.class_eq(left, right)
                if r is NotImplemented:
                    if isinstance(left, Abs) or isinstance(right, Abs):
                        r = left is right
                    else:
                        r = left == right
                ok = r if isinstance(op, ast.Eq) else not r
            elif isinstance(op, (ast.In, ast.NotIn)):
                if isinstance(right, (set, frozenset, dict)):
                    hash(left)      # (an unhashable abstract object raises)
                ok = any(self._eq(left, x) for x in right)
                if isinstance(op, ast.NotIn):
                    ok = not ok
            elif isinstance(op, ast.Is):
                ok = left is right
            elif isinstance(op, ast.IsNot):
                ok = left is not right
            else:
                if isinstance(left, Abs) or isinstance(right, Abs):
                    r = NotImplemented
                    if self.hooks is not None:
                        r = self.hooks.order(self, op, left, right)
                    if r is NotImplemented:
                        raise Unsupported("table evaluator: ordering of "
                                          "abstract objects in %s" %
                                          unparse(node))
                    ok = r
                elif isinstance(op, ast.Gt):
                    ok = left > right
                elif isinstance(op, ast.Lt):
                    ok = left < right
                elif isinstance(op, ast.GtE):
                    ok = left >= right
                elif isinstance(op, ast.LtE):
                    ok = left <= right
                else:
                    raise Unsupported("table evaluator: comparison %s" %
                                      unparse(node))
            if not ok:
                return False
            left = right
        return True

    def class_eq(self, a, b):
        """__eq__ defined by the repository class of an abstract operand"""
        if self.depth > 20:
            return NotImplemented
        for x, y in ((a, b), (b, a)):
            if isinstance(x, Abs) and x.cls is not None:
                m = x.cls.find_method("__eq__")
                if m is not None:
                    r = self.inline(m, [x, y], {})
                    if r is NotImplemented or r is None:
                        continue
                    return bool(r) if not isinstance(r, Abs) else True
        return NotImplemented

    def _eq(self, a, b):
        if self.hooks is not None:
            r = self.hooks.eq(self, a, b)
            if r is not NotImplemented:
                return r
        r = self.class_eq(a, b)
        if r is not NotImplemented:
            return r
        if isinstance(a, Abs) or isinstance(b, Abs):
            return a is b
        return a == b

    def attribute(self, node):
        ent = self.resolve(node)
        if isinstance(ent, (ClassInfo, FuncInfo, External)):
            return ent
        if isinstance(ent, Const):
            if ent.cls is not None and self.hooks is not None:
                r = self.hooks.class_attr(self, ent.cls, node.attr)
                if r is not NotImplemented:
                    return r
            return self.const(ent)
        base = self.ev(node.value)
        return self.getattr(base, node.attr, node)

    def getattr_delegate(self, base):
        """the concrete value a class's `__getattr__` forwards to, when it has
        the form `return getattr(self.<x>, name)` and <x> is concrete"""
        ga = base.cls.find_method("__getattr__")
        if ga is None or len(ga.params) != 2:
            return NotImplemented
        body = [st for st in ga.node.body if not (
            isinstance(st, ast.Expr) and isinstance(st.value, ast.Constant))]
        if len(body) == 1 and isinstance(body[0], ast.Return) and \
                isinstance(body[0].value, ast.Call) and \
                isinstance(body[0].value.func, ast.Name) and \
                body[0].value.func.id == "getattr" and \
                len(body[0].value.args) == 2:
            tgt, nm = body[0].value.args
            if isinstance(tgt, ast.Attribute) and \
                    isinstance(tgt.value, ast.Name) and \
                    tgt.value.id == ga.params[0] and \
                    isinstance(nm, ast.Name) and nm.id == ga.params[1]:
                d = base.attrs.get(tgt.attr, NotImplemented)
                if d is not NotImplemented and not isinstance(d, Abs):
                    return d
        return NotImplemented

    def getattr(self, base, attr, node=None):
        if isinstance(base, Abs):
            if attr in base.attrs:
                return base.attrs[attr]
            if self.hooks is not None:
                r = self.hooks.getattr(self, base, attr)
                if r is not NotImplemented:
                    return r
            if base.cls is not None:
                if attr == "__class__":
                    return base.cls
                f = base.cls.find_method(attr)
                if f is not None and f.kind == "property":
                    return self.inline(f, [base], {})
                if f is not None:
                    return ("bound", f, base)
                hit = base.cls.find_attr(attr)
                if hit is not None:
                    from .model import class_const
                    return class_const(self.repo, hit[0], hit[1])
            if self.shared.get("attr_try", 0) > 0:
                # inside `try: ... except AttributeError`: the attribute is
                # absent from this abstract object and from its class
                raise Raised("builtins.AttributeError")
            raise Unsupported("table evaluator: attribute %s of %r is not "
                              "declared by the rule" % (attr, base))
        if isinstance(base, Module):
            ent = self.repo.module_attr(base.name, attr)
            if isinstance(ent, (ClassInfo, FuncInfo, External, Module)):
                return ent
            if isinstance(ent, Const):
                return self.const(ent)
        if not isinstance(base, Abs) and \
                type(base).__module__.startswith("gfaverif") and \
                isinstance(base, (list, dict, set)):
            # a concrete stand-in supplied by a rule (e.g. a list subclass
            # modelling an array): its own attributes, then the builtin's
            if attr in getattr(base, "__dict__", {}):
                return base.__dict__[attr]
            if hasattr(base, attr) and callable(getattr(base, attr)):
                return ("pybound", base, attr)
            raise Raised("builtins.AttributeError")
        if base is None or type(base) in (str, int, float, bool, list, dict,
                                          tuple, set, frozenset, bytes) or \
                isinstance(base, (_re.Match, _re.Pattern)):
            if hasattr(base, attr):
                v = getattr(base, attr)
                if callable(v):
                    return ("pybound", base, attr)
                return v
            raise Raised("builtins.AttributeError")
        if isinstance(base, ClassInfo):
            if self.hooks is not None:
                r = self.hooks.class_attr(self, base, attr)
                if r is not NotImplemented:
                    return r
            f = base.find_method(attr)
            if f is not None:
                return f
            hit = base.find_attr(attr)
            if hit is not None:
                from .model import class_const
                return class_const(self.repo, hit[0], hit[1])
            if attr in base.nested:
                return base.nested[attr]
        raise Unsupported("table evaluator: attribute %s of %r" %
                          (attr, base))

    def call(self, node):
        f = node.func
        # str.format on constants
        if isinstance(f, ast.Attribute) and f.attr == "format":
            try:
                s = self.ev(f.value)
            except Unsupported:
                s = None
            if isinstance(s, str):
                args = []
                for a in node.args:
                    try:
                        args.append(self.ev(a))
                    except Unsupported:
                        args.append("?")
                try:
                    return s.format(*args)
                except Exception:
                    return s
        if isinstance(f, ast.Name) and f.id not in self.env:
            if f.id == "isinstance" and len(node.args) == 2:
                return self.isinstance(self.ev(node.args[0]), node.args[1])
            if f.id in ("isinstance", "issubclass") and \
                    len(node.args) != 2 and not node.keywords and \
                    not any(isinstance(a, ast.Starred) for a in node.args):
                # wrong number of arguments: what Python does
                raise Raised("builtins.TypeError")
            if f.id in ("str", "repr") and len(node.args) == 1:
                v = self.ev(node.args[0])
                if isinstance(v, Abs):
                    if self.hooks is not None:
                        r = self.hooks.to_str(self, v)
                        if r is not NotImplemented:
                            return r
                    return "<str of %s>" % v.label
                return str(v)
            if f.id == "len" and len(node.args) == 1:
                v = self.ev(node.args[0])
                if not isinstance(v, Abs):
                    return len(v)
            if f.id in ("list", "tuple", "set", "dict") and \
                    not node.args and not node.keywords:
                return {"list": list, "tuple": tuple, "set": set,
                        "dict": dict}[f.id]()
            if f.id in ("list", "tuple", "set", "sorted") and \
                    len(node.args) == 1 and not node.keywords:
                v = self.ev(node.args[0])
                if not isinstance(v, Abs):
                    return {"list": list, "tuple": tuple, "set": set,
                            "sorted": sorted}[f.id](v)
            if f.id in ("reversed", "enumerate", "zip", "range", "any", "all",
                        "sum", "max", "min", "dict") and \
                    not node.keywords:
                vals = [self.ev(a) for a in node.args]
                if not any(isinstance(v, Abs) for v in vals):
                    try:
                        r = {"reversed": reversed, "enumerate": enumerate,
                             "zip": zip, "range": range, "any": any,
                             "all": all, "sum": sum, "max": max, "min": min,
                             "dict": dict}[f.id](*vals)
                    except (ValueError, TypeError) as e:
                        # e.g. min() of an empty sequence
                        raise Raised("builtins." + type(e).__name__)
                    if f.id in ("reversed", "enumerate", "zip", "range"):
                        return list(r)
                    return r
            if f.id == "dict" and node.keywords and \
                    all(k.arg is not None for k in node.keywords) and \
                    len(node.args) <= 1:
                # dict(a=1, b=2) / dict(mapping, a=1)
                out = {}
                if node.args:
                    m = self.ev(node.args[0])
                    if not isinstance(m, (dict, list, tuple)):
                        raise Unsupported("table evaluator: dict(%r)" % (m,))
                    out.update(dict(m))
                for k in node.keywords:
                    out[k.arg] = self.ev(k.value)
                return out
            if f.id in PURE_BUILTINS:
                vals = [self.ev(a) for a in node.args]
                kws = {k.arg: self.ev(k.value) for k in node.keywords
                       if k.arg is not None}
                if not any(isinstance(v, Abs) for v in vals) and \
                        all(k in ("default", "key", "reverse", "start")
                            for k in kws):
                    if "key" in kws and isinstance(kws["key"], Closure):
                        c = kws["key"]
                        kws["key"] = lambda x, c=c: c.call(self, [x], {})
                    if f.id in ("map", "filter") and vals and \
                            isinstance(vals[0], External) and \
                            vals[0].name.startswith("builtins."):
                        import builtins as _b
                        vals[0] = getattr(_b, vals[0].name.split(".")[1])
                    if f.id in ("map", "filter") and vals and \
                            isinstance(vals[0], Closure):
                        c = vals[0]
                        vals[0] = lambda *x, c=c: c.call(self, list(x), {})
                    elif f.id in ("map", "filter") and vals and \
                            not callable(vals[0]) and vals[0] is not None:
                        raise Unsupported("table evaluator: %s over a "
                                          "library function" % f.id)
                    try:
                        r = PURE_BUILTINS[f.id](*vals, **kws)
                    except StopIteration:
                        raise Raised("builtins.StopIteration")
                    except (TypeError, ValueError, IndexError, KeyError,
                            ZeroDivisionError) as e:
                        raise Raised("builtins." + type(e).__name__)
                    if f.id in ("reversed", "enumerate", "zip", "range",
                                "map", "filter"):
                        return list(r)
                    return r
            if f.id == "id" and len(node.args) == 1:
                return id(self.ev(node.args[0]))
            if f.id == "super" and not node.args:
                me = self.env.get(self.self_name) if self.self_name else None
                return ("super", self.func.owner_cls if self.func else None, me)
            if f.id == "getattr" and len(node.args) in (2, 3) and \
                    self.hooks is not None:
                # hooks may model getattr themselves (e.g. name patterns)
                r = self.hooks.function(self, node,
                                        [self.ev(a) for a in node.args], {})
                if r is not NotImplemented:
                    return r
            if f.id == "getattr" and len(node.args) in (2, 3):
                o = self.ev(node.args[0])
                a = self.ev(node.args[1])
                if isinstance(a, str):
                    if len(node.args) == 2:
                        return self.getattr(o, a, node)
                    try:
                        return self.getattr(o, a, node)
                    except Unsupported:
                        return self.ev(node.args[2])
                    except Raised as r:
                        if str(r.cls).endswith("AttributeError"):
                            return self.ev(node.args[2])
                        raise
            if f.id == "setattr" and len(node.args) == 3 and \
                    not node.keywords:
                # setattr(o, "name", v) is the statement o.name = v
                o = self.ev(node.args[0])
                a = self.ev(node.args[1])
                v = self.ev(node.args[2])
                if isinstance(a, str) and a.isidentifier():
                    ho, hv = "$setattr_o%d" % id(node), \
                        "$setattr_v%d" % id(node)
                    self.env[ho], self.env[hv] = o, v
                    one = ast.Assign(
                        targets=[ast.Attribute(
                            value=ast.Name(id=ho, ctx=ast.Load()), attr=a,
                            ctx=ast.Store())],
                        value=ast.Name(id=hv, ctx=ast.Load()))
                    ast.copy_location(one, node)
                    ast.fix_missing_locations(one)
                    try:
                        self.stmt(one)
                    finally:
                        del self.env[ho], self.env[hv]
                    return None
            if f.id == "hasattr" and len(node.args) == 2:
                o = self.ev(node.args[0])
                a = self.ev(node.args[1])
                if isinstance(o, ClassInfo):
                    return o.find_attr(a) is not None or \
                        o.find_method(a) is not None
                if isinstance(o, Abs):
                    if a in o.attrs:
                        return True
                    if o.cls is not None:
                        return o.cls.find_attr(a) is not None or \
                            o.cls.find_method(a) is not None
                    # an abstract object of no repository class has the
                    # attributes the rule declared, and no others
                    return False
        if dotted(f) in ("re.match", "re.search", "re.fullmatch", "re.sub",
                         "re.split", "re.findall") and not node.keywords \
                and self.hooks is None:
            vals = [self.ev(a) for a in node.args]
            if all(isinstance(v, str) for v in vals):
                return getattr(_re, dotted(f).split(".")[1])(*vals)
        if isinstance(f, ast.Name) and f.id == "object" and \
                not node.args and "object" not in self.env:
            return object()
        if dotted(f) in ("defaultdict", "collections.defaultdict") and \
                len(node.args) <= 1 and not node.keywords:
            import collections
            fac = node.args[0] if node.args else None
            if fac is None:
                return collections.defaultdict()
            if isinstance(fac, ast.Name) and fac.id in (
                    "dict", "list", "set", "int") and fac.id not in self.env:
                return collections.defaultdict(
                    {"dict": dict, "list": list, "set": set,
                     "int": int}[fac.id])
        if dotted(f) in ("attrgetter", "operator.attrgetter") and \
                len(node.args) == 1 and not node.keywords:
            path = self.ev(node.args[0])
            if isinstance(path, str):
                def getter(obj, path=path):
                    for a in path.split("."):
                        obj = self.getattr(obj, a)
                    return obj
                return ("pyfunc", getter)
        if dotted(f) == "re.compile" and len(node.args) == 1 and \
                not node.keywords:
            pat = self.ev(node.args[0])
            if isinstance(pat, str):
                return _re.compile(pat)
        args = []
        for a in node.args:
            if isinstance(a, ast.Starred):
                v = self.ev(a.value)
                if isinstance(v, Abs):
                    raise Unsupported("table evaluator: *%s" %
                                      unparse(a.value))
                args.extend(list(v))
            else:
                args.append(self.ev(a))
        kwargs = {}
        for k in node.keywords:
            if k.arg is not None:
                kwargs[k.arg] = self.ev(k.value)
            else:
                v = self.ev(k.value)
                if not isinstance(v, dict):
                    raise Unsupported("table evaluator: **%s" %
                                      unparse(k.value))
                kwargs.update(v)
        # method call on abstract object
        if isinstance(f, ast.Attribute):
            ent = self.resolve(f)
            if ent is None:
                base = self.ev(f.value)
                if f.attr == "__class__" and isinstance(base, Abs) and \
                        isinstance(base.cls, ClassInfo):
                    if self.hooks is not None:
                        r = self.hooks.construct(self, base.cls, args, kwargs)
                        if r is not NotImplemented:
                            return r
                    raise Unsupported("table evaluator: constructor %s(...) "
                                      "has no model" % base.cls.qualname)
                if self.hooks is not None:
                    r = self.hooks.method(self, base, f.attr, args, kwargs,
                                          node)
                    if r is not NotImplemented:
                        return r
                if isinstance(base, Abs) and f.attr in base.attrs:
                    # a callable the rule stored on the abstract object
                    stored = base.attrs[f.attr]
                    if isinstance(stored, Closure):
                        return stored.call(self, args, kwargs)
                    if isinstance(stored, tuple) and len(stored) == 2 and \
                            stored[0] == "pyfunc":
                        return stored[1](*args, **kwargs)
                if isinstance(base, Abs) and base.cls is not None:
                    m = base.cls.find_method(f.attr)
                    if m is not None and m.kind != "property":
                        if m.kind == "staticmethod":
                            return self.inline(m, args, kwargs)
                        return self.inline(m, [base] + args, kwargs)
                if isinstance(base, ClassInfo):
                    m = base.find_method(f.attr)
                    if m is not None:
                        if m.kind == "staticmethod":
                            return self.inline(m, args, kwargs)
                        if m.kind == "classmethod":
                            return self.inline(m, [base] + args, kwargs)
                if isinstance(base, tuple) and len(base) == 3 and \
                        base[0] == "super":
                    _, after, me = base
                    if isinstance(me, Abs) and me.cls is not None and \
                            after is not None:
                        m = me.cls.find_method(f.attr, after=after)
                        if m is not None:
                            return self.inline(m, [me] + args, kwargs)
                    raise Unsupported("table evaluator: super().%s" % f.attr)
                if isinstance(base, _re.Pattern) and \
                        f.attr in ("match", "search", "fullmatch"):
                    # a precompiled pattern (module constant)
                    if args and all(isinstance(a, str) for a in args):
                        return getattr(base, f.attr)(*args)
                    r = getattr(self.hooks, "regex_on_abstract",
                                NotImplemented)
                    if r is not NotImplemented:
                        return r
                if not isinstance(base, Abs):
                    r = self.builtin_method(base, f.attr, args)
                    if r is not NotImplemented:
                        return r
                    if base is None or type(base) in (
                            str, int, float, bool, list, dict, tuple, set):
                        if not hasattr(base, f.attr):
                            # e.g. [].validate(): Python raises here
                            raise Raised("builtins.AttributeError")
                if isinstance(base, Abs) and isinstance(base.cls, ClassInfo) \
                        and f.attr not in base.attrs \
                        and not any(k.defines(f.attr)
                                    for k in base.cls.mro_classes()):
                    d = self.getattr_delegate(base)
                    if d is not NotImplemented:
                        if not hasattr(d, f.attr):
                            self.events.append(("undefined-method", base.label,
                                                f.attr, None))
                            raise Raised("builtins.AttributeError")
                        r = self.builtin_method(d, f.attr, args)
                        if r is not NotImplemented:
                            return r
                if isinstance(base, Abs) and isinstance(base.cls, ClassInfo) \
                        and f.attr not in base.attrs \
                        and not any(k.defines(f.attr)
                                    for k in base.cls.mro_classes()) \
                        and base.cls.find_method("__getattr__") is None \
                        and not any(hasattr(BUILTIN_TYPES.get(b, object),
                                            f.attr)
                                    for b in base.cls.builtin_bases()):
                    # no class of the hierarchy defines the name: Python
                    # raises AttributeError here
                    self.events.append(("undefined-method", base.label,
                                        f.attr, None))
                    raise Raised("builtins.AttributeError")
                raise Unsupported("table evaluator: call %s" %
                                  unparse(node)[:80])
            target = ent
        else:
            target = self.ev(f) if not isinstance(f, ast.Name) or \
                f.id in self.env else self.resolve(f)
            if isinstance(target, External):
                nm = target.name.split(".")[-1]
                if nm in ("int", "float", "str") and len(args) == 1 and \
                        not isinstance(args[0], Abs):
                    try:
                        return BUILTIN_TYPES[nm](args[0])
                    except Exception:
                        raise Raised("builtins.ValueError")
        if isinstance(target, Closure):
            return target.call(self, args, kwargs)
        if isinstance(target, tuple) and len(target) == 2 and \
                target[0] == "pyfunc":
            return target[1](*args, **kwargs)
        if isinstance(target, tuple) and len(target) == 3 and \
                target[0] == "pybound":
            r = self.builtin_method(target[1], target[2], args)
            if r is NotImplemented:
                raise Unsupported("table evaluator: call of %s.%s" % (
                    type(target[1]).__name__, target[2]))
            return r
        if isinstance(target, tuple) and target and target[0] == "bound":
            return self.inline(target[1], [target[2]] + args, kwargs)
        if isinstance(target, FuncInfo):
            if target.kind in ("method", "property") and target.cls:
                # unbound call Class.method(obj, ...)
                return self.inline(target, args, kwargs)
            return self.inline(target, args, kwargs)
        if isinstance(target, ClassInfo):
            if self.hooks is not None:
                r = self.hooks.construct(self, target, args, kwargs)
                if r is not NotImplemented:
                    return r
            if any(b in ("Exception", "BaseException")
                   for b in target.builtin_bases()):
                # an exception object kept in a variable and raised later
                return Abs(target, label="exc:%s" % target.name,
                           __exception__="gfapy.%s" % target.name)
            raise Unsupported("table evaluator: constructor %s(...) has no "
                              "model" % target.qualname)
        if self.hooks is not None:
            r = self.hooks.function(self, node, args, kwargs)
            if r is not NotImplemented:
                return r
        raise Unsupported("table evaluator: call %s" % unparse(node)[:80])

    def builtin_method(self, base, name, args):
        if isinstance(base, _re.Match) and name in (
                "group", "groups", "groupdict", "start", "end", "span") and \
                not any(isinstance(a, Abs) for a in args):
            try:
                return getattr(base, name)(*args)
            except (IndexError, TypeError) as e:
                raise Raised("builtins." + type(e).__name__)
        if isinstance(base, str) and name in ("upper", "lower", "isdigit",
                                              "startswith", "endswith"):
            return getattr(base, name)(*args)
        if isinstance(base, str) and hasattr(str, name) and \
                not name.startswith("_") and name not in ("format",
                                                          "format_map") and \
                not any(isinstance(a, (Abs, Closure)) for a in args):
            # any other str method on concrete arguments, as Python does it
            try:
                r = getattr(base, name)(*args)
            except (TypeError, ValueError, IndexError) as e:
                raise Raised("builtins." + type(e).__name__)
            return list(r) if name in ("splitlines",) else r
        if isinstance(base, (list, tuple)) and len(args) == 1 and \
                name in ("remove", "index", "count") and (
                    isinstance(args[0], Abs) or
                    any(isinstance(x, Abs) for x in base)):
            # equality of abstract objects is their class's __eq__ (lines
            # compare by content), as for the `in` operator
            hits = [i for i, x in enumerate(base) if self._eq(x, args[0])]
            if name == "count":
                return len(hits)
            if not hits:
                raise Raised("builtins.ValueError")
            if name == "index":
                return hits[0]
            del base[hits[0]]
            return None
        if isinstance(base, (list, tuple, set, frozenset, dict, bytes)) and \
                hasattr(type(base), name) and not name.startswith("_") and \
                name not in ("sort",) and \
                not any(isinstance(a, Closure) for a in args):
            try:
                r = getattr(base, name)(*args)
            except (TypeError, ValueError, IndexError, KeyError) as e:
                raise Raised("builtins." + type(e).__name__)
            if isinstance(r, (type({}.keys()), type({}.values()),
                              type({}.items()))):
                return list(r)
            return r
        if isinstance(base, dict) and name in ("get", "keys", "values",
                                               "items"):
            r = getattr(base, name)(*args)
            return list(r) if name != "get" else r
        if isinstance(base, dict) and name in ("copy", "pop", "update",
                                               "setdefault"):
            return getattr(base, name)(*args)
        if isinstance(base, (list, tuple)) and name == "__iter__":
            return list(base)
        if isinstance(base, list) and name in ("index", "count", "append",
                                               "insert", "extend", "pop",
                                               "copy", "reverse"):
            return getattr(base, name)(*args)
        if isinstance(base, set) and name in ("add", "copy"):
            return getattr(base, name)(*args)
        if isinstance(base, str) and name in ("join", "split", "format"):
            try:
                return getattr(base, name)(*args)
            except Exception:
                return NotImplemented
        return NotImplemented

    def isinstance(self, value, clsnode):
        if isinstance(clsnode, ast.Tuple):
            return any(self.isinstance(value, e) for e in clsnode.elts)
        ent = self.resolve(clsnode)
        if ent is None and isinstance(clsnode, ast.Name) and \
                clsnode.id in self.env:
            ent = self.env[clsnode.id]
        if isinstance(ent, External) and not isinstance(value, Abs):
            nm = ent.name.split(".")[-1]
            if nm in BUILTIN_TYPES:
                return isinstance(value, BUILTIN_TYPES[nm])
            if nm == "object":
                return True
        if isinstance(value, Abs):
            if isinstance(ent, ClassInfo):
                return value.isa(ent)
            if isinstance(ent, External):
                return value.isa(ent.name.split(".")[-1])
            d = dotted(clsnode)
            if isinstance(ent, External):
                d = ent.name.split(".")[-1]
            if d in BUILTIN_TYPES or d in ("object",):
                return d == "object" or value.isa(d)
            raise Unsupported("table evaluator: isinstance(_, %s)" %
                              unparse(clsnode))
        d = dotted(clsnode)
        if isinstance(ent, ClassInfo):
            if value is None:
                return False
            # concrete python values are never instances of repo classes
            if isinstance(value, (str, int, float, list, dict, tuple, bool)):
                return False
            # a class / function object (builtins.object, ...) is not one
            if isinstance(value, (External, ClassInfo, FuncInfo)):
                return False
        if d in BUILTIN_TYPES:
            return isinstance(value, BUILTIN_TYPES[d])
        if isinstance(ent, External) and ent.name.split(".")[-1] in \
                BUILTIN_TYPES:
            return isinstance(value, BUILTIN_TYPES[ent.name.split(".")[-1]])
        if isinstance(ent, External):
            real = stdlib_class(ent.name)
            if real is not None:
                # a concrete Python value against a standard-library class
                # (collections.UserList, numbers.Number, ...)
                return isinstance(value, real)
        raise Unsupported("table evaluator: isinstance(%r, %s)" %
                          (value, unparse(clsnode)))

    def inline(self, func, args, kwargs):
        if self.depth > 24:
            raise Unsupported("table evaluator: inlining depth at %s" %
                              func.qualname)
        if self.hooks is not None:
            r = self.hooks.before_inline(self, func, args, kwargs)
            if r is not NotImplemented:
                return r
        env = {}
        a = func.node.args
        names = [x.arg for x in a.posonlyargs + a.args]
        defaults = a.defaults
        nd = len(defaults)
        for i, n in enumerate(names):
            if i < len(args):
                env[n] = args[i]
            elif n in kwargs:
                env[n] = kwargs[n]
            else:
                j = i - (len(names) - nd)
                if j >= 0:
                    env[n] = Evaluator(self.repo, func.module).ev(defaults[j])
                else:
                    raise Unsupported("table evaluator: missing argument %s "
                                      "of %s" % (n, func.qualname))
        if a.vararg is not None:
            env[a.vararg.arg] = tuple(args[len(names):])
        for kw, d in zip(a.kwonlyargs, a.kw_defaults):
            if kw.arg in kwargs:
                env[kw.arg] = kwargs[kw.arg]
            elif d is not None:
                env[kw.arg] = Evaluator(self.repo, func.module).ev(d)
        sub = Evaluator(self.repo, func.module, env, None, self.hooks,
                        self.depth + 1, self.shared)
        sub.func = func
        sub.self_name = names[0] if (names and func.has_self) else None
        kind, val = sub.run(func.node.body, reraise=True)
        if any(isinstance(n, (ast.Yield, ast.YieldFrom))
               for n in walk_no_nested(func.node)):
            # a generator function: evaluated eagerly into the list of the
            # values it yields (as nested generators are)
            return list(sub.env.get("$yield", []))
        return val

    # ---- statements
    def run(self, body, reraise=False):
        """('return', value) | ('raise', clsname) | ('fall', None)."""
        try:
            self.block(body)
        except _Return as r:
            return ("return", r.value)
        except Raised as r:
            if reraise:
                raise
            return ("raise", r.cls)
        return ("fall", None)

    def handler_matches(self, h, cls):
        names = _handler_names(h)
        if names is None:
            return True
        short = str(cls).split(".")[-1]
        for n in names:
            ns = n.split(".")[-1]
            if ns in ("Exception", "BaseException"):
                return True
            if ns == short and (n.startswith("gfapy") ==
                                str(cls).startswith("gfapy")):
                return True
            if ns == "Error" and str(cls).startswith("gfapy"):
                return True
        return False

    def block(self, body):
        for st in body:
            self.stmt(st)

    def stmt(self, st):
        self.tick()
        if isinstance(st, ast.Return):
            raise _Return(self.ev(st.value) if st.value is not None else None)
        if isinstance(st, ast.Raise):
            if isinstance(st.exc, ast.Name) and st.exc.id in self.env:
                v = self.env[st.exc.id]
                if isinstance(v, Abs) and v.attrs.get("__exception__"):
                    raise Raised(v.attrs["__exception__"])
            raise Raised(raise_class_name(st))
        if isinstance(st, ast.If):
            if self.truth(self.ev(st.test)):
                self.block(st.body)
            else:
                self.block(st.orelse)
            return
        if isinstance(st, ast.Assign) and len(st.targets) > 1 and all(
                isinstance(n, (ast.Name, ast.Tuple, ast.List, ast.Starred,
                               ast.Store, ast.Load))
                for t in st.targets for n in ast.walk(t)):
            v = self.ev(st.value)
            for t in st.targets:
                self.bind(t, v)
            return
        if isinstance(st, ast.Assign) and len(st.targets) > 1:
            # a = x.y = z[k] = value: one evaluation, stored left to right
            v = self.ev(st.value)
            holder = "$chain%d" % id(st)
            self.env[holder] = v
            for t in st.targets:
                one = ast.Assign(targets=[t],
                                 value=ast.Name(id=holder, ctx=ast.Load()))
                ast.copy_location(one, st)
                ast.fix_missing_locations(one)
                self.stmt(one)
            del self.env[holder]
            return
        if isinstance(st, ast.Assign) and len(st.targets) == 1:
            t = st.targets[0]
            if isinstance(t, ast.Name):
                self.env[t.id] = self.ev(st.value)
                return
            if isinstance(t, (ast.Tuple, ast.List)) and all(
                    isinstance(n, (ast.Name, ast.Tuple, ast.List, ast.Starred,
                                   ast.Store, ast.Load))
                    for n in ast.walk(t)):
                self.bind(t, self.ev(st.value))
                return
            value = self.ev(st.value)
            if isinstance(t, (ast.Tuple, ast.List)) and not any(
                    isinstance(e, ast.Starred) for e in t.elts):
                # (a.x, b[k], c) = value: unpack, then store element-wise
                try:
                    items = list(value)
                except TypeError:
                    raise Raised("builtins.TypeError")
                if len(items) != len(t.elts):
                    raise Raised("builtins.ValueError")
                for i, (e, item) in enumerate(zip(t.elts, items)):
                    holder = "$unpack%d_%d" % (id(st), i)
                    self.env[holder] = item
                    one = ast.Assign(targets=[e], value=ast.Name(
                        id=holder, ctx=ast.Load()))
                    ast.copy_location(one, st)
                    ast.fix_missing_locations(one)
                    self.stmt(one)
                    del self.env[holder]
                return
            if self.hooks is not None:
                r = self.hooks.store(self, t, value, st)
                if r is not NotImplemented:
                    return
            if isinstance(t, ast.Attribute):
                base = self.ev(t.value)
                if isinstance(base, Abs):
                    self.events.append(("store", base.label, t.attr, value))
                    base.attrs[t.attr] = value
                    return
            if isinstance(t, ast.Subscript):
                base = self.ev(t.value)
                if isinstance(base, (list, dict)):
                    if isinstance(t.slice, ast.Slice):
                        sl = t.slice
                        idx = slice(self.ev(sl.lower) if sl.lower else None,
                                    self.ev(sl.upper) if sl.upper else None,
                                    self.ev(sl.step) if sl.step else None)
                        base[idx] = list(value)
                    else:
                        base[self.ev(t.slice)] = value
                    return
            if isinstance(t, ast.Attribute):
                base = self.ev(t.value)
                if not isinstance(base, Abs) and hasattr(base, "__dict__") \
                        and type(base).__module__.startswith("gfaverif"):
                    # a concrete stand-in object supplied by a rule (a list
                    # subclass modelling an array): the attribute is kept
                    setattr(base, t.attr, value)
                    return
            raise Unsupported("table evaluator: store %s" % unparse(t))
        if isinstance(st, ast.AugAssign) and \
                isinstance(st.target, ast.Attribute):
            base = self.ev(st.target.value)
            val = self.ev(st.value)
            if isinstance(base, Abs) and not isinstance(val, Abs):
                cur = base.attrs.get(st.target.attr)
                import operator as _op
                fn = {ast.Add: _op.add, ast.Sub: _op.sub,
                      ast.Mult: _op.mul}.get(type(st.op))
                if fn is not None and (
                        (isinstance(cur, (int, float)) and
                         isinstance(val, (int, float))) or
                        (isinstance(st.op, ast.Add) and
                         isinstance(cur, (list, str)))):
                    new = fn(cur, val)
                    self.events.append(("store", base.label, st.target.attr,
                                        new))
                    base.attrs[st.target.attr] = new
                    return
            raise Unsupported("table evaluator: %s" % unparse(st))
        if isinstance(st, ast.AugAssign) and isinstance(st.target, ast.Name):
            cur = self.ev(st.target)
            val = self.ev(st.value)
            if isinstance(cur, Abs) or isinstance(val, Abs):
                raise Unsupported("table evaluator: %s" % unparse(st))
            if isinstance(st.op, ast.Add):
                self.env[st.target.id] = cur + val
                return
            if isinstance(st.op, ast.Sub):
                self.env[st.target.id] = cur - val
                return
        if isinstance(st, ast.Expr):
            if isinstance(st.value, (ast.Constant, ast.Name)):
                return
            if isinstance(st.value, ast.Yield):
                self.env.setdefault("$yield", []).append(
                    self.ev(st.value.value) if st.value.value is not None
                    else None)
                return
            self.ev(st.value)
            return
        if isinstance(st, (ast.Pass, ast.Assert, ast.Global, ast.Nonlocal)):
            return
        if isinstance(st, ast.AnnAssign):
            # `x: T = v` is `x = v`; a bare annotation binds nothing
            if st.value is None:
                return
            one = ast.Assign(targets=[st.target], value=st.value)
            ast.copy_location(one, st)
            ast.fix_missing_locations(one)
            return self.stmt(one)
        if isinstance(st, (ast.Import, ast.ImportFrom)):
            # a function-level import of something the module namespace can
            # already resolve (re, json, gfapy, ...) binds the same entity
            for al in st.names:
                local = al.asname or al.name.split(".")[0]
                if isinstance(st, ast.Import) and al.asname:
                    probe = ast.parse(al.name, mode="eval").body
                else:
                    probe = ast.Name(id=al.name.split(".")[0] if isinstance(
                        st, ast.Import) else al.name, ctx=ast.Load())
                try:
                    ent = self.ev(probe)
                except Unsupported:
                    if isinstance(st, ast.Import):
                        ent = External(al.name if al.asname else
                                       al.name.split(".")[0])
                    else:
                        ent = External("%s.%s" % (st.module, al.name))
                self.env[local] = ent
            return
        if isinstance(st, ast.FunctionDef):
            self.env[st.name] = Closure(st, self)
            return
        if isinstance(st, ast.For):
            it = self.iterable(self.ev(st.iter))
            broke = False
            for v in list(it) if isinstance(it, (set, dict)) else it:
                self.bind(st.target, v)
                try:
                    self.block(st.body)
                except _Break:
                    broke = True
                    break
                except _Continue:
                    continue
            if not broke and st.orelse:
                self.block(st.orelse)
            return
        if isinstance(st, ast.While):
            n = 0
            broke = False
            while self.truth(self.ev(st.test)):
                n += 1
                if n > 5000:
                    raise Unsupported("table evaluator: while loop bound")
                try:
                    self.block(st.body)
                except _Break:
                    broke = True
                    break
                except _Continue:
                    continue
            if not broke and st.orelse:
                self.block(st.orelse)
            return
        if isinstance(st, ast.Delete):
            for t in st.targets:
                if isinstance(t, ast.Name):
                    self.env.pop(t.id, None)
                elif isinstance(t, ast.Subscript):
                    base = self.ev(t.value)
                    if isinstance(base, (dict, list)) and \
                            not isinstance(t.slice, ast.Slice):
                        k = self.ev(t.slice)
                        try:
                            del base[k]
                        except KeyError:
                            raise Raised("builtins.KeyError")
                        except IndexError:
                            raise Raised("builtins.IndexError")
                    else:
                        raise Unsupported("table evaluator: %s" % unparse(st))
                elif isinstance(t, ast.Attribute):
                    base = self.ev(t.value)
                    if isinstance(base, Abs):
                        self.events.append(("store", base.label, t.attr,
                                            "<deleted>"))
                        base.attrs.pop(t.attr, None)
                    else:
                        raise Unsupported("table evaluator: %s" % unparse(st))
            return
        if isinstance(st, ast.Match):
            subject = self.ev(st.subject)
            for case in st.cases:
                saved = dict(self.env)
                if self.match_pattern(case.pattern, subject) and (
                        case.guard is None or
                        self.truth(self.ev(case.guard))):
                    self.block(case.body)
                    return
                self.env = saved
            return
        if isinstance(st, ast.With):
            # the context managers of the tree are open files: __enter__
            # gives the object itself, __exit__ lets exceptions through
            for item in st.items:
                v = self.ev(item.context_expr)
                if isinstance(v, Abs) and v.cls is not None:
                    raise Unsupported("table evaluator: with %s" %
                                      unparse(item.context_expr))
                if item.optional_vars is not None:
                    self.bind(item.optional_vars, v)
            self.block(st.body)
            return
        if isinstance(st, ast.Break):
            raise _Break()
        if isinstance(st, ast.Continue):
            raise _Continue()
        if isinstance(st, ast.Try):
            if self.hooks is not None:
                r = self.hooks.try_stmt(self, st)
                if r is not NotImplemented:
                    return
            catches_attr = any(
                h.type is None or (dotted(h.type) or "").split(".")[-1] in (
                    "AttributeError", "Exception", "BaseException")
                or (isinstance(h.type, ast.Tuple) and any(
                    (dotted(e) or "").split(".")[-1] == "AttributeError"
                    for e in h.type.elts))
                for h in st.handlers)
            try:
                try:
                    if catches_attr:
                        self.shared["attr_try"] = \
                            self.shared.get("attr_try", 0) + 1
                    try:
                        self.block(st.body)
                    finally:
                        if catches_attr:
                            self.shared["attr_try"] -= 1
                except Raised as r:
                    for h in st.handlers:
                        if self.handler_matches(h, r.cls):
                            if h.name:
                                self.env[h.name] = Abs(None, label="exc:%s" %
                                                       r.cls)
                            self.block(h.body)
                            break
                    else:
                        raise
                else:
                    self.block(st.orelse)
            finally:
                if st.finalbody:
                    self.block(st.finalbody)
            return
        raise Unsupported("table evaluator: statement %s" %
                          unparse(st).split("\n")[0][:80])


def _handler_names(h):
    if h.type is None:
        return None
    if isinstance(h.type, ast.Tuple):
        return [dotted(e) or unparse(e) for e in h.type.elts]
    return [dotted(h.type) or unparse(h.type)]


class Closure:
    """nested function; a generator is evaluated eagerly into a list"""

    def __init__(self, node, outer):
        self.node = node
        self.outer = outer

    def call(self, ev, args, kwargs):
        env = dict(self.outer.env)
        a = self.node.args
        names = [x.arg for x in a.posonlyargs + a.args]
        defaults = dict(zip(names[len(names) - len(a.defaults):], a.defaults))
        for i, n in enumerate(names):
            if i < len(args):
                env[n] = args[i]
            elif n in kwargs:
                env[n] = kwargs[n]
            elif n in defaults:
                env[n] = self.outer.ev(defaults[n])
        if a.vararg:
            env[a.vararg.arg] = tuple(args[len(names):])
        if a.kwarg:
            env[a.kwarg.arg] = {k: v for k, v in kwargs.items()
                                if k not in names and
                                k not in [x.arg for x in a.kwonlyargs]}
        for x, d in zip(a.kwonlyargs, a.kw_defaults):
            if x.arg in kwargs:
                env[x.arg] = kwargs[x.arg]
            elif d is not None:
                env[x.arg] = self.outer.ev(d)
        env.pop("$yield", None)
        if isinstance(self.node, ast.Lambda):
            sub = Evaluator(ev.repo, self.outer.module, env, None, ev.hooks,
                            ev.depth + 1, ev.shared)
            sub.func = self.outer.func
            sub.self_name = self.outer.self_name
            return sub.ev(self.node.body)
        sub = Evaluator(ev.repo, self.outer.module, env, None, ev.hooks,
                        ev.depth + 1, ev.shared)
        sub.func = self.outer.func
        sub.self_name = self.outer.self_name
        is_gen = any(isinstance(n, (ast.Yield, ast.YieldFrom))
                     for n in ast.walk(self.node))
        kind, val = sub.run(self.node.body, reraise=True)
        if is_gen:
            return list(sub.env.get("$yield", []))
        return val


class _Break(Exception):
    pass


class _Continue(Exception):
    pass


class Hooks:
    """Override points; every method returns NotImplemented by default."""

    def eq(self, ev, a, b):
        return NotImplemented

    def order(self, ev, op, a, b):
        return NotImplemented

    def getattr(self, ev, base, attr):
        return NotImplemented

    def method(self, ev, base, name, args, kwargs, node):
        return NotImplemented

    def construct(self, ev, cls, args, kwargs):
        return NotImplemented

    def function(self, ev, node, args, kwargs):
        return NotImplemented

    def before_inline(self, ev, func, args, kwargs):
        return NotImplemented

    def to_str(self, ev, v):
        return NotImplemented

    def store(self, ev, target, value, st):
        return NotImplemented

    def class_attr(self, ev, cls, attr):
        return NotImplemented

    def try_stmt(self, ev, st):
        return NotImplemented


def raise_class_name(st):
    """'gfapy.ValueError' for `raise gfapy.ValueError(...)`; '<reraise>' for a
    bare raise."""
    if st.exc is None:
        return "<reraise>"
    e = st.exc
    if isinstance(e, ast.Call):
        e = e.func
    d = dotted(e)
    return d or unparse(e)


def product_domain(domain):
    keys = list(domain)
    for combo in itertools.product(*[domain[k] for k in keys]):
        yield dict(zip(keys, combo))


def eval_function(repo, func, args, kwargs=None, hooks=None):
    """Outcome of calling FuncInfo `func` on abstract arguments:
    ('return', v) | ('raise', cls) ; events recorded by hooks are returned as
    third element."""
    ev = Evaluator(repo, func.module, {}, None, hooks)
    try:
        v = ev.inline(func, list(args), dict(kwargs or {}))
        return ("return", v, ev.events)
    except Raised as r:
        return ("raise", r.cls, ev.events)
