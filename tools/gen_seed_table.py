#!/usr/bin/env python3
"""Rewrite the table of seeded changes at the end of DESIGN.md from
seeded/*/meta.json and the first line of each notes.md."""
import json
import os
import re

VERIF = os.path.dirname(os.path.dirname(os.path.abspath(__file__)))
BEGIN = "<!-- seed-table:begin -->"
END = "<!-- seed-table:end -->"


def main():
    rows = []
    d = os.path.join(VERIF, "seeded")
    for s in sorted(os.listdir(d)):
        meta = json.load(open(os.path.join(d, s, "meta.json")))
        title = ""
        for line in open(os.path.join(d, s, "notes.md"), encoding="utf8"):
            line = line.strip()
            if line:
                title = re.sub(r"^#+\s*", "", line)
                title = re.sub(r"^C\d+\s+variant\s+\w+\s*[-:—]+\s*", "", title,
                               flags=re.I)
                break
        by = meta.get("detected_by", [])
        rules = []
        for x in by:
            r = x.get("report", "").split(":")[0]
            rules.append("%s (`%s`)" % (x["check"], r) if r else x["check"])
        rows.append("| %s | %s | %s |" % (
            s, title[:110].replace("|", "/"),
            ", ".join(rules) if rules else "**missed**"))
    n = len(rows)
    det = sum(1 for r in rows if "**missed**" not in r)
    text = [BEGIN, "",
            "%d of %d kept seeds are reported by at least one check "
            "(regenerate with `tools/seed_matrix.py --update && "
            "tools/gen_seed_table.py`)." % (det, n), "",
            "| seed | change (first line of the agent's notes) | reported by |",
            "|---|---|---|"] + rows + ["", END]
    p = os.path.join(VERIF, "DESIGN.md")
    s = open(p, encoding="utf8").read()
    block = "\n".join(text)
    if BEGIN in s:
        s = s[:s.index(BEGIN)] + block + s[s.index(END) + len(END):]
    else:
        s = s.rstrip("\n") + "\n\n## 10. Seeded changes and the checks that " \
            "report them\n\nEach seed is a change to gfapy that compiles, " \
            "passes the existing suite and breaks the property it is named " \
            "after (demonstrated by its `demo.py`), written by a sub-agent " \
            "that saw only the property text. A seed of property X reported " \
            "only by the check of property Y means the structural clause it " \
            "breaks is shared (e.g. the ITER clause of C02/C05/C16).\n\n" + \
            block + "\n"
    open(p, "w", encoding="utf8").write(s)
    print("%d/%d" % (det, n))


if __name__ == "__main__":
    main()
