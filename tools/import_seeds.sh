#!/bin/sh
# usage: import_seeds.sh <outdir> <variants> <prop>...   e.g. import_seeds.sh /tmp/seed2/out "e f" C01 C02
# verifies each <outdir>/<prop>/<variant> with verify_seed.sh and copies the good ones to /verif/seeded/<prop>-<variant>
out=$1; variants=$2; shift 2
for P in "$@"; do for v in $variants; do d=$out/$P/$v; [ -f $d/patch.diff ] || continue
  r=$(sh /verif/tools/verify_seed.sh $d); echo "$r" | sed "s#$out/##"
  case "$r" in *"applied=yes clean_demo_exit=0 mutated_demo_exit=1 other_failed_tests=0"*)
    t=/verif/seeded/$P-$v; mkdir -p $t; cp $d/patch.diff $d/demo.py $d/notes.md $t/
    /venv/bin/python - "$P" "$v" <<'PY'
import json,sys,subprocess
P,v=sys.argv[1:3]
head=subprocess.run(['git','-C','/repo','rev-parse','--short','HEAD'],capture_output=True,text=True).stdout.strip()
meta={"property":P,"variant":v,"source":"independent sub-agent given only the property text and a scratch worktree of /repo",
"verified_against_repo_head":head,
"needs_to_manifest":"see notes.md (written by the seeding agent)",
"verified":{"how":"tools/verify_seed.sh: fresh worktree of /repo HEAD under /tmp; demo on clean tree; git apply patch.diff; full pytest suite; demo on patched tree; worktree removed","patch_applies":True,"demo_exit_clean_tree":0,"demo_exit_patched_tree":1,"failing_tests_other_than_test_stable_sequence_names":0},
"detected_by":[],"checks_run":[]}
json.dump(meta,open('/verif/seeded/%s-%s/meta.json'%(P,v),'w'),indent=1)
PY
  ;; esac; done; done
