#!/usr/bin/env python3
"""Every `fixed:` entry of known_findings.txt must come back as a violation
when its repair is undone.

usage: /venv/bin/python tools/revert_matrix.py [--props C07] [-v]

For each `fixed: property=<id> <commit> ...` line: clone /repo into a temporary
directory outside /repo and /verif, `git revert --no-commit <commit>` there,
run the quick check of <id> with --repo <clone>, remove the clone.  A revert
that no longer applies cleanly (later fixes touched the same lines) is reported
as CONFLICT and skipped.  /repo itself is never touched.
"""
import argparse
import os
import re
import shutil
import subprocess
import sys
import tempfile
from concurrent.futures import ProcessPoolExecutor

VERIF = os.path.dirname(os.path.dirname(os.path.abspath(__file__)))


def entries():
    out = []
    for line in open(os.path.join(VERIF, "known_findings.txt")):
        m = re.match(r"fixed: property=(C\d+) ([0-9a-f]{7,40}) (.*)", line)
        if m:
            out.append((m.group(1), m.group(2), m.group(3).strip()))
    return out


def run_one(e):
    prop, commit, text = e
    tmp = tempfile.mkdtemp(prefix="gfaverif_revert_")
    try:
        subprocess.run(["git", "clone", "-q", "--no-hardlinks", "/repo", tmp],
                       check=True, capture_output=True)
        manual = os.path.join(VERIF, "reverts", commit[:7] + ".diff")
        if os.path.exists(manual):
            # a hand-made undo patch takes precedence (the plain revert no
            # longer applies, or no longer re-creates the defect)
            p = subprocess.CompletedProcess([], 1)
        else:
            p = subprocess.run(["git", "-c", "user.email=x@x", "-c",
                                "user.name=x", "revert", "--no-commit",
                                commit], cwd=tmp, capture_output=True,
                               text=True)
        if p.returncode != 0:
            # later repairs touched the same lines: use the hand-made undo
            # patch /verif/reverts/<commit>.diff on a fresh clone
            manual = os.path.join(VERIF, "reverts", commit[:7] + ".diff")
            if not os.path.exists(manual):
                return e, "CONFLICT", ""
            subprocess.run(["git", "reset", "-q", "--hard"], cwd=tmp)
            q = subprocess.run(["patch", "-p1", "-s",
                                "--no-backup-if-mismatch", "-i", manual],
                               cwd=tmp, capture_output=True, text=True)
            if q.returncode != 0:
                return e, "CONFLICT", "manual undo patch does not apply"
        env = dict(os.environ)
        env["GFAVERIF_EVIDENCE_DIR"] = os.path.join(tmp, ".evidence")
        q = subprocess.run(["/venv/bin/python", "-m", "gfaverif", "check",
                            prop, "--repo", tmp], cwd=VERIF,
                           capture_output=True, text=True, env=env)
        first = ""
        lines = q.stdout.splitlines()
        for i, l in enumerate(lines):
            if l.startswith(prop + ".") and ":" in l:
                first = l + " | " + (lines[i + 1].strip()
                                     if i + 1 < len(lines) else "")
                break
            if l.startswith("ANALYSIS-ERROR"):
                first = l
                break
        return e, {0: "missed", 1: "DETECTED", 2: "ANALYSIS-ERROR"}.get(
            q.returncode, "rc=%d" % q.returncode), first[:200]
    finally:
        shutil.rmtree(tmp, ignore_errors=True)


def main():
    ap = argparse.ArgumentParser()
    ap.add_argument("--props", default=None)
    ap.add_argument("-v", action="store_true")
    a = ap.parse_args()
    es = entries()
    if a.props:
        es = [e for e in es if e[0] in a.props.split(",")]
    with ProcessPoolExecutor(max_workers=14) as ex:
        results = list(ex.map(run_one, es))
    bad = 0
    for (prop, commit, text), status, first in results:
        print("%-4s %-8s %-14s %s" % (prop, commit[:7], status, text[:70]))
        if a.v and first:
            print("        " + first)
        if status in ("missed", "ANALYSIS-ERROR"):
            bad += 1
    print("%d/%d reverted repairs detected (%d conflicts skipped)" % (
        sum(1 for r in results if r[1] == "DETECTED"), len(results),
        sum(1 for r in results if r[1] == "CONFLICT")))
    return 1 if bad else 0


if __name__ == "__main__":
    sys.exit(main())
