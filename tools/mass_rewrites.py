#!/usr/bin/env python3
"""Mechanical behaviour-preserving rewrites of the whole gfapy package, used to
look for false alarms of the checks (DESIGN.md, round 7).

usage: /venv/bin/python tools/mass_rewrites.py --run            all modes x all checks
       /venv/bin/python tools/mass_rewrites.py <dir> <mode>    rewrite <dir> in place

--run copies /repo's working tree (gfapy/, bin/) to a scratch directory outside
/repo and /verif once per mode, rewrites it through the syntax tree, runs every
registered quick check with --repo <copy> and reports each check whose exit
status differs from the one on the unchanged tree; the copy is removed.
modes: doc ann annassign swap ren tern
"""
import ast,sys,os
class Doc(ast.NodeTransformer):
    def visit_FunctionDef(self,node):
        self.generic_visit(node)
        if not (isinstance(node.body[0],ast.Expr) and isinstance(node.body[0].value,ast.Constant) and isinstance(node.body[0].value.value,str)):
            node.body.insert(0,ast.Expr(ast.Constant("Documented %s."%node.name)))
        return node
class Ann(ast.NodeTransformer):
    def visit_FunctionDef(self,node):
        self.generic_visit(node)
        for a in node.args.args+node.args.kwonlyargs+node.args.posonlyargs:
            if a.arg not in('self','cls') and a.annotation is None: a.annotation=ast.Constant('object')
        if node.returns is None and node.name!='__init__': node.returns=ast.Constant('object')
        return node
class Swap(ast.NodeTransformer):
    def visit_If(self,node):
        self.generic_visit(node)
        if node.orelse and not (len(node.orelse)==1 and isinstance(node.orelse[0],ast.If)):
            t=node.test
            if isinstance(t,ast.UnaryOp) and isinstance(t.op,ast.Not): nt=t.operand
            else: nt=ast.UnaryOp(ast.Not(),t)
            node.test=nt; node.body,node.orelse=node.orelse,node.body
        return node
class Ren(ast.NodeTransformer):
    def visit_FunctionDef(self,node):
        nested=[n for n in ast.walk(node) if n is not node and isinstance(n,(ast.FunctionDef,ast.Lambda,ast.ClassDef,ast.Global,ast.Nonlocal))]
        calls_locals=any(isinstance(n,ast.Name) and n.id in('locals','vars','eval','exec') for n in ast.walk(node))
        if nested or calls_locals:
            return node
        params=set(a.arg for a in node.args.args+node.args.kwonlyargs+node.args.posonlyargs)
        if node.args.vararg: params.add(node.args.vararg.arg)
        if node.args.kwarg: params.add(node.args.kwarg.arg)
        st=set()
        for n in ast.walk(node):
            if isinstance(n,ast.Name) and isinstance(n.ctx,(ast.Store,ast.Del)): st.add(n.id)
            if isinstance(n,ast.ExceptHandler) and n.name: st.add(n.name)
        st-=params
        for n in ast.walk(node):
            if isinstance(n,ast.Name) and n.id in st: n.id=n.id+'_v'
            if isinstance(n,ast.ExceptHandler) and n.name in st: n.name=n.name+'_v'
        return node
class Tern(ast.NodeTransformer):
    # return A if c else B  ->  if c: return A \n return B ; x = A if c else B -> if/else
    def visit_FunctionDef(self,node):
        self.generic_visit(node); return node
    def _blk(self,body):
        out=[]
        for s in body:
            if isinstance(s,ast.Return) and isinstance(s.value,ast.IfExp):
                out.append(ast.If(s.value.test,[ast.Return(s.value.body)],[])); out.append(ast.Return(s.value.orelse))
            elif isinstance(s,ast.Assign) and isinstance(s.value,ast.IfExp) and len(s.targets)==1 and isinstance(s.targets[0],ast.Name):
                out.append(ast.If(s.value.test,[ast.Assign(s.targets,s.value.body)],[ast.Assign(s.targets,s.value.orelse)]))
            else: out.append(s)
        return out
    def generic_visit(self,node):
        super().generic_visit(node)
        for f in ('body','orelse','finalbody'):
            b=getattr(node,f,None)
            if isinstance(b,list) and b and isinstance(b[0],ast.stmt): setattr(node,f,self._blk(b))
        return node
class AnnAssign(ast.NodeTransformer):
    def visit_FunctionDef(self,node):
        self.generic_visit(node)
        seen=set(a.arg for a in node.args.args+node.args.kwonlyargs+node.args.posonlyargs)
        if node.args.vararg: seen.add(node.args.vararg.arg)
        if node.args.kwarg: seen.add(node.args.kwarg.arg)
        # names declared global/nonlocal or assigned in nested constructs first: skip
        for n in ast.walk(node):
            if isinstance(n,(ast.Global,ast.Nonlocal)): seen.update(n.names)
        new=[]
        for st in node.body:
            if isinstance(st,ast.Assign) and len(st.targets)==1 and isinstance(st.targets[0],ast.Name) and st.targets[0].id not in seen:
                seen.add(st.targets[0].id)
                st=ast.copy_location(ast.AnnAssign(target=st.targets[0],annotation=ast.Name(id='object',ctx=ast.Load()),value=st.value,simple=1),st)
            else:
                for n in ast.walk(st):
                    if isinstance(n,ast.Name) and isinstance(n.ctx,ast.Store): seen.add(n.id)
            new.append(st)
        node.body=new
        return node

MODES={'doc':Doc,'ann':Ann,'annassign':AnnAssign,'swap':Swap,'ren':Ren,'tern':Tern}

def rewrite(top, mode):
  T=MODES[mode]
  for root,d,files in os.walk(top):
    for f in files:
        if f.endswith('.py'):
            p=os.path.join(root,f); src=open(p).read()
            t=ast.parse(src); t2=T().visit(t); ast.fix_missing_locations(t2)
            open(p,'w').write(ast.unparse(t2)+'\n')

def run_all():
    import json, shutil, subprocess, tempfile
    from concurrent.futures import ThreadPoolExecutor
    verif=os.path.dirname(os.path.dirname(os.path.abspath(__file__)))
    props=[c['property_id'] for c in json.load(open(os.path.join(verif,'MANIFEST.json')))['checks']]
    def check(p, root):
        env=dict(os.environ); env['GFAVERIF_EVIDENCE_DIR']=tempfile.mkdtemp(prefix='gfaverif_ev_')
        try:
            r=subprocess.run(['/venv/bin/python','-m','gfaverif','check',p,'--repo',root],cwd=verif,capture_output=True,text=True,env=env)
            return r.returncode
        finally:
            shutil.rmtree(env['GFAVERIF_EVIDENCE_DIR'],ignore_errors=True)
    with ThreadPoolExecutor(16) as ex:
        base=dict(zip(props, ex.map(lambda p: check(p,'/repo'), props)))
    bad=0
    for mode in MODES:
        tmp=tempfile.mkdtemp(prefix='gfaverif_rewrite_')
        try:
            shutil.copytree('/repo/gfapy', os.path.join(tmp,'gfapy')); shutil.copytree('/repo/bin', os.path.join(tmp,'bin'))
            rewrite(os.path.join(tmp,'gfapy'), mode)
            with ThreadPoolExecutor(16) as ex:
                got=dict(zip(props, ex.map(lambda p: check(p,tmp), props)))
            diff={p:(base[p],got[p]) for p in props if base[p]!=got[p]}
            bad+=len(diff)
            print('%-10s %s' % (mode, 'same verdicts as the unchanged tree' if not diff else 'DIFFERS (unchanged, rewritten): %r' % diff))
        finally:
            shutil.rmtree(tmp, ignore_errors=True)
    print('%d differing verdict(s) over %d rewrites x %d checks' % (bad, len(MODES), len(props)))
    return 1 if bad else 0

if __name__=='__main__':
    if sys.argv[1:2]==['--run']:
        sys.exit(run_all())
    rewrite(sys.argv[1], sys.argv[2])
