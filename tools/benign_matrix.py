#!/usr/bin/env python3
"""Must-stay-silent corpus: behaviour-preserving refactorings (benign/*.diff,
written by independent sub-agents, each verified against the test suite) are
applied one at a time to a scratch copy of /repo's working tree; every check
must give the same exit status and the same violation keys as on the tree
itself.  usage: /venv/bin/python tools/benign_matrix.py [--props C07,C08] [--patches A_1,...]
"""
import argparse
import json
import os
import shutil
import subprocess
import sys
import tempfile
from concurrent.futures import ProcessPoolExecutor

VERIF = os.path.dirname(os.path.dirname(os.path.abspath(__file__)))
sys.path.insert(0, VERIF)
from gfaverif.__main__ import PROPERTIES  # noqa: E402


def check(prop, root, evdir):
    env = dict(os.environ)
    env["GFAVERIF_EVIDENCE_DIR"] = evdir
    p = subprocess.run(["/venv/bin/python", "-m", "gfaverif", "check", prop,
                        "--repo", root], cwd=VERIF, capture_output=True,
                       text=True, env=env)
    keys = []
    try:
        ev = json.load(open(os.path.join(evdir, prop + ".json")))
        keys = sorted(v["key"] for v in ev["coverage"]["new_violations"]) + \
            sorted("known:" + k for k in ev["coverage"]["known_findings_seen"])
    except Exception:
        pass
    first = [l for l in p.stdout.splitlines()
             if l.startswith(("ANALYSIS-ERROR", prop + "."))][:1]
    return p.returncode, keys, (first or [""])[0][:220]


def run_one(args):
    patch, props = args
    tmp = tempfile.mkdtemp(prefix="gfaverif_benign_")
    out = {}
    try:
        shutil.copytree("/repo/gfapy", os.path.join(tmp, "gfapy"))
        shutil.copytree("/repo/bin", os.path.join(tmp, "bin"))
        if patch is not None:
            p = subprocess.run(["patch", "-p1", "-s",
                                "--no-backup-if-mismatch", "-i",
                                os.path.join(VERIF, "benign", patch + ".diff")],
                               cwd=tmp, capture_output=True, text=True)
            if p.returncode != 0:
                return patch, {"_patch": "does not apply"}
        for prop in props:
            out[prop] = check(prop, tmp, os.path.join(tmp, ".ev"))
    finally:
        shutil.rmtree(tmp, ignore_errors=True)
    return patch, out


def main():
    ap = argparse.ArgumentParser()
    ap.add_argument("--props", default=None)
    ap.add_argument("--patches", default=None)
    a = ap.parse_args()
    props = a.props.split(",") if a.props else PROPERTIES
    patches = a.patches.split(",") if a.patches else sorted(
        f[:-5] for f in os.listdir(os.path.join(VERIF, "benign"))
        if f.endswith(".diff"))
    with ProcessPoolExecutor(max_workers=14) as ex:
        results = list(ex.map(run_one, [(None, props)] +
                              [(p, props) for p in patches]))
    base = results[0][1]
    bad = 0
    for patch, res in results[1:]:
        if "_patch" in res:
            print("%-6s %s" % (patch, res["_patch"]))
            continue
        diffs = []
        for prop in props:
            if res[prop][0] != base[prop][0] or res[prop][1] != base[prop][1]:
                diffs.append("%s exit %s->%s %s" % (
                    prop, base[prop][0], res[prop][0], res[prop][2]))
        print("%-6s %s" % (patch, "silent" if not diffs else "ALARM"))
        for d in diffs:
            bad += 1
            print("       " + d)
    print("%d false alarm(s) over %d patches x %d checks" % (
        bad, len(patches), len(props)))
    return 1 if bad else 0


if __name__ == "__main__":
    sys.exit(main())
