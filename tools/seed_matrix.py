#!/usr/bin/env python3
"""Run the quick checks against every kept seed (scratch copies only).

usage: /venv/bin/python tools/seed_matrix.py [--props C10,C12] [--seeds C10-a,...] [--update]

For each /verif/seeded/<id>: copy /repo's working tree (gfapy/, bin/) to a
temporary directory outside /repo and /verif, apply patch.diff there, run the
checks with --repo <copy>, remove the copy.  /repo itself is never touched.
Prints one row per seed: which checks exit 1 (VIOLATION), 2 (ANALYSIS-ERROR).
"""
import argparse
import json
import os
import shutil
import subprocess
import sys
import tempfile
from concurrent.futures import ProcessPoolExecutor

VERIF = os.path.dirname(os.path.dirname(os.path.abspath(__file__)))
SEEDS = os.path.join(VERIF, "seeded")


def built_props():
    d = os.path.join(VERIF, "gfaverif", "rules")
    return sorted(f[:-3].upper() for f in os.listdir(d)
                  if f.startswith("c") and f[1:3].isdigit() and f.endswith(".py"))


def run_one(args):
    seed, props = args
    sd = os.path.join(SEEDS, seed)
    tmp = tempfile.mkdtemp(prefix="gfaverif_seed_")
    res = {}
    try:
        shutil.copytree("/repo/gfapy", os.path.join(tmp, "gfapy"))
        shutil.copytree("/repo/bin", os.path.join(tmp, "bin"))
        p = subprocess.run(["patch", "-p1", "-s", "--no-backup-if-mismatch",
                            "-i", os.path.join(sd, "patch.diff")], cwd=tmp,
                           capture_output=True, text=True)
        if p.returncode != 0:
            return seed, {"_patch": "FAILED " + p.stdout[:200]}
        for prop in props:
            env = dict(os.environ)
            env["GFAVERIF_EVIDENCE_DIR"] = os.path.join(tmp, "evidence")
            q = subprocess.run(["/venv/bin/python", "-m", "gfaverif", "check",
                                prop, "--repo", tmp], cwd=VERIF,
                               capture_output=True, text=True, env=env)
            first = ""
            lines = q.stdout.splitlines()
            for i, l in enumerate(lines):
                if l.startswith(prop + ".") and ":" in l:
                    first = l + " | " + (lines[i + 1].strip() if i + 1 < len(lines) else "")
                    break
                if l.startswith("ANALYSIS-ERROR"):
                    first = l
                    break
            res[prop] = (q.returncode, first[:260])
    finally:
        shutil.rmtree(tmp, ignore_errors=True)
    return seed, res


def main():
    ap = argparse.ArgumentParser()
    ap.add_argument("--props", default=None)
    ap.add_argument("--seeds", default=None)
    ap.add_argument("--update", action="store_true",
                    help="write detected_by into each seed's meta.json")
    ap.add_argument("-v", action="store_true")
    a = ap.parse_args()
    props = a.props.split(",") if a.props else built_props()
    seeds = a.seeds.split(",") if a.seeds else sorted(os.listdir(SEEDS))
    with ProcessPoolExecutor(max_workers=14) as ex:
        results = list(ex.map(run_one, [(s, props) for s in seeds]))
    ndet = 0
    for seed, res in results:
        if "_patch" in res:
            print("%-8s %s" % (seed, res["_patch"]))
            continue
        det = [p for p, (rc, _) in res.items() if rc == 1]
        err = [p for p, (rc, _) in res.items() if rc == 2]
        own = seed.split("-")[0]
        mark = "DETECTED" if det else "missed  "
        if det:
            ndet += 1
        print("%-8s %s by=%-22s errors=%s" % (seed, mark, ",".join(det),
                                               ",".join(err)))
        if a.v:
            for p in det + err:
                print("      %s: %s" % (p, res[p][1]))
        if a.update:
            mp = os.path.join(SEEDS, seed, "meta.json")
            meta = json.load(open(mp))
            meta["detected_by"] = [{"check": p, "report": res[p][1]}
                                   for p in det]
            meta["checks_run"] = props
            json.dump(meta, open(mp, "w"), indent=1)
    print("%d/%d seeds detected by at least one of %s" % (ndet, len(results),
                                                          ",".join(props)))


if __name__ == "__main__":
    main()
