import sys, time
from gfaverif.model import Repo
from gfaverif.rules.effects_common import program
from gfaverif.atom import Atom
repo = Repo(sys.argv[1] if len(sys.argv)>1 else '/repo')
t=time.time()
prog = program(repo)
a = Atom(prog)
print('raises fixpoint rounds', a.rounds, time.time()-t)
G=repo.cls("Gfa"); L=repo.cls("Line")
entries=[(G.find_method("add_line"),{"self"}),
         (G.find_method("rm"),{"self"}),
         (L.find_method("connect"),{"p0"}),
         (L.find_method("set"),{"self"}),
         (L.find_method("_set_existing_field"),{"self"}),
         (L.find_method("delete"),{"self"}),
         (L.find_method("set_datatype"),{"self"}),
         (L.find_method("disconnect"),{"self"}),
         (repo.cls("line.Header").find_method("add"),{"self"}),
         (repo.cls("line.Header").find_method("_merge"),{"self"}),
         (repo.cls("line.Header").find_method("connect"),{"p0"}),
        ]
v,frames=a.analyse(entries)
print(len(frames),'frames', len(v),'violations', time.time()-t)
seen=set()
for x in v:
    k=(x['function'].short, x['commit'], x['raise_site'])
    if k in seen: continue
    seen.add(k)
    print(x['function'].short, sorted(x['P']), '\n    commit:', x['commit'], '\n    raise :', x['raise_site'], x['classes'], 'via', x['via'])
print(len(seen))
